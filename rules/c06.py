"""C06 — Container TOC and attached metadata stay in exact one-to-one sync.

Decided (pairing / ownership conditions without which the invariant cannot hold):
R1 register/unregister pairing incl. threading of the `_unlink` switch; R2 node operations carry their metadata;
R3 the reserved namespace is written by the bookkeeping code only; R4 no empty bookkeeping groups (paired cleanup);
R5 incrementally maintained index == index rebuilt on open (loader/writer agreement); R6 key-kind agreement of _objs.
Not decided: the global invariant over all reachable container states (runtime).
"""
from __future__ import annotations

import ast

from mdsa.astutil import call_attr, call_recv, kwarg, local_calls, norm, store_targets
from mdsa.cfg import walk_local
from mdsa.loader import AnalysisError

from . import c07
from .common import Ctx, local_defs, node_of
from .tocmodel import I, r_links_register, r_loader_agreement, r_schema_register
from .wrapmodel import W, factory_call_info, is_raw_expr

EXPLANATION = (
    "R1 MUST: after the raw store in MetadorMeta._set_raw every normal exit registered the object in the TOC; _del_raw unregisters "
    "unless _unlink is False, and every call of _del_raw/_destroy/_destroy_meta inside a function that itself takes `_unlink` threads "
    "that parameter through (the literal False originates only in copy(..., without_meta=True)); TOCLinks.register/unregister pair "
    "link write / link delete / uuid index / schema (un)registration. R2 ORDER: __delitem__ destroys metadata before the raw delete "
    "and recursively for groups; move relinks (update=True) and moves a dataset's parallel metadata group; copy re-registers copied "
    "metadata under fresh uuids or destroys it without unlinking. R3 OWN: raw writes whose path derives from a METADOR_* constant or a "
    "metadata base dir occur only in container/interface.py and in move/copy of wrappers.py. R4: each delete of a bookkeeping child is "
    "followed by the emptiness test and removal of the parent group. R5/R6: see C20.R2 and C07.R1."
)
NOT_DECIDED = "the one-to-one invariant as a property of all reachable container states, on both drivers (runtime)"


def run(P, rep, tier):
    rep.explanation = EXPLANATION
    rep.not_decided = NOT_DECIDED
    rep.assumptions = ["raw h5 objects behave as the H5*Like protocols describe", "moving a node into its own subtree is excluded by the property"]
    ctx = Ctx(P)
    rep.attempt(r1_pairing, P, rep, ctx)
    rep.attempt(r_links_register, P, rep, ctx, "C06.R1")
    rep.attempt(r_schema_register, P, rep, ctx, "C06.R1")
    rep.attempt(r2_node_ops, P, rep, ctx)
    rep.attempt(r3_namespace_owner, P, rep, ctx, tier)
    rep.attempt(r4_cleanup, P, rep, ctx)
    rep.attempt(r_loader_agreement, P, rep, ctx, "C06.R5")
    rep.attempt(_r6, P, rep, ctx)
    # the per-node table of attached objects (and the metadata directory path) is rebuilt from the container on every
    # access: a cached view deletes the whole metadata directory / writes to a moved node's old location
    rep.attempt(c07.r5_fresh_view, P, rep, ctx, "C06.R7")
    rep.floor("C06.R1", 18)
    rep.floor("C06.R2", 10)
    rep.floor("C06.R3", 10)
    rep.floor("C06.R4", 5)
    rep.floor("C06.R5", 12)


def _r6(P, rep, ctx):
    n0 = len(rep.obligations)
    c07.r1_key_kinds(P, rep, ctx)
    for o in rep.obligations[n0:]:
        o["rule"] = "C06.R6"
    for f in rep.findings:
        if f.rule == "C07.R1":
            f.rule = "C06.R6"
    rep.rule_counts["C06.R6"] = rep.rule_counts.get("C06.R6", 0) + rep.rule_counts.pop("C07.R1", 0)


def r1_pairing(P, rep, ctx):
    MM = f"{I}.MetadorMeta"
    fi = P.func(f"{MM}._set_raw")
    g = ctx.cfg(fi)
    store = [n.idx for n in g.nodes if n.kind == "stmt" and isinstance(n.stmt, ast.Assign) and any(norm(t) == "self._mc.__wrapped__[obj_path]" for t in n.stmt.targets)]
    reg = [n.idx for n in g.nodes if any(norm(c.func) == "self._mc.metador._links.register" for c in g.calls(n.idx))]
    ok = bool(store) and bool(reg) and all(g.every_path_passes(reg, g.exit, src=s) for s in store) and all(g.every_path_passes(store, r) for r in reg)
    rep.check(ok, "C06.R1", fi.qual, "every stored object is registered in the TOC before _set_raw returns", fi.loc(), construct="register after store", message="_set_raw can return without registering the stored object in the TOC (object without link)")
    for r in reg:
        for c in g.calls(r):
            if call_attr(c) == "register":
                a = norm(c.args[0])
                d = [norm(v) for k, v in local_defs(fi).get(a, []) if v is not None]
                rep.check(d == ["StoredMetadata(uuid=obj_uuid, schema=schema_ref, node=obj_node)"], "C06.R1", fi.qual, "the registered record carries the object's uuid, schema and node", fi.loc(c), construct=f"registered object {d}", message=f"_set_raw registers {d}")
    rep.check("obj_uuid = self._mc.metador._links.fresh_uuid()" in norm(fi.node), "C06.R1", fi.qual, "a fresh (unused) uuid is reserved for the object", fi.loc(), construct="fresh uuid", message="_set_raw does not reserve a fresh uuid from the TOC")
    fu = P.func(f"{I}.TOCLinks.fresh_uuid")
    t = norm(fu.node)
    rep.check("fresh = ret not in self._toc_path" in t and "self._toc_path[ret] = None" in t and "while not fresh" in t, "C06.R1", fu.qual, "fresh_uuid retries until unused and reserves the uuid", fu.loc(), construct="fresh_uuid", message="fresh_uuid does not guarantee an unused, reserved uuid")
    idx = [n.idx for n in g.nodes if n.kind == "stmt" and norm(n.stmt) == "self._objs[schema_ref.name] = stored_obj"]
    rep.check(bool(idx) and g.every_path_passes(idx, g.exit), "C06.R1", fi.qual, "the node's in-memory object table records the stored object", fi.loc(), construct="_objs update in _set_raw", message="_set_raw does not record the object in _objs: a second object of the same schema is then accepted on this view")
    fi = P.func(f"{MM}._del_raw")
    g = ctx.cfg(fi)
    tests = [t for t in g.nodes if t.kind == "test" and norm(t.exprs[0]) == "_unlink"]
    unr = [n.idx for n in g.nodes if any(norm(c.func) == "self._mc.metador._links.unregister" and norm(c.args[0]) == "stored_obj.uuid" for c in g.calls(n.idx))]
    dels = [n.idx for n in g.nodes if n.kind == "stmt" and isinstance(n.stmt, ast.Delete)]
    ok = bool(tests) and bool(unr) and all(g.every_path_passes(unr, g.exit, src=t.idx, src_label="T") for t in tests) and g.every_path_passes([t.idx for t in tests], g.exit)
    rep.check(ok, "C06.R1", fi.qual, "deleting an object unregisters its link unless _unlink is False", fi.loc(), construct="unregister in _del_raw", message="_del_raw can delete a metadata object without unregistering its TOC link (dangling link)")
    t = norm(fi.node)
    rep.check("del self._objs[stored_obj.schema.name]" in t and "del self._mc.__wrapped__[stored_obj.node.name]" in t, "C06.R1", fi.qual, "the object is removed from the index and from the container", fi.loc(), construct="object removal", message="_del_raw does not remove the object node and its index entry")
    sig = fi.node.args
    dfl = {a.arg: norm(d) for a, d in zip(sig.kwonlyargs, sig.kw_defaults) if d is not None}
    rep.check(dfl.get("_unlink") == "True", "C06.R1", fi.qual, "_unlink defaults to True", fi.loc(), construct="_unlink default", message=f"_del_raw's _unlink defaults to {dfl.get('_unlink')}")
    # threading of the _unlink switch
    targets = {"_del_raw", "_destroy", "_destroy_meta"}
    n_thread = 0
    literal_false = []
    for f in P.functions.values():
        if f.module.name not in (I, W):
            continue
        has_param = "_unlink" in f.params
        for c in local_calls(f.node):
            if call_attr(c) not in targets:
                continue
            kw = kwarg(c, "_unlink")
            if has_param:
                n_thread += 1
                rep.check(kw is not None and norm(kw) == "_unlink", "C06.R1", f.qual, f"{call_attr(c)} is called with the caller's _unlink switch", f.loc(c), construct=norm(c),
                          message=f"{f.qual} takes `_unlink` but calls {norm(c)} without passing it on: a data-only group copy (without_meta=True) then unregisters the TOC links of the *original* nested objects")
            elif kw is not None and norm(kw) != "True":
                literal_false.append((f, c))
    if n_thread < 3:
        raise AnalysisError(f"C06.R1: only {n_thread} threaded _unlink calls found")
    for f, c in literal_false:
        ok = f.qual == f"{W}.MetadorGroup.copy"
        if ok:
            g = ctx.cfg(f)
            site = node_of(g, c)
            tests = [t.idx for t in g.nodes if t.kind == "test" and norm(t.exprs[0]) == "without_meta"]
            ok = site is not None and any(g.edge_dominates(t, "T", site) for t in tests)
        rep.check(ok, "C06.R1", f.qual, "metadata is destroyed without unlinking only for copy(..., without_meta=True)", f.loc(c), construct=norm(c), message=f"{norm(c)} in {f.qual}: links are kept although objects are deleted outside the copy-without-metadata case")
    rep.check(len(literal_false) == 1, "C06.R1", f"{W}.MetadorGroup.copy", "exactly one origin of _unlink=False", "", construct="origins of _unlink=False", message=f"{len(literal_false)} call sites pass a non-True _unlink")
    # unregister
    fi = P.func(f"{I}.TOCLinks.unregister")
    g = ctx.cfg(fi)
    t = norm(fi.node)
    dl = [n.idx for n in g.nodes if n.kind == "stmt" and norm(n.stmt) == "del self._raw[toc_path]"]
    di = [n.idx for n in g.nodes if n.kind == "stmt" and norm(n.stmt) == "del self._toc_path[uuid]"]
    rep.check(bool(dl) and bool(di) and g.every_path_passes(dl, g.exit) and g.every_path_passes(di, g.exit), "C06.R1", fi.qual, "unregister deletes the link node and frees the uuid on every path", fi.loc(), construct="link delete", message="unregister does not delete the link node and the uuid index entry on every path")
    sch = [n.idx for n in g.nodes if any(norm(c.func) == "self._toc_schemas._unregister" for c in g.calls(n.idx))]
    tests = [x for x in g.nodes if x.kind == "test" and norm(x.exprs[0]) == "len(schema_group)"]
    ok = bool(sch) and bool(tests) and all(g.every_path_passes(sch, g.exit, src=x.idx, src_label="F") for x in tests) and all(any(g.edge_dominates(x.idx, "F", s) for x in tests) for s in sch)
    rep.check(ok, "C06.R1", fi.qual, "when the last link of a schema is removed the schema record is unregistered (and only then)", fi.loc(), construct="schema unregistration", message="unregister does not notify the schema manager exactly when the schema's link group became empty")
    rep.check("self._toc_schemas._unregister(_schema_ref_for(s_name_vers))" in t and "s_name_vers: str = schema_group.name.split('/')[-1]" in t, "C06.R1", fi.qual, "the unregistered schema is the one named by the link group", fi.loc(), construct="schema ref of group", message="unregister derives the schema reference differently from the link group name")
    su = P.func(f"{I}.TOCSchemas._unregister")
    g = ctx.cfg(su)
    lp = [n for n in g.nodes if n.kind == "for" and norm(n.stmt.iter) == "providers"]
    rmv = [n.idx for n in g.nodes if n.kind == "stmt" and norm(n.stmt) == "pkg_used.remove(schema_ref)"]
    ut = [t.idx for t in g.nodes if t.kind == "test" and norm(t.exprs[0]) == "schema_ref in pkg_used"]
    et = [t.idx for t in g.nodes if t.kind == "test" and norm(t.exprs[0]) in ("not len(pkg_used)", "not pkg_used", "len(pkg_used) == 0")]
    pu = [n.idx for n in g.nodes if n.kind == "stmt" and norm(n.stmt) == "self._pkgs._unregister(pkg)"]
    ok = len(lp) == 1 and bool(rmv) and bool(ut) and bool(et) and bool(pu) and all(g.every_path_passes(rmv, lp[0].idx, src=t, src_label="T") for t in ut) and g.every_path_passes(et, lp[0].idx, src=lp[0].idx, src_label="iter") and all(g.every_path_passes(pu, lp[0].idx, src=t, src_label="T") for t in et) and all(any(g.edge_dominates(t, "T", x) for t in et) for x in pu) and all(g.every_path_passes(ut, e) for e in et)
    rep.check(ok, "C06.R1", su.qual, "for every providing package the schema is removed from its use set and the package record is dropped exactly when that set becomes empty", su.loc(), construct="package use counting in _unregister",
              message="TOCSchemas._unregister does not decrement the package's used-schema set / drop the package record exactly when no used schema is left")
    pd = [norm(v) for k, v in local_defs(su).get("providers", []) if v is not None]
    rep.check(pd == ["set(self._pkgs._providers[schema_ref])"], "C06.R1", su.qual, "the providers are iterated over a snapshot (the table is modified while packages are dropped)", su.loc(), construct=f"providers = {pd}", message=f"providers is {pd}")
    pun = P.func(f"{I}.TOCPackages._unregister")
    g2 = ctx.cfg(pun)
    pr = [n.idx for n in g2.nodes if n.kind == "stmt" and norm(n.stmt) == "providers.remove(pkg)"]
    l2 = [n for n in g2.nodes if n.kind == "for" and norm(n.stmt.iter) == "info.plugins[schemas.name]"]
    rep.check(len(l2) == 1 and bool(pr) and g2.every_path_passes(pr, l2[0].idx, src=l2[0].idx, src_label="iter") and "info = self._pkginfos.pop(pkg)" in norm(pun.node) and "del self._raw[pkg_path]" in norm(pun.node), "C06.R1", pun.qual,
              "dropping a package removes its record, its info and itself from every provider set", pun.loc(), construct="TOCPackages._unregister", message="TOCPackages._unregister leaves the package in a provider set / keeps its record")
    t = norm(su.node)
    ok = "del self._raw[self._schema_path_for(schema_ref)]" in t and "self._schemas.remove(schema_ref)" in t and "self._update_parents_children(schema_ref, None)" in t and "self._pkgs._unregister(pkg)" in t and "if not len(pkg_used)" in t
    rep.check(ok, "C06.R1", su.qual, "schema record, tables and unused provider packages are removed together", su.loc(), construct="TOCSchemas._unregister", message="TOCSchemas._unregister does not remove the schema group, its table entries and packages no longer used")


def r2_node_ops(P, rep, ctx):
    G = f"{W}.MetadorGroup"
    fi = P.func(f"{G}.__delitem__")
    g = ctx.cfg(fi)
    dm = [n.idx for n in g.nodes if any(call_attr(c) == "_destroy_meta" for c in g.calls(n.idx))]
    raw = [n.idx for n in g.nodes if any(isinstance(c.func, ast.Call) and (factory_call_info(P, None, c.func) or ("", ""))[0] == "__delitem__" for c in g.calls(n.idx)) or (n.kind == "stmt" and isinstance(n.stmt, ast.Delete) and any(is_raw_expr(t.value) for t in n.stmt.targets if isinstance(t, ast.Subscript)))]
    ok = bool(dm) and bool(raw) and all(g.every_path_passes(dm, r) for r in raw) and g.every_path_passes(raw, g.exit)
    rep.check(ok, "C06.R2", fi.qual, "metadata of the node (and below) is destroyed before the node itself is deleted", fi.loc(), construct="_destroy_meta before raw delete", message="MetadorGroup.__delitem__ deletes the node without first destroying/unlinking its metadata (dangling TOC links)")
    rep.check("node = self[name]" in norm(fi.node) and "node._destroy_meta()" in norm(fi.node), "C06.R2", fi.qual, "the destroyed metadata is that of the deleted node", fi.loc(), construct="destroyed node", message="__delitem__ does not destroy the metadata of self[name]")
    fi = P.func(f"{G}._destroy_meta")
    t = norm(fi.node)
    rep.check("super()._destroy_meta(_unlink=_unlink)" in t and "for child in self.values()" in t and "child._destroy_meta(" in t, "C06.R2", fi.qual, "group metadata destruction covers the node and recurses over all children", fi.loc(), construct="recursive destroy", message="MetadorGroup._destroy_meta does not destroy its own metadata and recurse over all children")
    dn = P.func(f"{W}.MetadorNode._destroy_meta")
    rep.check("self.meta._destroy(_unlink=_unlink)" in norm(dn.node), "C06.R2", dn.qual, "node metadata destruction deletes every attached object", dn.loc(), construct="node destroy", message="MetadorNode._destroy_meta does not call meta._destroy")
    ds = P.func(f"{I}.MetadorMeta._destroy")
    rep.check("for schema_name in list(self.keys())" in norm(ds.node) and "self._del_raw(schema_name, _unlink=_unlink)" in norm(ds.node), "C06.R2", ds.qual, "_destroy deletes every attached object (iterating a snapshot of the keys)", ds.loc(), construct="_destroy", message="_destroy does not delete all attached objects over a snapshot of keys")
    # move
    fi = P.func(f"{G}.move")
    g = ctx.cfg(fi)
    raw_move = [n.idx for n in g.nodes if any(call_attr(c) == "move" and is_raw_expr(c.func.value) and [norm(a) for a in c.args] == ["source", "dest"] for c in g.calls(n.idx))]
    rep_calls = [n.idx for n in g.nodes if any(call_attr(c) == "repair_missing" for c in g.calls(n.idx))]
    fm = [n.idx for n in g.nodes if any(call_attr(c) == "find_missing" for c in g.calls(n.idx))]
    tests = [t.idx for t in g.nodes if t.kind == "test" and norm(t.exprs[0]).strip("()") == "meta_base_node := self.__wrapped__.get(meta_base"]
    ok = bool(raw_move) and bool(rep_calls) and bool(tests) and all(g.every_path_passes(raw_move, r) for r in rep_calls) and all(g.every_path_passes(rep_calls, g.exit, src=t, src_label="T") for t in tests) and g.every_path_passes(tests, g.exit) and all(g.every_path_passes(fm, r) for r in rep_calls)
    rep.check(ok, "C06.R2", fi.qual, "after the raw move the TOC links of all carried metadata are repaired whenever metadata exists", fi.loc(), construct="relink after move", message="MetadorGroup.move can return without repairing the TOC links of moved metadata")
    upd = [c for c in local_calls(fi.node) if call_attr(c) == "repair_missing"]
    rep.check(bool(upd) and all(norm(kwarg(c, "update") or ast.Constant(value=None)) == "True" for c in upd), "C06.R2", fi.qual, "move keeps uuids (update=True)", fi.loc(), construct="repair_missing(update=True)", message="move repairs links without update=True: objects get new uuids / duplicate links")
    mm = [n.idx for n in g.nodes if any(call_attr(c) == "move" and is_raw_expr(c.func.value) and [norm(a) for a in c.args] == ["src_metadir", "dst_metadir"] for c in g.calls(n.idx))]
    dtest = [t.idx for t in g.nodes if t.kind == "test" and norm(t.exprs[0]) == "isinstance(dst_node, MetadorDataset)"]
    mtest = [t.idx for t in g.nodes if t.kind == "test" and norm(t.exprs[0]) == "src_metadir in self.__wrapped__"]
    ok = bool(mm) and bool(dtest) and bool(mtest) and all(any(g.edge_dominates(t, "T", m) for t in dtest) and any(g.edge_dominates(t, "T", m) for t in mtest) for m in mm) and all(g.every_path_passes(mm, g.exit, src=t, src_label="T") for t in mtest)
    rep.check(ok, "C06.R2", fi.qual, "a moved dataset's parallel metadata group is moved along when it exists", fi.loc(), construct="dataset metadata move", message="move does not relocate the parallel metadata group of a dataset")
    rep.check("src_metadir = self[source].meta._base_dir" in norm(fi.node) and all(g.every_path_passes([n.idx for n in g.nodes if n.kind == 'stmt' and 'src_metadir = ' in norm(n.stmt)], r) for r in raw_move), "C06.R2", fi.qual, "the source's metadata dir is determined before the node is moved", fi.loc(), construct="src_metadir before move", message="move computes the source metadata dir after the raw move")
    # copy
    fi = P.func(f"{G}.copy")
    g = ctx.cfg(fi)
    t = norm(fi.node)
    ds_t = [x.idx for x in g.nodes if x.kind == "test" and norm(x.exprs[0]) == "src_is_dataset and (not without_meta)"]
    grp_t = [x.idx for x in g.nodes if x.kind == "test" and norm(x.exprs[0]) == "not src_is_dataset"]
    wm_t = [x.idx for x in g.nodes if x.kind == "test" and norm(x.exprs[0]) == "without_meta"]
    reps = [n.idx for n in g.nodes if any(call_attr(c) == "repair_missing" for c in g.calls(n.idx))]
    cpm = [n.idx for n in g.nodes if any(call_attr(c) == "copy" and is_raw_expr(c.func.value) and [norm(a) for a in c.args] == ["src_meta", "dst_meta"] for c in g.calls(n.idx))]
    ok = bool(ds_t) and bool(cpm) and all(g.every_path_passes(cpm, g.exit, src=x, src_label="T") for x in ds_t) and all(any(r in g.reach([c]) for r in reps) for c in cpm)
    rep.check(ok, "C06.R2", fi.qual, "copying a dataset with metadata copies its parallel metadata group and registers it", fi.loc(), construct="dataset metadata copy", message="copy of a dataset does not copy + register its metadata group")
    dest = [n.idx for n in g.nodes if any(call_attr(c) == "_destroy_meta" for c in g.calls(n.idx))]
    ok = bool(grp_t) and bool(wm_t) and all(g.every_path_passes(dest, g.exit, src=x, src_label="T") for x in wm_t) and all(g.every_path_passes(reps, g.exit, src=x, src_label="F") for x in wm_t) and all(any(g.edge_dominates(y, "T", x) for y in grp_t) for x in wm_t)
    rep.check(ok, "C06.R2", fi.qual, "copying a group either registers the copied metadata (fresh uuids) or destroys it without unlinking", fi.loc(), construct="group metadata after copy", message="copy of a group leaves copied metadata objects unregistered (or registered twice)")
    rp = [c for c in local_calls(fi.node) if call_attr(c) == "repair_missing"]
    rep.check(all(kwarg(c, "update") is None for c in rp) and len(rp) >= 2, "C06.R2", fi.qual, "copied objects get fresh uuids (no update=True)", fi.loc(), construct="repair after copy", message="copy re-links copied objects with update=True: two objects share one uuid")
    rm = P.func(f"{I}.TOCLinks.repair_missing")
    g = ctx.cfg(rm)
    seq = ["obj.uuid = self.fresh_uuid()", "new_path = obj.to_path()", "self._raw.move(node.name, new_path)", "obj.node = cast(H5DatasetLike, self._raw[new_path])", "self.register(obj)"]
    ns = [[n.idx for n in g.nodes if n.kind == "stmt" and norm(n.stmt) == s_] for s_ in seq]
    okseq = all(ns) and all(g.every_path_passes(a, b[0]) for a, b in zip(ns, ns[1:]))
    rep.check(okseq, "C06.R2", rm.qual, "re-uuid: fresh uuid < new object path < rename < node handle updated < registered", rm.loc(), construct="repair_missing else-branch order", message="repair_missing does not (reserve uuid, rename the object node, refresh obj.node, register) in this order: the new link would point at the old / a missing object path")
    ut = [t.idx for t in g.nodes if t.kind == "test" and norm(t.exprs[0]) == "update and obj.uuid in self._toc_path"]
    upd = [n.idx for n in g.nodes if n.kind == "stmt" and norm(n.stmt) == "self.update(obj.uuid, node.name)"]
    loops = [n for n in g.nodes if n.kind == "for" and norm(n.stmt.iter) == "missing"]
    ok = bool(ut) and bool(upd) and len(loops) == 1 and all(g.every_path_passes(upd, loops[0].idx, src=t, src_label="T") for t in ut) and all(g.every_path_passes(ns[-1], loops[0].idx, src=t, src_label="F") for t in ut) and g.every_path_passes(ut, loops[0].idx, src=loops[0].idx, src_label="iter")
    rep.check(ok, "C06.R2", rm.qual, "every missing object is either re-linked (update) or re-registered under a fresh uuid", rm.loc(), construct="repair_missing per-object handling", message="repair_missing can skip an object or handle it on the wrong branch")
    fmf0 = P.func(f"{I}.TOCLinks.find_missing")
    cm = fmf0.nested.get("collect_missing")
    if cm is None:
        raise AnalysisError("find_missing.collect_missing not found")
    gcm = ctx.cfg(cm)
    t1 = [t.idx for t in gcm.nodes if t.kind == "test" and norm(t.exprs[0]) == "not M.is_internal_path(node.name, M.METADOR_META_PREF)"]
    t2 = [t.idx for t in gcm.nodes if t.kind == "test" and norm(t.exprs[0]) == "M.is_meta_base_path(node.name)"]
    t3 = [t.idx for t in gcm.nodes if t.kind == "test" and norm(t.exprs[0]) == "not known or collision"]
    app = [n.idx for n in gcm.nodes if any(call_attr(c) == "append" and norm(c.func.value) == "missing" and norm(c.args[0]) == "node" for c in gcm.calls(n.idx))]
    ok = bool(t1) and bool(t2) and bool(t3) and bool(app) and all(gcm.edge_dominates(t1[0], "F", a) and gcm.edge_dominates(t2[0], "F", a) and gcm.edge_dominates(t3[0], "T", a) for a in app) and all(gcm.every_path_passes(app, gcm.exit, src=t, src_label="T") for t in t3)
    rep.check(ok, "C06.R2", cm.qual, "exactly the metadata object nodes whose uuid is unknown or collides are reported as missing", cm.loc(), construct="collect_missing filter", message="find_missing's collector does not report exactly the metadata objects with unknown / colliding uuid")
    from .common import require_total

    for fq in (f"{I}.TOCLinks.find_missing", f"{I}.TOCLinks.fresh_uuid", f"{I}.TOCLinks.resolve", f"{I}.StoredMetadata.to_path", f"{I}.StoredMetadata.from_node"):
        require_total(rep, ctx, "C06.R2", P.func(fq))
    t = norm(rm.node)
    ok = "if update and obj.uuid in self._toc_path" in t and "self.update(obj.uuid, node.name)" in t and "obj.uuid = self.fresh_uuid()" in t and "self._raw.move(node.name, new_path)" in t and "self.register(obj)" in t
    rep.check(ok, "C06.R2", rm.qual, "repair: update existing link target, or rename to a fresh uuid and register", rm.loc(), construct="repair_missing", message="repair_missing does not (update link) / (assign fresh uuid, rename node, register)")
    fmf = P.func(f"{I}.TOCLinks.find_missing")
    t = norm(fmf.node)
    ok = "known = obj.uuid in self._toc_path" in t and "collision = known and self.resolve(obj.uuid) != node.name" in t and "if not known or collision" in t and "visititems(collect_missing)" in t
    rep.check(ok, "C06.R2", fmf.qual, "find_missing reports unknown uuids and uuid collisions below the given group", fmf.loc(), construct="find_missing", message="find_missing does not report objects with unknown or colliding uuids")


BOOK_CONSTS = ("METADOR_TOC_PATH", "METADOR_VERSION_PATH", "METADOR_UUID_PATH", "METADOR_PACKAGES_PATH", "METADOR_SCHEMAS_PATH", "METADOR_LINKS_PATH", "METADOR_META_PREF", "METADOR_PREF")
PATH_HELPERS = ("_link_path_for", "_schema_path_for", "_jsonschema_path_for", "_pkginfo_path_for", "to_meta_base_path", "to_path")


def _bookkeeping_path(fi, e) -> bool:
    from .common import slice_roots

    for kind, x, via in slice_roots(fi, e):
        if x is None:
            continue
        t = norm(x)
        if any(c in t for c in BOOK_CONSTS) or any(h + "(" in t for h in PATH_HELPERS) or "_base_dir" in t or "toc_path" in t or "_toc_path[" in t:
            return True
    return False


def r3_namespace_owner(P, rep, ctx, tier):
    allowed_wrappers = {f"{W}.MetadorGroup.move", f"{W}.MetadorGroup.copy"}
    n = 0
    for fi in P.functions.values():
        if not isinstance(fi.node, (ast.FunctionDef, ast.AsyncFunctionDef)):
            continue
        if tier != "thorough" and fi.module.name.split(".")[0] not in ("container", "packer", "harvester", "widget", "cli"):
            continue
        for st in walk_local(fi.node):
            writes = []
            if isinstance(st, (ast.Assign, ast.Delete)):
                for k, t in store_targets(st):
                    if isinstance(t, ast.Subscript):
                        writes.append((t.slice, st))
            if isinstance(st, ast.Call) and call_attr(st) in ("create_group", "create_dataset", "require_group", "require_dataset", "move", "copy") and st.args:
                for a in st.args[:2]:
                    writes.append((a, st))
            for pe, node in writes:
                if not _bookkeeping_path(fi, pe):
                    continue
                n += 1
                owner = fi
                while owner.parent is not None:
                    owner = owner.parent
                ok = owner.module.name == I or owner.qual in allowed_wrappers
                rep.check(ok, "C06.R3", owner.qual, f"bookkeeping path written by the bookkeeping code: {norm(node)[:70]}", fi.loc(node), construct=norm(node)[:110],
                          message=f"{owner.qual} writes into the reserved metador_* namespace ({norm(node)[:90]}); only container/interface.py and move/copy of the wrappers may")
    if n < 10:
        raise AnalysisError(f"C06.R3: only {n} bookkeeping writes found")


def r4_cleanup(P, rep, ctx):
    pairs = [
        (f"{I}.TOCLinks.unregister", "del self._raw[toc_path]", "len(schema_group)", "del self._raw[schema_group.name]", "F"),
        (f"{I}.TOCLinks.unregister", "del self._raw[schema_group.name]", "len(link_group.keys())", "del self._raw[link_group.name]", "F"),
        (f"{I}.TOCSchemas._unregister", "del self._raw[self._schema_path_for(schema_ref)]", "not self._raw.require_group(M.METADOR_SCHEMAS_PATH).keys()", "del self._raw[M.METADOR_SCHEMAS_PATH]", "T"),
        (f"{I}.TOCPackages._unregister", "del self._raw[pkg_path]", "not self._raw.require_group(M.METADOR_PACKAGES_PATH).keys()", "del self._raw[M.METADOR_PACKAGES_PATH]", "T"),
        (f"{I}.MetadorMeta._del_raw", "del self._mc.__wrapped__[stored_obj.node.name]", "not self._objs", "del self._mc.__wrapped__[self._base_dir]", "T"),
    ]
    for q, child_del, test_txt, parent_del, lab in pairs:
        fi = P.func(q)
        g = ctx.cfg(fi)
        cd = [n.idx for n in g.nodes if n.kind == "stmt" and norm(n.stmt) == child_del]
        tt = [t.idx for t in g.nodes if t.kind == "test" and norm(t.exprs[0]) == test_txt]
        pd = [n.idx for n in g.nodes if n.kind == "stmt" and norm(n.stmt) == parent_del]
        ok = bool(cd) and bool(tt) and bool(pd) and all(g.every_path_passes(tt, g.exit, src=c) for c in cd) and all(g.every_path_passes(pd, g.exit, src=t, src_label=lab) for t in tt) and all(any(g.edge_dominates(t, lab, p) for t in tt) for p in pd)
        rep.check(ok, "C06.R4", fi.qual, f"after `{child_del[:50]}` the parent is tested for emptiness and removed when empty", fi.loc(), construct=f"cleanup after {child_del}",
                  message=f"{q}: after `{child_del}` the emptiness test `{test_txt}` / removal `{parent_del}` is not on every path: an empty bookkeeping group is left behind (or a non-empty one removed)")
