"""C06 — Container TOC and attached metadata stay in exact one-to-one sync.

Decided (pairing / ownership conditions without which the invariant cannot hold):
R1 register/unregister pairing incl. threading of the `_unlink` switch; R2 node operations carry their metadata;
R3 the reserved namespace is written by the bookkeeping code only; R4 no empty bookkeeping groups (paired cleanup);
R5 incrementally maintained index == index rebuilt on open (loader/writer agreement); R6 key-kind agreement of _objs.
Not decided: the global invariant over all reachable container states (runtime).
"""
from __future__ import annotations

import ast

from mdsa.astutil import call_attr, call_recv, kwarg, local_calls, norm, store_targets
from mdsa.cfg import walk_local
from mdsa.loader import AnalysisError

from mdsa import match as M

from . import c07
from .common import Ctx, local_defs, node_of
from .sem import F
from .tocmodel import I, r_links_register, r_loader_agreement, r_schema_register
from .wrapmodel import W, factory_call_info, is_raw_expr

EXPLANATION = (
    "R1 MUST: after the raw store in MetadorMeta._set_raw every normal exit registered the object in the TOC; _del_raw unregisters "
    "unless _unlink is False, and every call of _del_raw/_destroy/_destroy_meta inside a function that itself takes `_unlink` threads "
    "that parameter through (the literal False originates only in copy(..., without_meta=True)); TOCLinks.register/unregister pair "
    "link write / link delete / uuid index / schema (un)registration. R2 ORDER: __delitem__ destroys metadata before the raw delete "
    "and recursively for groups; move relinks (update=True) and moves a dataset's parallel metadata group; copy re-registers copied "
    "metadata under fresh uuids or destroys it without unlinking. R3 OWN: raw writes whose path derives from a METADOR_* constant or a "
    "metadata base dir occur only in container/interface.py and in move/copy of wrappers.py. R4: each delete of a bookkeeping child is "
    "followed by the emptiness test and removal of the parent group. R5/R6: see C20.R2 and C07.R1."
)
NOT_DECIDED = "the one-to-one invariant as a property of all reachable container states, on both drivers (runtime)"


def run(P, rep, tier):
    rep.explanation = EXPLANATION
    rep.not_decided = NOT_DECIDED
    rep.assumptions = ["raw h5 objects behave as the H5*Like protocols describe", "moving a node into its own subtree is excluded by the property"]
    ctx = Ctx(P)
    rep.attempt(r1_pairing, P, rep, ctx)
    rep.attempt(r_links_register, P, rep, ctx, "C06.R1")
    rep.attempt(r_schema_register, P, rep, ctx, "C06.R1")
    rep.attempt(r2_node_ops, P, rep, ctx)
    rep.attempt(r3_namespace_owner, P, rep, ctx, tier)
    rep.attempt(r4_cleanup, P, rep, ctx)
    rep.attempt(r8_replace_not_rewrite, P, rep, ctx)
    rep.attempt(r_loader_agreement, P, rep, ctx, "C06.R5")
    rep.attempt(_r6, P, rep, ctx)
    # the per-node table of attached objects (and the metadata directory path) is rebuilt from the container on every
    # access: a cached view deletes the whole metadata directory / writes to a moved node's old location
    rep.attempt(c07.r5_fresh_view, P, rep, ctx, "C06.R7")
    rep.attempt(r9_separator_in_last_segment, P, rep, ctx)
    rep.attempt(r10_unregister_callers, P, rep, ctx)
    from .common import r_path_prefix_tests

    rep.attempt(r_path_prefix_tests, P, rep, ctx, "C06.R11", {"container.interface", "container.wrappers"})
    # unlinking relies on the driver's delete: on IH5 a deleted object must stay deleted across patch boundaries
    from . import c01

    rep.attempt(c01.r2_delete_marker, P, rep, ctx)
    # moving a node moves its metadata group with it (MetadorGroup.move moves both through the driver): the IH5 move must be
    # the overlay copy + overlay delete over ALL containers -- a raw relink inside the newest container carries over only what
    # that container holds, the metadata objects stored in older patches are dropped while their TOC links remain
    rep.attempt(c01.r6_move_copy, P, rep, ctx)
    # at most one object per schema and node (attach discipline of C07.R2): a second object's link outlives its deletion
    rep.attempt(c07.r2_set_discipline, P, rep, ctx)
    rep.floor("C06.R1", 18)
    rep.floor("C06.R2", 10)
    rep.floor("C06.R3", 10)
    rep.floor("C06.R4", 5)
    rep.floor("C06.R5", 12)
    # refinement against the pinned tree for every function the rules above looked at (rules/pinned.py)
    import os as _os

    if not _os.environ.get("MDSA_PINNED_GEN"):
        from .pinned import refine

        refine(P, rep, ctx, "C06")


UNREGISTER_CALLERS = {
    f"{I}.MetadorMeta._del_raw": "deleting an attached object removes its link (and, when it was the last one, its schema / package records)",
    f"{I}.TOCLinks.find_broken": "repair: links whose target is gone are removed",
}


def r10_unregister_callers(P, rep, ctx, rule="C06.R10"):
    """TOCLinks.unregister is the step that also garbage-collects the schema / parent-chain / package records of a schema
    whose last object goes away.  It is for objects that cease to exist; a link that is re-targeted or re-created for a
    living object must not go through it (the records would be dropped while the object is still stored)."""
    n = 0
    for fn in P.functions.values():
        if fn.module.name not in (I, W):
            continue
        for c in local_calls(fn.node):
            if not (isinstance(c.func, ast.Attribute) and c.func.attr == "unregister"):
                continue
            recv = norm(c.func.value)
            if not (recv == "self" and fn.cls is not None and fn.cls.name == "TOCLinks" or recv.endswith("_links")):
                continue
            n += 1
            top = fn
            while getattr(top, "parent", None) is not None:
                top = top.parent
            rep.check(top.qual in UNREGISTER_CALLERS, rule, fn.qual, f"unregister is called for an object that goes away ({top.name})", fn.loc(c), construct=f"{top.name}: {norm(c)[:60]}",
                      message=f"{fn.qual} un-registers a link (`{norm(c)[:60]}`); only {sorted(q.rsplit('.', 1)[1] for q in UNREGISTER_CALLERS)} may: un-registering also removes the embedded schema, parent chain and package record when this was the schema's only object — for an object that still exists (moved / re-linked) the container stops describing it")
    rep.check(n >= 2, rule, "container", "un-registration sites found", P.module(I).relpath, construct="unregister call sites", message=f"only {n} unregister call sites found (expected the delete and the repair site)")


def r9_separator_in_last_segment(P, rep, ctx):
    """`<ep-name>=<uuid>` is the name of a metadata object, i.e. the LAST segment of its path.  User node names may contain
    '=' themselves, so the separator is only ever looked for / cut at inside the last segment, and paths of objects are
    built from (directory, ep-name, uuid), never by cutting a full path at '='."""
    n = 0
    CUTS = ("split", "rsplit", "partition", "rpartition", "index", "rindex", "find", "rfind")
    for fi in P.functions.values():
        if fi.module.name not in ("container.interface", "container.wrappers", "container.utils"):
            continue
        f = None
        for c in local_calls(fi.node):
            if not (isinstance(c.func, ast.Attribute) and c.func.attr in CUTS and c.args and isinstance(c.args[0], ast.Constant) and c.args[0].value == "="):
                continue
            f = f or F(ctx, fi)
            g = f.g
            site = node_of(g, c)
            recv = f.x_at(site, c.func.value) if site is not None else norm(c.func.value)
            n += 1
            last = any(t in recv for t in (".split('/')[-1]", ".split('/').pop()", ".rsplit('/', 1)[-1]", ".rsplit('/', 1)[1]", ".rpartition('/')[2]", ".rpartition('/')[-1]")) or recv.endswith(".pop()") and ".split('/')" in norm(ast.Module(body=[fi.node], type_ignores=[]))
            full = recv.endswith(".name") or recv.endswith("_path") or recv.endswith(".to_path()")
            if last:
                rep.ok("C06.R9", fi.qual, f"'=' is looked for inside the last path segment ({recv[:50]})", fi.loc(c))
            elif full:
                rep.fail("C06.R9", fi.qual, f"{norm(c)[:90]}", f"`{norm(c)[:90]}` cuts a full node path at the first '=': a user group whose name contains '=' (e.g. `T=300K`) is cut instead of the object name, so metadata objects / TOC links are addressed at a wrong path", fi.loc(c))
            else:
                rep.info(f"C06.R9: `{norm(c)[:70]}` in {fi.qual}: receiver neither a last segment nor a full path (no verdict)")
    rep.check(n >= 1, "C06.R9", "container", "the '=' separator of object names is parsed somewhere", P.module("container.interface").relpath, construct="'=' parse sites", message="no site parses `<ep-name>=<uuid>` any more: rule has nothing to check")


def _r6(P, rep, ctx):
    n0 = len(rep.obligations)
    c07.r1_key_kinds(P, rep, ctx)
    for o in rep.obligations[n0:]:
        o["rule"] = "C06.R6"
    for f in rep.findings:
        if f.rule == "C07.R1":
            f.rule = "C06.R6"
    rep.rule_counts["C06.R6"] = rep.rule_counts.get("C06.R6", 0) + rep.rule_counts.pop("C07.R1", 0)


LINKS = "self._mc.metador._links"
RAWG = ("self.__wrapped__", "self._self_raw", "self._raw")


def _loop_always(f: "F", loop_idx: int, nodes, edges=()) -> bool:
    """every iteration of the loop (from its body entry back to the loop head) passes one of nodes / takes one of edges"""
    return f.hit_before(loop_idx, nodes=nodes, edges=edges, src_edge=(loop_idx, "iter"))


def r_unlink_threading(P, rep, ctx, rule):
    """the `_unlink` switch (keep TOC links while destroying *copied* metadata) is threaded through every recursion
    and originates as False only in copy(..., without_meta=True)"""
    # threading of the _unlink switch
    targets = {"_del_raw", "_destroy", "_destroy_meta"}
    n_thread = 0
    literal_false = []
    for fn in P.functions.values():
        if fn.module.name not in (I, W):
            continue
        has_param = "_unlink" in fn.params
        for c in local_calls(fn.node):
            if call_attr(c) not in targets:
                continue
            kw = kwarg(c, "_unlink")
            if has_param:
                n_thread += 1
                rep.check(kw is not None and norm(kw) == "_unlink", rule, fn.qual, f"{call_attr(c)} is called with the caller's _unlink switch", fn.loc(c), construct=norm(c),
                          message=f"{fn.qual} takes `_unlink` but calls {norm(c)} without passing it on: a data-only group copy (without_meta=True) then unregisters the TOC links of the *original* nested objects")
            elif kw is not None and norm(kw) != "True":
                literal_false.append((fn, c))
    if n_thread < 3:
        raise AnalysisError(f"C06.R1: only {n_thread} threaded _unlink calls found")
    for fn, c in literal_false:
        ok = fn.qual == f"{W}.MetadorGroup.copy"
        if ok:
            ff = F(ctx, fn)
            site = node_of(ff.g, c)
            wm = ff.tests("without_meta", "kwargs.pop('without_meta', False)")
            ok = site is not None and bool(wm) and ff.hit_before(site, edges=wm)
        rep.check(ok, rule, fn.qual, "metadata is destroyed without unlinking only for copy(..., without_meta=True)", fn.loc(c), construct=norm(c), message=f"{norm(c)} in {fn.qual}: links are kept although objects are deleted outside the copy-without-metadata case")
    rep.check(len(literal_false) == 1, rule, f"{W}.MetadorGroup.copy", "exactly one origin of _unlink=False", "", construct="origins of _unlink=False", message=f"{len(literal_false)} call sites pass a non-True _unlink")


def r1_pairing(P, rep, ctx):
    MM = f"{I}.MetadorMeta"
    fi = P.func(f"{MM}._set_raw")
    f = F(ctx, fi)
    g = f.g
    sref, obj = fi.params[1], fi.params[2]
    st = [(i, v, b) for i, v, b in f.stores("self._mc.__wrapped__[__p]") if f.x(v) == f"bytes({obj})"]
    store = [i for i, v, b in st]
    regs = f.call_sites(f"{LINKS}.register(__o)")
    reg = [i for i, c, b in regs]
    ok = bool(store) and bool(reg) and all(f.hit_before(g.exit, nodes=reg, src=s_) for s_ in store) and f.all_hit_before(reg, nodes=store)
    rep.check(ok, "C06.R1", fi.qual, "every stored object is registered in the TOC before _set_raw returns", fi.loc(), construct="register after store", message="_set_raw can return without registering the stored object in the TOC (object without link)")
    spath = {f.x(b["__p"]) for i, v, b in st}
    for i, c, b in regs:
        m = M.match("StoredMetadata(uuid=__u, schema=__s, node=__n)", f.xe(b["__o"]))
        okr = m is not None and f.x(m["__u"]) == f"{LINKS}.fresh_uuid()" and f.x(m["__s"]) == sref and len(spath) == 1 and f.x(m["__n"]) == f"self._mc.__wrapped__[{next(iter(spath))}]"
        rep.check(okr, "C06.R1", fi.qual, "the registered record carries the object's uuid, schema and node", fi.loc(c), construct="registered object", message=f"_set_raw registers {f.x(b['__o'])[:120]}")
    # evaluations of fresh_uuid() (the call as written, its receiver possibly a local alias of the links object)
    fu_calls = [c for n_ in g.nodes for c in g.calls(n_.idx) if call_attr(c) == "fresh_uuid" and not c.args and f.x_at(n_.idx, c.func.value) == LINKS]
    rep.check(len(fu_calls) == 1 and len(spath) == 1 and f"{LINKS}.fresh_uuid()" in next(iter(spath)), "C06.R1", fi.qual, "a fresh (unused) uuid is reserved for the object", fi.loc(), construct="fresh uuid", message="_set_raw does not reserve a fresh uuid from the TOC")
    fu = F(ctx, P.func(f"{I}.TOCLinks.fresh_uuid"))
    rets = [(i, v) for i, v in fu.returns() if v is not None]
    okf = bool(rets) and all(isinstance(v, ast.Name) for i, v in rets)
    if okf:
        rv = rets[0][1].id
        reserve = [i for i, v, b in fu.stores(f"self._toc_path[{rv}]")]
        probes = [x for x in walk_local(fu.fi.node) if isinstance(x, ast.Compare) and M.polarity(x)[0] is not None and M.match(f"{rv} in self._toc_path", M.polarity(x)[0]) is not None]
        loops = [n.idx for n in fu.g.nodes if n.kind == "loop"]
        gens = [i for i, v, b in fu.stores(rv)] + [n.idx for n in fu.g.nodes if n.kind == "stmt" and isinstance(n.stmt, (ast.Assign, ast.AnnAssign)) and any(isinstance(t, ast.Name) and t.id == rv for t in (n.stmt.targets if isinstance(n.stmt, ast.Assign) else [n.stmt.target])) and getattr(n.stmt, "value", None) is not None]
        okf = bool(reserve) and bool(probes) and bool(loops) and bool(gens) and all(fu.hit_before(i, nodes=reserve) for i, v in rets)
    rep.check(okf, "C06.R1", fu.fi.qual, "fresh_uuid retries until unused and reserves the uuid", fu.fi.loc(), construct="fresh_uuid", message="fresh_uuid does not guarantee an unused, reserved uuid")
    idx = [i for i, v, b in f.stores("self._objs[__k]") if f.x(b["__k"]) == f"{sref}.name" and M.match("StoredMetadata(___)", f.xe(v)) is not None]
    rep.check(bool(idx) and f.hit_before(g.exit, nodes=idx), "C06.R1", fi.qual, "the node's in-memory object table records the stored object", fi.loc(), construct="_objs update in _set_raw", message="_set_raw does not record the object in _objs: a second object of the same schema is then accepted on this view")
    fi = P.func(f"{MM}._del_raw")
    f = F(ctx, fi)
    g = f.g
    sn = fi.params[1]
    unlink = f.tests("_unlink")
    unr = [i for i, c, b in f.call_sites(f"{LINKS}.unregister(__u)") if f.x(b["__u"]) == f"self._objs[{sn}].uuid"]
    ok = bool(unlink) and bool(unr) and f.hit_before(g.exit, nodes=unr, edges=f.neg(unlink))
    rep.check(ok, "C06.R1", fi.qual, "deleting an object unregisters its link unless _unlink is False", fi.loc(), construct="unregister in _del_raw", message="_del_raw can delete a metadata object without unregistering its TOC link (dangling link)")
    d1 = [i for i in f.deletes("self._objs[__k]") ] + f.calls("self._objs.pop(___)")
    d2 = [i for i in f.deletes("self._mc.__wrapped__[__n]") if True]
    d2x = [n for n in d2 if any(f.x(t.slice) == f"self._objs[{sn}].node.name" for t in g.nodes[n].stmt.targets if isinstance(t, ast.Subscript))]
    rep.check(bool(d1) and bool(d2x) and f.hit_before(g.exit, nodes=d1) and f.hit_before(g.exit, nodes=d2x), "C06.R1", fi.qual, "the object is removed from the index and from the container", fi.loc(), construct="object removal", message="_del_raw does not remove the object node and its index entry")
    sig = fi.node.args
    dfl = {a.arg: norm(d) for a, d in zip(sig.kwonlyargs, sig.kw_defaults) if d is not None}
    rep.check(dfl.get("_unlink") == "True", "C06.R1", fi.qual, "_unlink defaults to True", fi.loc(), construct="_unlink default", message=f"_del_raw's _unlink defaults to {dfl.get('_unlink')}")
    r_unlink_threading(P, rep, ctx, "C06.R1")
    # unregister
    fi = P.func(f"{I}.TOCLinks.unregister")
    f = F(ctx, fi)
    g = f.g
    u = fi.params[1]
    TOC = f"self._toc_path[{u}]"
    SG = f"self._raw[{TOC}].parent"
    dl = f.deletes(f"self._raw[{TOC}]")
    di = f.deletes(TOC) + f.calls(f"self._toc_path.pop({u}, ___)")
    rep.check(bool(dl) and bool(di) and f.hit_before(g.exit, nodes=dl) and f.hit_before(g.exit, nodes=di), "C06.R1", fi.qual, "unregister deletes the link node and frees the uuid on every path", fi.loc(), construct="link delete", message="unregister does not delete the link node and the uuid index entry on every path")
    schs = f.call_sites("self._toc_schemas._unregister(__r)")
    sch = [i for i, c, b in schs]
    nonempty = f.tests(f"len({SG})", f"len({SG}.keys())", f"{SG}.keys()")
    ok = bool(sch) and bool(nonempty) and f.all_hit_before(sch, edges=f.neg(nonempty)) and f.all_hit_before(sch, nodes=dl) and all(f.hit_before(g.exit, nodes=sch, src_edge=e) for e in f.neg(nonempty)) and f.hit_before(g.exit, nodes=f.test_nodes(nonempty))
    rep.check(ok, "C06.R1", fi.qual, "when the last link of a schema is removed the schema record is unregistered (and only then)", fi.loc(), construct="schema unregistration", message="unregister does not notify the schema manager exactly when the schema's link group became empty")
    rep.check(bool(schs) and all(f.x(b["__r"]) == f"_schema_ref_for({SG}.name.split('/')[-1])" for i, c, b in schs), "C06.R1", fi.qual, "the unregistered schema is the one named by the link group", fi.loc(), construct="schema ref of group", message="unregister derives the schema reference differently from the link group name")
    sfi = P.func(f"{I}.TOCSchemas._unregister")
    su = F(ctx, sfi)
    g = su.g
    sr = sfi.params[1]
    lp = [n for n in g.nodes if n.kind == "for" and su.x(n.stmt.iter) in (f"set(self._pkgs._providers[{sr}])", f"list(self._pkgs._providers[{sr}])", f"tuple(self._pkgs._providers[{sr}])", f"self._pkgs._providers[{sr}].copy()") and isinstance(n.stmt.target, ast.Name)]
    ok = len(lp) == 1
    if ok:
        L = lp[0].idx
        pk = lp[0].stmt.target.id
        U = f"self._used[{pk}]"
        rmv = su.calls(f"{U}.remove({sr})", f"{U}.discard({sr})")
        used = su.tests(f"{sr} in {U}")
        empty = su.tests(f"not len({U})", f"not {U}")
        pu = su.calls(f"self._pkgs._unregister({pk})")
        ok = (bool(rmv) and bool(empty) and bool(pu)
              and _loop_always(su, L, rmv, su.neg(used))  # decremented on every iteration (unless not in the set)
              and _loop_always(su, L, su.test_nodes(empty))  # emptiness looked at on every iteration
              and all(su.hit_before(t, nodes=rmv, edges=su.neg(used), src_edge=(L, "iter")) for t in su.test_nodes(empty))  # after the decrement
              and su.all_hit_before(pu, edges=empty)  # dropped only when empty
              and all(su.hit_before(L, nodes=pu, src_edge=e) for e in empty))  # and then always
    rep.check(ok, "C06.R1", sfi.qual, "for every providing package the schema is removed from its use set and the package record is dropped exactly when that set becomes empty", sfi.loc(), construct="package use counting in _unregister",
              message="TOCSchemas._unregister does not decrement the package's used-schema set / drop the package record exactly when no used schema is left")
    rep.check(len(lp) == 1, "C06.R1", sfi.qual, "the providers are iterated over a snapshot (the table is modified while packages are dropped)", sfi.loc(), construct="providers snapshot", message="the provider set is iterated while TOCPackages._unregister modifies it (no snapshot)")
    pfi = P.func(f"{I}.TOCPackages._unregister")
    pun = F(ctx, pfi)
    pk = pfi.params[1]
    l2 = [n for n in pun.g.nodes if n.kind == "for" and pun.x(n.stmt.iter) == f"self._pkginfos.pop({pk}).plugins[schemas.name]" and isinstance(n.stmt.target, ast.Name)]
    ok = len(l2) == 1
    if ok:
        sv = l2[0].stmt.target.id
        pr = pun.calls(f"self._providers[{sv}].remove({pk})", f"self._providers[{sv}].discard({pk})")
        drop = pun.deletes(f"self._raw[self._pkginfo_path_for(*{pk})]")
        ok = bool(pr) and bool(drop) and _loop_always(pun, l2[0].idx, pr) and pun.hit_before(pun.g.exit, nodes=drop) and pun.hit_before(pun.g.exit, nodes=[l2[0].idx])
    rep.check(ok, "C06.R1", pfi.qual, "dropping a package removes its record, its info and itself from every provider set", pfi.loc(), construct="TOCPackages._unregister", message="TOCPackages._unregister leaves the package in a provider set / keeps its record")
    a = su.deletes(f"self._raw[self._schema_path_for({sr})]")
    b_ = su.calls(f"self._schemas.remove({sr})", f"self._schemas.discard({sr})")
    c_ = su.calls(f"self._update_parents_children({sr}, None)")
    ok = all((a, b_, c_)) and all(su.hit_before(su.g.exit, nodes=x) for x in (a, b_, c_)) and len(lp) == 1 and su.hit_before(su.g.exit, nodes=[lp[0].idx])
    rep.check(ok, "C06.R1", sfi.qual, "schema record, tables and unused provider packages are removed together", sfi.loc(), construct="TOCSchemas._unregister", message="TOCSchemas._unregister does not remove the schema group, its table entries and packages no longer used")


def _raw_calls(f: "F", method: str, *args) -> list:
    a = ", ".join(args)
    return f.calls(*[f"{r}.{method}({a})" for r in RAWG])


def r2_node_ops(P, rep, ctx):
    G = f"{W}.MetadorGroup"
    fi = P.func(f"{G}.__delitem__")
    f = F(ctx, fi)
    g = f.g
    nm = fi.params[1]
    dms = f.call_sites("__n._destroy_meta()") + f.call_sites("__n._destroy_meta(_unlink=True)")
    dm = [i for i, c, b in dms]
    raw = [n.idx for n in g.nodes if any(isinstance(c.func, ast.Call) and (factory_call_info(P, None, c.func) or ("", ""))[0] == "__delitem__" for c in g.calls(n.idx)) or (n.kind == "stmt" and isinstance(n.stmt, ast.Delete) and any(is_raw_expr(t.value) for t in n.stmt.targets if isinstance(t, ast.Subscript)))
           or any(isinstance(c.func, ast.Attribute) and c.func.attr == "__delitem__" and is_raw_expr(c.func.value) for c in g.calls(n.idx))]
    ok = bool(dm) and bool(raw) and f.all_hit_before(raw, nodes=dm) and f.hit_before(g.exit, nodes=raw)
    rep.check(ok, "C06.R2", fi.qual, "metadata of the node (and below) is destroyed before the node itself is deleted", fi.loc(), construct="_destroy_meta before raw delete", message="MetadorGroup.__delitem__ deletes the node without first destroying/unlinking its metadata (dangling TOC links)")
    rep.check(bool(dms) and all(f.x(b["__n"]) == f"self[{nm}]" for i, c, b in dms), "C06.R2", fi.qual, "the destroyed metadata is that of the deleted node", fi.loc(), construct="destroyed node", message="__delitem__ does not destroy the metadata of self[name]")
    fi = P.func(f"{G}._destroy_meta")
    f = F(ctx, fi)
    own = f.calls("super()._destroy_meta(_unlink=_unlink)")
    loops = [n for n in f.g.nodes if n.kind == "for" and f.x(n.stmt.iter) in ("self.values()", "list(self.values())") and isinstance(n.stmt.target, ast.Name)]
    if not loops and any(n.kind == "loop" for n in f.g.nodes) and f.calls("__n._destroy_meta(___)"):
        # an explicit work list / stack instead of the recursion: whether it reaches every descendant needs an inductive
        # argument this rule does not make -- undecided, not a finding
        raise AnalysisError("C06.R2: MetadorGroup._destroy_meta traverses with a while loop (explicit stack / work list); coverage of all descendants is not decidable by this rule")
    ok = bool(own) and len(loops) == 1 and f.hit_before(f.g.exit, nodes=own) and f.hit_before(f.g.exit, nodes=[loops[0].idx])
    if ok:
        ch = loops[0].stmt.target.id
        ok = _loop_always(f, loops[0].idx, f.calls(f"{ch}._destroy_meta(___)"))
    rep.check(ok, "C06.R2", fi.qual, "group metadata destruction covers the node and recurses over all children", fi.loc(), construct="recursive destroy", message="MetadorGroup._destroy_meta does not destroy its own metadata and recurse over all children")
    dn = F(ctx, P.func(f"{W}.MetadorNode._destroy_meta"))
    c_ = dn.calls("self.meta._destroy(_unlink=_unlink)")
    rep.check(bool(c_) and dn.hit_before(dn.g.exit, nodes=c_), "C06.R2", dn.fi.qual, "node metadata destruction deletes every attached object", dn.fi.loc(), construct="node destroy", message="MetadorNode._destroy_meta does not call meta._destroy")
    ds = F(ctx, P.func(f"{I}.MetadorMeta._destroy"))
    def _key_snapshot(it):
        # a copy (list / tuple / sorted / set of ..) of the keys of the table of attached objects, however that is spelled
        e = ds.xe(it)
        return isinstance(e, ast.Call) and isinstance(e.func, ast.Name) and e.func.id in ("list", "tuple", "sorted", "set", "frozenset") and len(e.args) == 1 and not e.keywords and norm(M.canon_collections(e.args[0])) in ("self", "self._objs")

    loops = [n for n in ds.g.nodes if n.kind == "for" and _key_snapshot(n.stmt.iter) and isinstance(n.stmt.target, ast.Name)]
    ok = len(loops) == 1 and ds.hit_before(ds.g.exit, nodes=[loops[0].idx]) and _loop_always(ds, loops[0].idx, ds.calls(f"self._del_raw({loops[0].stmt.target.id}, _unlink=_unlink)"))
    rep.check(ok, "C06.R2", ds.fi.qual, "_destroy deletes every attached object (iterating a snapshot of the keys)", ds.fi.loc(), construct="_destroy", message="_destroy does not delete all attached objects over a snapshot of keys")
    # move
    fi = P.func(f"{G}.move")
    f = F(ctx, fi)
    g = f.g
    sp, dp = fi.params[1], fi.params[2]
    raw_move = _raw_calls(f, "move", sp, dp)
    reps = f.call_sites("__l.repair_missing(__m, ___)") + f.call_sites("__l.repair_missing(__m)")
    rep_calls = sorted({i for i, c, b in reps})
    SRCM = f"self[{sp}].meta._base_dir"
    DSTM = f"self[{dp}].meta._base_dir"
    is_ds = f.tests(f"isinstance(self[{dp}], MetadorDataset)")
    # the node below which links are repaired: the dataset's metadata dir, or the moved group itself
    fm = f.call_sites("__l.find_missing(__b)")
    # "no metadata there": only a test on the very node handed to find_missing (or on its key in the raw container) counts
    have_meta = []
    for n_, c, b in fm:
        A = f.x_at(n_, b["__b"])
        mk = M.match(f"{RAWG[0]}.get(__k)", M.pat(A)) or M.match(f"{RAWG[0]}[__k]", M.pat(A))
        alts = [A, f"{A} is not None"] + ([f"{norm(mk['__k'])} in {RAWG[0]}"] if mk is not None else [])
        for t in g.nodes:
            if t.kind == "test" and f.x_at(t.idx, t.exprs[0]) in alts:
                have_meta.append((t.idx, "T"))
    ok = bool(raw_move) and bool(rep_calls) and bool(fm) and f.all_hit_before(rep_calls, nodes=raw_move) and f.all_hit_before(rep_calls, nodes=[i for i, c, b in fm]) and bool(have_meta) and f.hit_before(g.exit, nodes=rep_calls, edges=f.neg(have_meta))
    rep.check(ok, "C06.R2", fi.qual, "after the raw move the TOC links of all carried metadata are repaired whenever metadata exists", fi.loc(), construct="relink after move", message="MetadorGroup.move can return without repairing the TOC links of moved metadata")
    upd = [c for i, c, b in reps]
    rep.check(bool(upd) and all(norm(kwarg(c, "update") or ast.Constant(value=None)) == "True" for c in upd), "C06.R2", fi.qual, "move keeps uuids (update=True)", fi.loc(), construct="repair_missing(update=True)", message="move repairs links without update=True: objects get new uuids / duplicate links")
    mm = _raw_calls(f, "move", SRCM, DSTM)
    has_src_meta = f.tests(*[f"{SRCM} in {r}" for r in RAWG])
    ok = bool(mm) and bool(is_ds) and bool(has_src_meta) and f.all_hit_before(mm, edges=is_ds) and f.all_hit_before(mm, edges=has_src_meta) and all(f.hit_before(g.exit, nodes=mm, edges=f.neg(is_ds), src_edge=e) for e in has_src_meta)
    rep.check(ok, "C06.R2", fi.qual, "a moved dataset's parallel metadata group is moved along when it exists", fi.loc(), construct="dataset metadata move", message="move does not relocate the parallel metadata group of a dataset")
    srcm_nodes = [n.idx for n in g.nodes if n.kind == "stmt" and isinstance(n.stmt, (ast.Assign, ast.AnnAssign)) and n.stmt.value is not None and norm(n.stmt.value) == SRCM]
    rep.check(bool(srcm_nodes) and f.all_hit_before(raw_move, nodes=srcm_nodes), "C06.R2", fi.qual, "the source's metadata dir is determined before the node is moved", fi.loc(), construct="src_metadir before move", message="move computes the source metadata dir after the raw move")
    # copy
    fi = P.func(f"{G}.copy")
    f = F(ctx, fi)
    g = f.g
    src_ds = f.tests("isinstance(__s, MetadorDataset)")
    wm = f.tests("without_meta", "kwargs.pop('without_meta', False)")
    reps_c = f.call_sites("__l.repair_missing(__m, ___)") + f.call_sites("__l.repair_missing(__m)")
    reps = sorted({i for i, c, b in reps_c})
    cpm = [i for i, c, b in f.call_sites(f"{RAWG[0]}.copy(__a, __b, ___)") if f.x(b["__a"]).endswith(".meta._base_dir") and f.x(b["__b"]).endswith(".meta._base_dir")]
    ok = bool(src_ds) and bool(wm) and bool(cpm) and f.all_hit_before(cpm, edges=src_ds) and f.all_hit_before(cpm, edges=f.neg(wm)) and all(any(r in g.reach([c_]) for r in reps) for c_ in cpm)
    # dataset & metadata wanted  =>  the metadata group is copied and re-registered before returning
    ok = ok and f.hit_before(g.exit, nodes=cpm, edges=f.neg(src_ds) + wm)
    rep.check(ok, "C06.R2", fi.qual, "copying a dataset with metadata copies its parallel metadata group and registers it", fi.loc(), construct="dataset metadata copy", message="copy of a dataset does not copy + register its metadata group")
    dest = f.calls("__n._destroy_meta(_unlink=False)")
    grp_reps = [r for r in reps if not f.hit_before(r, edges=src_ds)]  # reachable for group sources
    ok = bool(src_ds) and bool(wm) and bool(dest) and bool(grp_reps)
    # group source: without_meta -> destroyed (no unlink); otherwise -> re-registered
    ok = ok and f.all_hit_before(dest, edges=wm) and f.all_hit_before(dest, edges=f.neg(src_ds)) and f.hit_before(g.exit, nodes=dest, edges=src_ds + f.neg(wm)) and f.hit_before(g.exit, nodes=reps, edges=src_ds + wm)
    rep.check(ok, "C06.R2", fi.qual, "copying a group either registers the copied metadata (fresh uuids) or destroys it without unlinking", fi.loc(), construct="group metadata after copy", message="copy of a group leaves copied metadata objects unregistered (or registered twice)")
    # argument validation precedes the raw copy: a call that is refused must not have copied anything (the copied metadata
    # objects would carry the uuids of the originals without TOC links)
    raw_eff = [i for i, c, b in f.call_sites(f"{RAWG[0]}.copy(___)")] + [i for i, c, b in f.call_sites(f"{RAWG[0]}.move(___)")]
    late = [n.idx for n in g.nodes if n.kind == "stmt" and isinstance(n.stmt, ast.Raise) and not hasattr(n.stmt, "_mdsa_assert") and any(n.idx in g.reach([e_]) for e_ in raw_eff)]
    rep.check(bool(raw_eff) and not late, "C06.R2", fi.qual, "every refusal of copy (unknown keyword, wrong source / destination kind) happens before the raw copy", fi.loc(g.nodes[late[0]].stmt) if late else fi.loc(), construct="refusals before the raw copy",
              message=f"MetadorGroup.copy can raise ({norm(g.nodes[late[0]].stmt)[:70] if late else ''}) after the raw copy was made: the refused call leaves copied nodes whose metadata objects duplicate uuids and have no TOC link")
    rp = [c for c in local_calls(fi.node) if call_attr(c) == "repair_missing"]
    rep.check(all(kwarg(c, "update") is None or norm(kwarg(c, "update")) == "False" for c in rp) and len(rp) >= 1, "C06.R2", fi.qual, "copied objects get fresh uuids (no update=True)", fi.loc(), construct="repair after copy", message="copy re-links copied objects with update=True: two objects share one uuid")
    rmfi = P.func(f"{I}.TOCLinks.repair_missing")
    rm = F(ctx, rmfi)
    g = rm.g
    loops = [n for n in g.nodes if n.kind == "for" and rm.x(n.stmt.iter) == rmfi.params[1] and isinstance(n.stmt.target, ast.Name)]
    okseq = ok2 = False
    if len(loops) == 1:
        L = loops[0].idx
        nd = loops[0].stmt.target.id
        objs = [(i, v) for i, v, b in rm.stores("__o") if M.match(f"StoredMetadata.from_node({nd})", v) is not None]
        ov = None
        for n in g.nodes:
            if n.kind == "stmt" and isinstance(n.stmt, (ast.Assign, ast.AnnAssign)) and n.stmt.value is not None and M.match(f"StoredMetadata.from_node({nd})", n.stmt.value) is not None:
                t = n.stmt.targets[0] if isinstance(n.stmt, ast.Assign) else n.stmt.target
                if isinstance(t, ast.Name):
                    ov = t.id
        if ov is not None:
            s1 = [i for i, v, b in rm.stores(f"{ov}.uuid") if rm.x(v) == "self.fresh_uuid()"]
            s3 = rm.call_sites(f"self._raw.move({nd}.name, __p)")
            s3 = [(i, c, b) for i, c, b in s3 if rm.x(b["__p"]) == f"{ov}.to_path()"]
            s2 = [n.idx for n in g.nodes if n.kind == "stmt" and any(M.match(f"{ov}.to_path()", x) is not None for x in walk_local(n.stmt))]
            s4 = [i for i, v, b in rm.stores(f"{ov}.node") if any(rm.x(v) == t_ for t_ in (f"cast(H5DatasetLike, self._raw[{ov}.to_path()])", f"self._raw[{ov}.to_path()]"))]
            s5 = rm.calls(f"self.register({ov})")
            m3 = [i for i, c, b in s3]
            okseq = all((s1, s2, m3, s4, s5)) and rm.all_hit_before(s2, nodes=s1, src=L) and rm.all_hit_before(m3, nodes=s2, src=L) and rm.all_hit_before(s4, nodes=m3, src=L) and rm.all_hit_before(s5, nodes=s4, src=L)
            up = rm.tests(rmfi.params[2])
            known = rm.tests(f"{ov}.uuid in self._toc_path")
            upd = rm.calls(f"self.update({ov}.uuid, {nd}.name)")
            ok2 = (bool(up) and bool(known) and bool(upd) and rm.all_hit_before(upd, edges=up, src=L) and rm.all_hit_before(upd, edges=known, src=L)
                   and rm.all_hit_before(s5, edges=rm.neg(up) + rm.neg(known), src=L)
                   and _loop_always(rm, L, upd + s5)
                   and _loop_always(rm, L, upd, rm.neg(up) + rm.neg(known)) and _loop_always(rm, L, s5, up) and _loop_always(rm, L, s5, known))
    rep.check(okseq, "C06.R2", rmfi.qual, "re-uuid: fresh uuid < new object path < rename < node handle updated < registered", rmfi.loc(), construct="repair_missing else-branch order", message="repair_missing does not (reserve uuid, rename the object node, refresh obj.node, register) in this order: the new link would point at the old / a missing object path")
    rep.check(ok2, "C06.R2", rmfi.qual, "every missing object is either re-linked (update) or re-registered under a fresh uuid", rmfi.loc(), construct="repair_missing per-object handling", message="repair_missing can skip an object or handle it on the wrong branch")
    fmf0 = P.func(f"{I}.TOCLinks.find_missing")
    cmfi = fmf0.nested.get("collect_missing")
    if cmfi is None:
        raise AnalysisError("find_missing.collect_missing not found")
    cm = F(ctx, cmfi)
    nd = cmfi.params[1]
    internal = cm.tests(f"M.is_internal_path({nd}.name, M.METADOR_META_PREF)")
    is_base = cm.tests(f"M.is_meta_base_path({nd}.name)")
    OBJ = f"StoredMetadata.from_node({nd})"
    known = cm.tests(f"{OBJ}.uuid in self._toc_path")
    same = cm.tests(f"self.resolve({OBJ}.uuid) == {nd}.name", f"{nd}.name == self.resolve({OBJ}.uuid)")
    app = cm.calls(f"__m.append({nd})")
    ok = all((internal, is_base, known, same, app))
    if ok:
        # reported: only metadata object nodes (internal, not a base dir) ...
        ok = cm.all_hit_before(app, edges=internal) and cm.all_hit_before(app, edges=cm.neg(is_base))
        # ... whose uuid is unknown or resolves elsewhere; and every such node is reported
        ok = ok and cm.all_hit_before(app, edges=cm.neg(known) + cm.neg(same))
        ok = ok and cm.hit_before(cm.g.exit, nodes=app, edges=cm.neg(internal) + is_base + same) and cm.hit_before(cm.g.exit, nodes=app, edges=cm.neg(internal) + is_base + known)
    rep.check(ok, "C06.R2", cmfi.qual, "exactly the metadata object nodes whose uuid is unknown or collides are reported as missing", cmfi.loc(), construct="collect_missing filter", message="find_missing's collector does not report exactly the metadata objects with unknown / colliding uuid")
    from .common import require_total

    for fq in (f"{I}.TOCLinks.find_missing", f"{I}.TOCLinks.fresh_uuid", f"{I}.TOCLinks.resolve", f"{I}.StoredMetadata.to_path", f"{I}.StoredMetadata.from_node"):
        require_total(rep, ctx, "C06.R2", P.func(fq))
    rep.check(okseq and ok2, "C06.R2", rmfi.qual, "repair: update existing link target, or rename to a fresh uuid and register", rmfi.loc(), construct="repair_missing", message="repair_missing does not (update link) / (assign fresh uuid, rename node, register)")
    fmf = F(ctx, fmf0)
    vis = fmf.call_sites("__g.visititems(collect_missing)")
    rets = [v for _, v in fmf.returns() if v is not None]
    acc = {norm(b["__m"]) for i, c, b in cm.call_sites(f"__m.append({nd})")}
    ok = bool(vis) and all(fmf.x(b["__g"]) in (f"self._raw.require_group({fmf0.params[1]}.name)", f"self._raw[{fmf0.params[1]}.name]", fmf0.params[1]) for i, c, b in vis) and len(rets) == 1 and {norm(rets[0])} == acc and fmf.hit_before(fmf.g.exit, nodes=[i for i, c, b in vis])
    rep.check(ok, "C06.R2", fmf0.qual, "find_missing reports unknown uuids and uuid collisions below the given group", fmf0.loc(), construct="find_missing", message="find_missing does not report objects with unknown or colliding uuids")


BOOK_CONSTS = ("METADOR_TOC_PATH", "METADOR_VERSION_PATH", "METADOR_UUID_PATH", "METADOR_PACKAGES_PATH", "METADOR_SCHEMAS_PATH", "METADOR_LINKS_PATH", "METADOR_META_PREF", "METADOR_PREF")
PATH_HELPERS = ("_link_path_for", "_schema_path_for", "_jsonschema_path_for", "_pkginfo_path_for", "to_meta_base_path", "to_path")


def _bookkeeping_path(fi, e) -> bool:
    from .common import slice_roots

    for kind, x, via in slice_roots(fi, e):
        if x is None:
            continue
        t = norm(x)
        if any(c in t for c in BOOK_CONSTS) or any(h + "(" in t for h in PATH_HELPERS) or "_base_dir" in t or "toc_path" in t or "_toc_path[" in t:
            return True
    return False


def r3_namespace_owner(P, rep, ctx, tier):
    allowed_wrappers = {f"{W}.MetadorGroup.move", f"{W}.MetadorGroup.copy"}
    n = 0
    for fi in P.functions.values():
        if not isinstance(fi.node, (ast.FunctionDef, ast.AsyncFunctionDef)):
            continue
        if tier != "thorough" and fi.module.name.split(".")[0] not in ("container", "packer", "harvester", "widget", "cli"):
            continue
        for st in walk_local(fi.node):
            writes = []
            if isinstance(st, (ast.Assign, ast.Delete)):
                for k, t in store_targets(st):
                    if isinstance(t, ast.Subscript):
                        writes.append((t.slice, st))
            if isinstance(st, ast.Call) and call_attr(st) in ("create_group", "create_dataset", "require_group", "require_dataset", "move", "copy") and st.args:
                for a in st.args[:2]:
                    writes.append((a, st))
            for pe, node in writes:
                if not _bookkeeping_path(fi, pe):
                    continue
                n += 1
                owner = fi
                while owner.parent is not None:
                    owner = owner.parent
                ok = owner.module.name == I or owner.qual in allowed_wrappers
                rep.check(ok, "C06.R3", owner.qual, f"bookkeeping path written by the bookkeeping code: {norm(node)[:70]}", fi.loc(node), construct=norm(node)[:110],
                          message=f"{owner.qual} writes into the reserved metador_* namespace ({norm(node)[:90]}); only container/interface.py and move/copy of the wrappers may")
    if n < 10:
        raise AnalysisError(f"C06.R3: only {n} bookkeeping writes found")


def r8_replace_not_rewrite(P, rep, ctx):
    """Stored bookkeeping datasets are replaced (delete + create), never rewritten in place: on the IH5 driver a dataset
    that lives in an earlier patch cannot be written (`node[()] = v` raises there, after the data was already moved)."""
    n = 0
    for fi in P.functions.values():
        if fi.module.name not in (I, W) or not isinstance(fi.node, (ast.FunctionDef, ast.AsyncFunctionDef)):
            continue
        n += 1
        bad = []
        for st in walk_local(fi.node):
            if isinstance(st, (ast.Assign, ast.AugAssign)):
                for kind, t in store_targets(st):
                    if isinstance(t, ast.Subscript) and (norm(t.slice) in ("()", "...", "Ellipsis") or isinstance(t.slice, ast.Slice)) and not (isinstance(t.value, ast.Name) and t.value.id in ("ret", "out", "res", "buf")):
                        bad.append(st)
            if isinstance(st, ast.Call) and call_attr(st) in ("write_direct", "resize"):
                bad.append(st)
        for b_ in bad:
            rep.fail("C06.R8", fi.qual, f"in-place dataset write: {norm(b_)[:80]}", f"{fi.qual} rewrites a stored dataset in place ({norm(b_)[:80]}): works on h5py, raises on IH5 for nodes of an earlier patch (e.g. a move across a patch boundary fails half-way and leaves the TOC links pointing at the old paths)", fi.loc(b_))
    rep.ok("C06.R8", I, f"{n} bookkeeping / wrapper functions scanned for in-place dataset writes", P.module(I).relpath)
    if n < 50:
        raise AnalysisError(f"C06.R8: only {n} functions scanned")


def r4b_providers(P, rep, ctx, rule="C06.R4"):
    """TOCPackages keeps `_providers` exact: when a package record is dropped, the package leaves the provider set of each
    of its schemas and a schema without provider leaves the table; membership is answered from the stored records."""
    fi = P.func(f"{I}.TOCPackages._unregister")
    f = F(ctx, fi)
    g = f.g
    pk = fi.params[1]
    loops = [n for n in g.nodes if n.kind == "for" and isinstance(n.stmt.target, ast.Name)]
    ok = False
    for n in loops:
        sr = n.stmt.target.id
        rm = f.calls(f"self._providers[{sr}].remove({pk})", f"self._providers[{sr}].discard({pk})")
        empty = f.tests(f"not self._providers[{sr}]", f"len(self._providers[{sr}]) == 0")
        dl = f.deletes(f"self._providers[{sr}]") + [i for i, c_, b_ in f.call_sites(f"self._providers.pop({sr}, ___)")]
        if rm and empty and dl:
            ok = (f.hit_before(n.idx, nodes=rm, src_edge=(n.idx, "iter")) and f.all_hit_before(dl, edges=empty, src=n.idx) and all(f.hit_before(n.idx, nodes=dl, src_edge=e) for e in empty)
                  and all(f.hit_before(t, nodes=rm, src=n.idx) for t in f.test_nodes(empty)) and f.hit_before(g.exit, nodes=[n.idx]))
    rep.check(ok, rule, fi.qual, "a dropped package leaves every provider set; provider-less schemas leave the table", fi.loc(), construct="providers on package removal",
              message="TOCPackages._unregister does not remove the package from the provider set of each of its schemas / does not drop exactly the schemas left without provider: the provider reported for a stored schema is a package that is no longer recorded (or a KeyError on the next registration)")
    cf = F(ctx, P.func(f"{I}.TOCPackages.__contains__"))
    cp = cf.fi.params[1]
    rets = [cf.x(v) for _, v in cf.returns() if v is not None]
    rep.check(rets == [f"{cp} in self._pkginfos"], rule, cf.fi.qual, "package membership is answered from the stored package records", cf.fi.loc(), construct="TOCPackages.__contains__", message=f"TOCPackages.__contains__ returns {rets}")


def r4_cleanup(P, rep, ctx):
    r4b_providers(P, rep, ctx)
    U = "self._toc_path[uuid]"
    SG = f"self._raw[{U}].parent"
    pairs = [
        # function, child delete target, patterns on which the parent IS EMPTY, parent delete target
        (f"{I}.TOCLinks.unregister", f"self._raw[{U}]", [f"not len({SG})", f"not len({SG}.keys())", f"not {SG}.keys()"], f"self._raw[{SG}.name]"),
        (f"{I}.TOCLinks.unregister", f"self._raw[{SG}.name]", [f"not len({SG}.parent.keys())", f"not len({SG}.parent)", f"not {SG}.parent.keys()"], f"self._raw[{SG}.parent.name]"),
        (f"{I}.TOCSchemas._unregister", "self._raw[self._schema_path_for(schema_ref)]", ["not self._raw.require_group(M.METADOR_SCHEMAS_PATH).keys()", "not len(self._raw.require_group(M.METADOR_SCHEMAS_PATH).keys())", "not len(self._raw.require_group(M.METADOR_SCHEMAS_PATH))"], "self._raw[M.METADOR_SCHEMAS_PATH]"),
        (f"{I}.TOCPackages._unregister", "self._raw[self._pkginfo_path_for(*pkg)]", ["not self._raw.require_group(M.METADOR_PACKAGES_PATH).keys()", "not len(self._raw.require_group(M.METADOR_PACKAGES_PATH).keys())", "not len(self._raw.require_group(M.METADOR_PACKAGES_PATH))"], "self._raw[M.METADOR_PACKAGES_PATH]"),
        (f"{I}.MetadorMeta._del_raw", "self._mc.__wrapped__[self._objs[schema_name].node.name]", ["not self._objs", "not len(self._objs)"], "self._mc.__wrapped__[self._base_dir]"),
    ]
    for q, child_del, empty_pats, parent_del in pairs:
        fi = P.func(q)
        f = F(ctx, fi)
        g = f.g
        cd = f.deletes(child_del)
        empty = f.tests(*empty_pats)
        pd = f.deletes(parent_del)
        ok = (bool(cd) and bool(empty) and bool(pd)
              and all(f.hit_before(g.exit, nodes=f.test_nodes(empty), src=c) for c in cd)  # looked at after the child delete
              and f.all_hit_before(pd, edges=empty)  # parent removed only when empty
              and all(f.hit_before(g.exit, nodes=pd, src_edge=e) for e in empty)  # and then always
              and all(f.hit_before(t, nodes=cd) for t in f.test_nodes(empty)))
        if q.endswith("MetadorMeta._del_raw"):
            # the emptiness is read off the in-memory table: the entry must have left the table before it is consulted
            forgot = f.deletes("self._objs[__k]") + [i for i, c_, b_ in f.call_sites("self._objs.pop(___)")]
            ok = ok and bool(forgot) and all(f.hit_before(t, nodes=forgot) for t in f.test_nodes(empty))
        rep.check(ok, "C06.R4", fi.qual, f"after `del {child_del[:50]}` the parent is tested for emptiness and removed when empty", fi.loc(), construct=f"cleanup after del {child_del}",
                  message=f"{q}: after `del {child_del}` the emptiness test / removal `del {parent_del}` is not on every path: an empty bookkeeping group is left behind (or a non-empty one removed)")
