"""C08 — Reserved metador_* namespace is invisible and untouchable for users.

Decided: (R1) every member of the H5GroupLike/H5FileLike protocols is defined by the wrapper classes, none is left to
wrapt.ObjectProxy's own forwarding, and __getattr__ has no pass-through; (R2) user-supplied path strings reach the raw
container only after _guard_path, and before the first raw mutation of the method; (R3) every listing/visit primitive
is derived from items()/visititems(), whose bodies drop internal paths; (R4) the guard predicate recognises every path
the bookkeeping code can produce.  Not decided: equality of the user-visible tree with a plain tree.
"""
from __future__ import annotations

import ast
import importlib.util
from pathlib import Path
from typing import Dict, List, Optional, Set

from mdsa.astutil import call_attr, call_recv, kwarg, local_calls, norm, store_targets
from mdsa.cfg import CFG, walk_local
from mdsa import match as MM
from mdsa.loader import AnalysisError, NoFold

from .sem import F, Not
from .common import Ctx, local_defs, node_of, slice_roots
from .wrapmodel import NODE_CLASSES, W, factory_call_info, factory_uses, getattr_raw_call, guard_aware_cfg, is_raw_expr

U = "container.utils"
EXPLANATION = (
    "R1: members of the H5*Like protocols (parsed from util/types.py) must resolve, through the MRO and the _wrap_method "
    "factory expansion, to definitions in the wrapper classes; special methods that wrapt.ObjectProxy forwards on its own "
    "(table parsed from the installed wrapt/wrappers.py source) may not be left to the proxy; MetadorGroup.__getattr__ "
    "must raise on every path. R2 (taint): in every path-taking wrapper method, each path-like parameter and each string "
    "popped from **kwargs that flows into a call on the raw object is sanitised by _guard_path on every path before the "
    "raw call and before the first raw mutation. R3: listing primitives touch the raw object only in items()/visititems(), "
    "whose yields/callback calls are dominated by the is_internal_path filter. R4: constant folding shows the guard "
    "predicate covers the relative and the '/'-prefixed form with the same prefix and that every bookkeeping path starts "
    "a segment with that prefix."
)
NOT_DECIDED = "the user-visible tree equals the result of the same operations on a plain tree (runtime equality)"

PATH_PARAMS = {"name", "path", "source", "dest", "key"}
LISTING = ["__iter__", "__len__", "keys", "values", "items", "visit", "visititems", "__contains__"]
RAW_MUTATING = {"create_group", "create_dataset", "require_group", "require_dataset", "move", "copy", "__setitem__", "__delitem__"}


def run(P, rep, tier):
    rep.explanation = EXPLANATION
    rep.not_decided = NOT_DECIDED
    rep.assumptions = [
        "wrapt.ObjectProxy forwards exactly the special methods defined in wrapt/wrappers.py and sends other attributes through __getattr__",
        "str-typed path arguments are the only way to address a node by name (h5py/IH5 object arguments are already-wrapped nodes)",
    ]
    ctx = Ctx(P)
    rep.attempt(r1_protocol, P, rep, ctx)
    rep.attempt(r2_taint, P, rep, ctx)
    rep.attempt(r3_listings, P, rep, ctx)
    rep.attempt(r4_predicates, P, rep, ctx)
    rep.attempt(r6_membership, P, rep, ctx)
    # the bookkeeping never disturbs user data: destroying the metadata of a *copy* made without metadata must not unlink the originals' objects (a later user operation on the original would fail)
    from . import c06

    rep.attempt(c06.r_unlink_threading, P, rep, ctx, "C08.R5")
    # an emptied metadata directory that is left behind occupies a reserved sibling name: a later user copy / move onto that
    # name fails half-way (cleanup rule of C06.R4)
    rep.attempt(c06.r4_cleanup, P, rep, ctx)
    # a cached per-node metadata view keeps the metadata directory path of a node that was moved: the next attach re-creates a
    # user-visible group at the old path (fresh-view rule of C07.R5)
    from . import c07

    rep.attempt(c07.r5_fresh_view, P, rep, ctx, "C08.R7")
    from .common import r_path_prefix_tests

    rep.attempt(r_path_prefix_tests, P, rep, ctx, "C06.R11", {"container.interface", "container.wrappers"})
    # a failed user operation leaves user nodes alone (node operation rules of C06.R2: nothing is destroyed on the error path)
    rep.attempt(c06.r2_node_ops, P, rep, ctx)
    rep.floor("C08.R1", 25, "protocol members")
    rep.floor("C08.R2", 12, "tainted flows")
    rep.floor("C08.R3", 8)
    # refinement against the pinned tree for every function the rules above looked at (rules/pinned.py)
    import os as _os

    if not _os.environ.get("MDSA_PINNED_GEN"):
        from .pinned import refine

        refine(P, rep, ctx, "C08")


# ------------------------------------------------------------------------------------------- R1
def protocol_members(P, proto: str) -> Dict[str, ast.AST]:
    out: Dict[str, ast.AST] = {}
    for q in reversed(P.mro(f"util.types.{proto}")):
        c = P.classes.get(q)
        if c is None:
            continue
        for name, fi in c.methods.items():
            out[name] = fi.node
    if not out:
        raise AnalysisError(f"protocol {proto} has no members")
    return out


def wrapt_forwarded() -> Set[str]:
    spec = importlib.util.find_spec("wrapt")
    if spec is None or not spec.submodule_search_locations:
        raise AnalysisError("wrapt sources not found (needed for the ObjectProxy forwarding table)")
    out: Set[str] = set()
    found = False
    for loc in spec.submodule_search_locations:
        for fn in ("wrappers.py", "__wrapt__.py", "proxies.py"):
            f = Path(loc) / fn
            if not f.exists():
                continue
            tree = ast.parse(f.read_text())
            for c in ast.walk(tree):
                if isinstance(c, ast.ClassDef) and c.name in ("ObjectProxy", "BaseObjectProxy"):
                    found = True
                    for st in c.body:
                        if isinstance(st, ast.FunctionDef):
                            out.add(st.name)
    if not found or "__getitem__" not in out:
        raise AnalysisError("could not derive the ObjectProxy forwarding table from the wrapt sources")
    return out


def r1_protocol(P, rep, ctx):
    fwd = wrapt_forwarded()
    rep.info(f"wrapt.ObjectProxy defines {len(fwd)} methods itself (forwarding table parsed from source)")
    fac = {(u.cls_qual, u.name): u for u in factory_uses(P) if u.name != "<inline>"}
    for cq, proto in ((f"{W}.MetadorGroup", "H5GroupLike"), (f"{W}.MetadorContainer", "H5FileLike"), (f"{W}.MetadorDataset", "H5DatasetLike")):
        c = P.cls(cq)
        supported = set()
        if proto == "H5FileLike":
            try:
                supported = set(P.fold(c.attrs["_self_SUPPORTED"], c.module))
            except (KeyError, NoFold):
                raise AnalysisError("_self_SUPPORTED not constant")
        for m in protocol_members(P, proto):
            hit = P.lookup_method(cq, m)
            defined = hit is not None and hit[0].startswith(W)
            if not defined and m in supported and m in ("mode", "close", "flush"):
                rep.ok("C08.R1", cq, f"{proto}.{m}: path-free, passed through via _self_SUPPORTED", c.module.relpath)
                continue
            if not defined and proto == "H5DatasetLike" and m == "ndim":
                rep.ok("C08.R1", cq, f"{proto}.{m}: data attribute of a dataset, no path involved", c.module.relpath)
                continue
            how = "left to wrapt.ObjectProxy, which forwards it to the raw object unfiltered" if m in fwd else "not defined by the wrapper"
            if not defined and m not in fwd and proto != "H5DatasetLike":
                # __getattr__ refuses it: no leak of reserved names, but listed for C09
                ga = P.lookup_method(cq, "__getattr__")
                rep.check(ga is not None, "C08.R1", cq, f"{proto}.{m} is refused by __getattr__ (not forwarded)", c.module.relpath, construct=f"{cq}.{m}",
                          message=f"protocol member {m} of {proto} is {how}")
                continue
            rep.check(defined, "C08.R1", cq, f"{proto}.{m} is defined by the wrapper classes ({hit[0] if hit else '-'})", c.module.relpath,
                      construct=f"{cq.rsplit('.', 1)[-1]}.{m}", message=f"protocol member {m} of {proto} is {how}")
    # container-like special methods that the object proxy forwards on its own must be overridden by the group wrapper,
    # whether or not the protocol lists them (they expose names / nodes of the raw group)
    CONTAINER_DUNDERS = ["__getitem__", "__setitem__", "__delitem__", "__iter__", "__len__", "__contains__", "__reversed__", "__getslice__", "__setslice__", "__delslice__"]
    gq = f"{W}.MetadorGroup"
    for m in CONTAINER_DUNDERS:
        if m not in fwd:
            continue
        hit = P.lookup_method(gq, m)
        defined = hit is not None and hit[0].startswith(W)
        if m.endswith("slice__"):
            rep.info(f"wrapt forwards {m} (Python 2 slicing protocol, never invoked by Python 3): not required")
            continue
        rep.check(defined, "C08.R1", gq, f"container special method {m} (forwarded by the object proxy) is overridden by the wrapper", P.cls(gq).module.relpath, construct=f"MetadorGroup.{m}",
                  message=f"MetadorGroup does not define {m}; wrapt.ObjectProxy forwards it to the raw group, so e.g. {('reversed(container)' if m == '__reversed__' else m)} exposes reserved metador_* entries")
    # no pass-through in MetadorGroup.__getattr__
    ga = P.func(f"{W}.MetadorGroup.__getattr__")
    g = ctx.cfg(ga)
    passes = [c for c in local_calls(ga.node) if getattr_raw_call(c) is not None]
    rep.check(not passes and g.exit not in g.reach([g.entry]), "C08.R1", ga.qual, "MetadorGroup.__getattr__ raises on every path (unsupported methods are refused)", ga.loc(),
              construct="MetadorGroup.__getattr__", message="MetadorGroup.__getattr__ can return an attribute of the raw group (unsupported h5py methods are passed through)")
    c = P.cls(f"{W}.MetadorContainer")
    sup = set(P.fold(c.attrs["_self_SUPPORTED"], c.module))
    rep.check(sup <= {"mode", "flush", "close"}, "C08.R1", c.qual, "_self_SUPPORTED contains no member that takes or yields a path", c.module.relpath, construct=f"_self_SUPPORTED={sorted(sup)}",
              message=f"MetadorContainer passes {sorted(sup - {'mode', 'flush', 'close'})} through to the raw file object")
    cga = P.func(f"{W}.MetadorContainer.__getattr__")
    g = guard_aware_cfg(cga)
    passn = [n.idx for n in g.nodes if any(getattr_raw_call(x) is not None for x in g.calls(n.idx))]
    tests = [t.idx for t in g.nodes if t.kind == "test" and norm(t.exprs[0]) == "key in self._self_SUPPORTED"]
    ok = bool(tests) and all(g.every_path_passes(tests, p) and all(p not in g.reach([b for b, lab in g.succ[t] if lab == "F"]) for t in tests) for p in passn)
    rep.check(ok, "C08.R1", cga.qual, "container pass-through only for names in _self_SUPPORTED", cga.loc(), construct="MetadorContainer.__getattr__", message="MetadorContainer.__getattr__ passes names outside _self_SUPPORTED through")


# ------------------------------------------------------------------------------------------- R2
def _raw_call_nodes(g: CFG):
    """(node idx, call, is_mutating) for calls on the raw object, incl. getattr(raw, m)(...)."""
    out = []
    for n in g.nodes:
        for c in g.calls(n.idx):
            if isinstance(c.func, ast.Attribute) and is_raw_expr(c.func.value):
                out.append((n.idx, c, c.func.attr in RAW_MUTATING))
            elif isinstance(c.func, ast.Call) and getattr_raw_call(c) is not None:
                out.append((n.idx, c, True))
        if n.kind == "stmt":
            for kind, t in store_targets(n.stmt):
                if isinstance(t, ast.Subscript) and is_raw_expr(t.value):
                    out.append((n.idx, t, True))
            for x in walk_local(n.stmt):
                if isinstance(x, ast.Subscript) and isinstance(x.ctx, ast.Load) and is_raw_expr(x.value) and norm(x.value).endswith("__wrapped__"):
                    out.append((n.idx, x, False))
        elif n.kind == "test":
            for x in walk_local(n.exprs[0]):
                if isinstance(x, ast.Compare) and any(isinstance(op, (ast.In, ast.NotIn)) for op in x.ops) and any(is_raw_expr(cmp) for cmp in x.comparators):
                    out.append((n.idx, x, False))
    return out


def _tainted_vars(fi) -> Dict[str, str]:
    """variable -> origin for user-controlled strings: path-like parameters and kwargs.pop("name"...) results."""
    out = {}
    for p in fi.params:
        if p in PATH_PARAMS:
            out[p] = f"parameter {p}"
    for st in walk_local(fi.node):
        if isinstance(st, (ast.Assign, ast.AnnAssign)) and st.value is not None and isinstance(st.value, ast.Call) and call_attr(st.value) == "pop" and norm(call_recv(st.value)) == "kwargs":
            key = st.value.args[0].value if st.value.args and isinstance(st.value.args[0], ast.Constant) else None
            if key in ("name", "dest", "source", "path"):
                tgts = st.targets if isinstance(st, ast.Assign) else [st.target]
                for t in tgts:
                    if isinstance(t, ast.Name):
                        out[t.id] = f"kwargs.pop({key!r})"
    return out


def _is_wrapper_primitive(e) -> bool:
    """self[...] / self.get(..) / self.<method>(..): the wrapper's own guarded primitives — their results are clean
    nodes and they guard their own arguments."""
    if isinstance(e, ast.Subscript) and norm(e.value) == "self":
        return True
    if isinstance(e, ast.Call) and isinstance(e.func, ast.Attribute) and norm(e.func.value) == "self":
        return True
    return False


def _mentions(expr, names: Set[str]) -> Set[str]:
    """names mentioned in expr outside wrapper-primitive boundaries"""
    out = set()
    todo = [expr]
    while todo:
        x = todo.pop()
        if x is None or _is_wrapper_primitive(x):
            continue
        if isinstance(x, ast.Name) and x.id in names:
            out.add(x.id)
        for ch in ast.iter_child_nodes(x):
            if not isinstance(ch, (ast.FunctionDef, ast.Lambda)):
                todo.append(ch)
    return out


def _carriers(fi, g: CFG, v: str):
    """variables derived from v (transitively, not through wrapper primitives) and, per variable, the
    assignment nodes that make it carry v: {var: [cfg node idx]}"""
    car: Dict[str, List[int]] = {}
    changed = True
    while changed:
        changed = False
        for n in g.nodes:
            if n.kind != "stmt" or not isinstance(n.stmt, (ast.Assign, ast.AnnAssign)) or n.stmt.value is None:
                continue
            if not _mentions(n.stmt.value, {v} | set(car)):
                continue
            tgts = n.stmt.targets if isinstance(n.stmt, ast.Assign) else [n.stmt.target]
            for t in tgts:
                if isinstance(t, ast.Name) and t.id != v and n.idx not in car.get(t.id, []):
                    car.setdefault(t.id, []).append(n.idx)
                    changed = True
    return car


def _guards_for(g: CFG, var_names: Set[str]) -> List[int]:
    out = []
    for n in g.nodes:
        # idiom: `for p in (a, b): self._guard_path(p)` guards a and b (loop over a non-empty literal, no break)
        if n.kind == "for" and isinstance(n.stmt.iter, (ast.Tuple, ast.List)) and n.stmt.iter.elts and isinstance(n.stmt.target, ast.Name):
            names = {e.id for e in n.stmt.iter.elts if isinstance(e, ast.Name)}
            body_guard = any(isinstance(b, ast.Expr) and isinstance(b.value, ast.Call) and call_attr(b.value) == "_guard_path" and b.value.args and norm(b.value.args[0]) == n.stmt.target.id for b in n.stmt.body)
            has_break = any(isinstance(x, (ast.Break, ast.Return)) for b in n.stmt.body for x in ast.walk(b))
            if body_guard and not has_break and names & var_names and not n.stmt.orelse:
                out.append(n.idx)
        for c in g.calls(n.idx):
            if call_attr(c) == "_guard_path" and c.args and (set(x.id for x in ast.walk(c.args[0]) if isinstance(x, ast.Name)) & var_names):
                out.append(n.idx)
    return out


def _sanitised_direct(g: CFG, site: int, var: str, src: Optional[int] = None) -> bool:
    guards = _guards_for(g, {var})
    if g.every_path_passes(guards, site, src=src):
        return True
    # path-sensitive form: only str values are paths — `if isinstance(v, str): guard`; other kinds are wrapped nodes
    tests = [t.idx for t in g.nodes if t.kind == "test" and norm(t.exprs[0]) == f"isinstance({var}, str)"]
    if not tests or src is not None:
        return False
    if not g.every_path_passes(guards + tests, site):
        return False
    return all(g.every_path_passes(guards, site, src=t, src_label="T") for t in tests)


def _flow_unsanitised(fi, g: CFG, site: int, arg, v: str, only_if_reaches: Optional[int] = None) -> Optional[str]:
    """None if every flow of tainted variable v into `arg` is sanitised before `site`; else a description.
    (site is normally the sink itself; for the no-effect-on-rejection rule it is an earlier raw mutation)"""
    car = _carriers(fi, g, v)
    used = _mentions(arg, {v} | set(car))
    for x in sorted(used):
        if x == v:
            if not _sanitised_direct(g, site, v):
                return f"{v} used directly"
            continue
        chain_vars = {v, x} | set(car)
        guards = _guards_for(g, chain_vars)

        def flow_ok(a: int, seen: frozenset) -> Optional[str]:
            """the tainted value stored at assignment node a is sanitised before `site` (None) or a description of the
            unsanitised link.  A link is sanitised when a guard of a chain variable lies on every path a -> site, or when
            everything the assigned value was derived from was sanitised before."""
            if g.every_path_passes(guards, site, src=a):
                return None
            val = g.nodes[a].stmt.value
            for m in sorted(_mentions(val, {v} | set(car))):
                if m == v:
                    if not _sanitised_direct(g, a, v):
                        return f"L{g.nodes[a].lineno}: {g.nodes[a].text()[:60]}"
                    continue
                for a2 in car[m]:
                    if a2 == a or a2 in seen or a not in g.reach([a2]):
                        continue
                    r = flow_ok(a2, seen | {a})
                    if r is not None:
                        return r
            return None

        for a in car[x]:
            # flows entry -> a (x := f(v)) -> site
            if site not in g.reach([a]):
                continue
            r = flow_ok(a, frozenset())
            if r is not None:
                return f"{v} -> {x} ({r})"
    return None


def r2_taint(P, rep, ctx):
    # the factory body: name is guarded before the raw call
    fac = P.func(f"{W}._wrap_method")
    wm = fac.nested.get("wrapped_method")
    if wm is None:
        raise AnalysisError("_wrap_method.wrapped_method not found")
    methods = [wm]
    for cq in (f"{W}.MetadorGroup", f"{W}.MetadorContainer"):
        for name, fi in P.cls(cq).methods.items():
            if name in ("__init__", "__repr__", "__dir__", "__enter__", "__exit__", "_destroy_meta"):
                continue
            methods.append(fi)
    for fi in methods:
        g = ctx.cfg(fi)
        tainted = _tainted_vars(fi)
        if fi is wm:
            tainted = {"name": "first argument of every factory-made method"}
        raws = _raw_call_nodes(g)
        if not tainted or not raws:
            continue
        first_mut = [n for n, c, mut in raws if mut]
        for n, c, mut in raws:
            args = list(c.args) + [k.value for k in c.keywords] if isinstance(c, ast.Call) else ([c.slice] if isinstance(c, ast.Subscript) else list(c.comparators) + [c.left] if isinstance(c, ast.Compare) else [])
            for a in args:
                for v in sorted(tainted):
                    car = _carriers(fi, g, v)
                    if not _mentions(a, {v} | set(car)):
                        continue
                    bad = _flow_unsanitised(fi, g, n, a, v)
                    loc = fi.loc(c)
                    rep.check(bad is None, "C08.R2", fi.qual, f"{tainted[v]} is guarded by _guard_path before raw use `{norm(c)[:60]}`", loc,
                              construct=f"{v} -> {norm(c)[:100]}",
                              message=f"user-controlled path ({tainted[v]}) reaches the raw container without _guard_path ({bad}): {norm(c)[:100]}",
                              path=g.path_text(g.find_path(n, avoid=_guards_for(g, {v} | set(car)))))
                    # ... and before the first raw mutation on the way (a rejected call must have no effect)
                    for fm in first_mut:
                        if fm == n or n not in g.reach([fm]):
                            continue
                        late = _flow_unsanitised(fi, g, fm, a, v, only_if_reaches=n)
                        rep.check(late is None, "C08.R2", fi.qual, f"guard for {v} precedes the earlier raw mutation `{g.nodes[fm].text()[:50]}`", fi.loc(g.nodes[fm].stmt),
                                  construct=f"{v} guarded before {g.nodes[fm].text()[:90]}",
                                  message=f"a raw mutation happens before {tainted[v]} is checked by _guard_path ({late}): a rejected call leaves an effect")
    # inline factory invocations pass the user's name as the guarded first argument
    for u in factory_uses(P):
        if u.name == "<inline>":
            a = u.node.args
            ok = len(a) >= 2 and norm(a[0]) == "self" and isinstance(a[1], ast.Name) and a[1].id in PATH_PARAMS
            rep.check(ok, "C08.R2", u.where, f"inline factory call passes (self, <path param>) so the factory guards it: {norm(u.node)[:60]}", P.module(W).relpath + f":{u.node.lineno}",
                      construct=norm(u.node), message=f"inline _wrap_method call does not pass the user's path as the guarded first argument: {norm(u.node)}")
    # __contains__ guards its argument first
    fi = P.func(f"{W}.MetadorGroup.__contains__")
    g = ctx.cfg(fi)
    guards = _guards_for(g, {"name"})
    others = [n.idx for n in g.nodes if n.kind in ("stmt", "test") and n.idx not in guards]
    rep.check(bool(guards) and all(g.every_path_passes(guards, o) for o in others), "C08.R2", fi.qual, "__contains__ guards the name before anything else", fi.loc(),
              construct="__contains__ guard", message="MetadorGroup.__contains__ inspects the container before (or without) _guard_path(name)")
    # link-typed values would make a harmless name an alias of a reserved node: refused before the raw store
    si = P.func(f"{W}.MetadorGroup.__setitem__")
    m = P.module(W)
    rt = m.assigns.get("_H5_REF_TYPES")
    kinds = {norm(e) for e in rt.elts} if isinstance(rt, (ast.List, ast.Tuple)) else set()
    need = {"h5py.HardLink", "h5py.SoftLink", "h5py.ExternalLink"}
    rep.check(need <= kinds, "C08.R2", si.qual, "hard / soft / external link values are on the refusal list", m.relpath, construct=f"_H5_REF_TYPES={sorted(kinds)}",
              message=f"_H5_REF_TYPES lost {sorted(need - kinds)}: a link object stored under a harmless name aliases a reserved metador_* node and bypasses the path guard")
    g = ctx.cfg(si)
    tests = [t for t in g.nodes if t.kind == "test" and "_H5_REF_TYPES" in norm(t.exprs[0]) and "isinstance(value" in norm(t.exprs[0])]
    stores = [n.idx for n in g.nodes if any(isinstance(c.func, ast.Call) for c in g.calls(n.idx))] + [n for n, c, mut in _raw_call_nodes(g)]
    ok = bool(tests) and all(g.exit not in g.reach([b for b, l in g.succ[t.idx] if l == "T"]) for t in tests) and all(g.every_path_passes([t.idx for t in tests], s) for s in stores)
    rep.check(ok, "C08.R2", si.qual, "link-typed values are refused before anything is stored", si.loc(), construct="link refusal in __setitem__", message="MetadorGroup.__setitem__ stores link/reference values (or checks them after the store)")
    # the guard itself
    fi = P.func(f"{W}.MetadorNode._guard_path")
    g = ctx.cfg(fi)
    tests = [t for t in g.nodes if t.kind == "test" and norm(t.exprs[0]) == "M.is_internal_path(path)"]
    ok = bool(tests) and all(g.exit not in g.reach([b for b, lab in g.succ[t.idx] if lab == "T"]) for t in tests) and g.every_path_passes([t.idx for t in tests], g.exit)
    rep.check(ok, "C08.R2", fi.qual, "_guard_path raises for every internal path", fi.loc(), construct="_guard_path body", message="_guard_path does not raise on every path for which M.is_internal_path(path) holds")


def _reaches(g: CFG, a: int, b: int) -> bool:
    return b in g.reach([a])


# ------------------------------------------------------------------------------------------- R3
def _yield_filter(ctx, fi):
    """[(node, filtered?)] for every yield / value return of a function that lists raw entries: an entry is handed on only
    on paths where `M.is_internal_path(<entry>.name)` was found false"""
    g = ctx.cfg(fi)
    ys = [n.idx for n in g.nodes if any(isinstance(x, (ast.Yield, ast.YieldFrom)) for e in n.exprs if e is not None for x in walk_local(e))]
    rets = [n.idx for n in g.nodes if isinstance(n.stmt, ast.Return) and n.stmt.value is not None]
    pos = [t.idx for t in g.nodes if t.kind == "test" and norm(t.exprs[0]).startswith("M.is_internal_path(") and norm(t.exprs[0]).endswith(".name)")]
    out = []
    for y in ys + rets:
        ok = any(g.edge_dominates(t, "F", y) for t in pos)
        if rets and not ys:
            txt = norm(g.nodes[y].stmt)  # comprehension / filter() form
            ok = "is_internal_path" in txt and ("if not M.is_internal_path" in txt or "filter(" in txt)
        out.append((y, ok))
    return g, out, pos


def _filtered_generators(P, ctx, grp) -> Set[str]:
    """unknown private methods of the group that list the raw entries themselves and pass the same filter rule as items():
    further filtered primitives other listing methods may be derived from"""
    from mdsa.inline import load_known

    known = load_known() or set()
    out = set()
    for name, fi in grp.methods.items():
        if fi.qual in known or not name.startswith("_") or name.startswith("__"):
            continue
        raw_items = [c for c in local_calls(fi.node) if call_attr(c) in ("items", "keys", "values") and is_raw_expr(c.func.value)]
        if not raw_items:
            continue
        g, ys, pos = _yield_filter(ctx, fi)
        if ys and all(ok for y, ok in ys):
            out.add(name)
    return out


def r3_listings(P, rep, ctx):
    grp = P.cls(f"{W}.MetadorGroup")
    extra_filtered = _filtered_generators(P, ctx, grp)
    for m in LISTING:
        fi = grp.methods.get(m)
        if fi is None:
            continue  # reported by R1
        touches_raw = [x for f in [fi] + list(fi.nested.values()) for x in walk_local(f.node) if isinstance(x, (ast.Attribute, ast.Subscript)) and is_raw_expr(x) and not (isinstance(x, ast.Attribute) and x.attr == "__wrapped__" and False)]
        touches_raw = [x for x in touches_raw if norm(x) != "self.name"]
        if m in ("items", "visititems"):
            continue
        rep.check(not touches_raw, "C08.R3", fi.qual, f"{m} is derived from the filtered primitives (does not touch the raw group)", fi.loc(), construct=f"raw access in {m}",
                  message=f"MetadorGroup.{m} reads the raw group directly ({norm(touches_raw[0]) if touches_raw else ''}): reserved entries are not filtered")
        calls = {call_attr(c) for c in local_calls(fi.node) if norm(call_recv(c) or ast.Name(id='')) == "self"} | {"getitem" for x in walk_local(fi.node) if isinstance(x, ast.Subscript) and norm(x.value) == "self"}
        rep.check(bool(calls & ({"items", "keys", "visititems", "values", "get", "getitem"} | extra_filtered)), "C08.R3", fi.qual, f"{m} uses the wrapper's own filtered methods {sorted(calls)}", fi.loc(),
                  construct=f"derivation of {m}", message=f"MetadorGroup.{m} is not derived from items()/keys()/visititems()")
    # items(): every yield under `not is_internal_path(v.name)`
    fi = grp.methods.get("items")
    if fi is None:
        raise AnalysisError("MetadorGroup.items missing")
    g, yl, pos = _yield_filter(ctx, fi)
    if not yl:
        raise AnalysisError("MetadorGroup.items yields/returns nothing")
    # items() may take its entries from another filtered primitive of the class (then the filter is checked there)
    itf = F(ctx, fi)
    derived = [n for n in g.nodes if n.kind == "for" and any(MM.match(f"self.{nm_}()", n.stmt.iter) is not None for nm_ in extra_filtered)]
    raw_here = [x for x in walk_local(fi.node) if isinstance(x, (ast.Attribute, ast.Subscript)) and is_raw_expr(x) and norm(x) != "self.name"]
    for y, ok in yl:
        if not ok and derived and not raw_here:
            ok = all(itf.hit_before(y, nodes=[d.idx for d in derived]) for _ in [0])
        rep.check(ok, "C08.R3", fi.qual, "items() hands out an entry only if its absolute name is not internal", fi.loc(g.nodes[y].stmt), construct="filter before yield in items",
                  message="MetadorGroup.items yields entries without the is_internal_path filter: reserved nodes become visible", path=g.path_text(g.find_path(y, avoid=pos)))
    for nm_ in sorted(extra_filtered):
        rep.ok("C08.R3", grp.methods[nm_].qual, f"new private listing helper {nm_} filters internal names like items()", grp.methods[nm_].loc())
    # visititems(): callback only for non-internal nodes
    fi = grp.methods.get("visititems")
    if fi is None:
        raise AnalysisError("MetadorGroup.visititems missing")
    wf = None
    for c in local_calls(fi.node):
        if call_attr(c) == "visititems" and is_raw_expr(c.func.value) and c.args and isinstance(c.args[0], ast.Name):
            wf = fi.nested.get(c.args[0].id)
    if wf is None:
        raise AnalysisError("visititems: callback handed to the raw visititems not found")
    g = ctx.cfg(wf)
    cb = [n.idx for n in g.nodes if any(isinstance(c.func, ast.Name) and c.func.id == "func" for c in g.calls(n.idx))]
    pos = [t.idx for t in g.nodes if t.kind == "test" and norm(t.exprs[0]) == f"M.is_internal_path({wf.params[1]}.name)"]
    neg = [t.idx for t in g.nodes if t.kind == "test" and norm(t.exprs[0]) == f"not M.is_internal_path({wf.params[1]}.name)"]
    ok = bool(cb) and all(any(g.edge_dominates(t, "F", c) for t in pos) or any(g.edge_dominates(t, "T", c) for t in neg) for c in cb)
    rep.check(ok, "C08.R3", wf.qual, "visititems calls the user's callback only for non-internal nodes", wf.loc(), construct="filter before callback in visititems",
              message="MetadorGroup.visititems passes internal (metador_*) nodes to the user's callback")


# ------------------------------------------------------------------------------------------- R4
def _last_segment_on_path(stmts) -> Optional[ast.AST]:
    """The expression that forms the last '/'-separated segment of the returned path, following one path's statements:
    list variables are tracked by their last element, string variables by their value."""
    lasts: Dict[str, Optional[ast.AST]] = {}  # list variable -> expression of its last element (None: unknown)
    strs: Dict[str, ast.AST] = {}

    def list_last(e):
        if isinstance(e, ast.Name):
            return lasts.get(e.id)
        if isinstance(e, ast.BinOp) and isinstance(e.op, ast.Add):
            r = list_last(e.right)
            return r
        if isinstance(e, (ast.List, ast.Tuple)) and e.elts:
            x = e.elts[-1]
            return list_last(x.value) if isinstance(x, ast.Starred) else x
        return None

    def str_last(e):
        if isinstance(e, ast.Name) and e.id in strs:
            return str_last(strs[e.id])
        if isinstance(e, ast.Call) and call_attr(e) == "join" and isinstance(e.func.value, ast.Constant) and e.func.value.value == "/" and e.args:
            return list_last(e.args[0])
        if isinstance(e, ast.BinOp) and isinstance(e.op, ast.Add):
            # X + "/" + tail  |  "/" + tail : the tail is the last segment when a separator precedes it
            parts = []

            def flat(x):
                if isinstance(x, ast.BinOp) and isinstance(x.op, ast.Add):
                    flat(x.left)
                    flat(x.right)
                else:
                    parts.append(x)

            flat(e)
            for i in range(len(parts) - 1, -1, -1):
                if isinstance(parts[i], ast.Constant) and isinstance(parts[i].value, str) and parts[i].value.endswith("/"):
                    tail = parts[i + 1:]
                    if not tail:
                        return None
                    r = tail[0]
                    for x in tail[1:]:
                        r = ast.BinOp(left=r, op=ast.Add(), right=x)
                    return r
            return None
        if isinstance(e, ast.JoinedStr):
            vals = list(e.values)
            for i in range(len(vals) - 1, -1, -1):
                if isinstance(vals[i], ast.Constant) and isinstance(vals[i].value, str) and vals[i].value.endswith("/"):
                    tail = vals[i + 1:]
                    if not tail:
                        return None
                    if len(tail) == 1 and isinstance(tail[0], ast.FormattedValue):
                        return tail[0].value
                    return ast.JoinedStr(values=tail)
            return None
        return None

    for st in stmts:
        if isinstance(st, (ast.Assign, ast.AnnAssign)) and st.value is not None:
            tg = st.targets[0] if isinstance(st, ast.Assign) else st.target
            if isinstance(tg, ast.Name):
                ll = list_last(st.value)
                if ll is not None:
                    lasts[tg.id] = ll
                else:
                    lasts.pop(tg.id, None)
                    strs[tg.id] = st.value
            elif isinstance(tg, ast.Subscript) and isinstance(tg.value, ast.Name) and norm(tg.slice) == "-1":
                lasts[tg.value.id] = st.value
            elif isinstance(tg, ast.Subscript) and isinstance(tg.value, ast.Name):
                lasts.pop(tg.value.id, None) if norm(tg.slice) != "0" else None
        elif isinstance(st, ast.AugAssign) and isinstance(st.target, ast.Name):
            ll = list_last(st.value)
            if ll is not None:
                lasts[st.target.id] = ll
            else:
                lasts.pop(st.target.id, None)
        elif isinstance(st, ast.Expr) and isinstance(st.value, ast.Call) and isinstance(st.value.func, ast.Attribute) and isinstance(st.value.func.value, ast.Name):
            nm, at = st.value.func.value.id, st.value.func.attr
            if at == "append" and st.value.args:
                lasts[nm] = st.value.args[0]
            elif at == "extend" and st.value.args:
                ll = list_last(st.value.args[0])
                if ll is not None:
                    lasts[nm] = ll
                else:
                    lasts.pop(nm, None)
            elif at in ("pop", "insert", "remove", "clear", "reverse", "sort"):
                lasts.pop(nm, None)
        elif isinstance(st, ast.Return) and st.value is not None:
            return str_last(st.value)
    return None


def r6_membership(P, rep, ctx):
    """`name in group` answers from the *filtered* listing, segment by segment: an absolute name asked of a non-root group
    goes through the root wrapper; otherwise the first segment must be one of keys() (user-visible children only) and the
    rest is asked of the wrapped child obtained with get()."""
    fi = P.func(f"{W}.MetadorGroup.__contains__")
    f = F(ctx, fi)
    nm = fi.params[1]
    SEGS = f"{nm}.lstrip('/').split('/')"
    ABS, ROOT, ONE, NXT = f"{nm}[0] == '/'", "self.name == '/'", f"len({SEGS}) == 1", f"self.get({SEGS}[0])"

    def spec(d):
        if d.get(ABS) is True and d.get(ROOT) is False:
            return f"{nm} in self['/']"
        if (d.get(ABS) is False or d.get(ROOT) is True) or (ABS not in d and ROOT not in d):
            if d.get(ONE) is True:
                return f"{SEGS}[0] in self.keys()"
            if d.get(ONE) is False and d.get(NXT) is True:
                return f"'/'.join({SEGS}[1:]) in self.get({SEGS}[0])"
            if d.get(ONE) is False and d.get(NXT) is False:
                return "False"
            if d.get(ABS) is False or d.get(ROOT) is True:
                # a relative name / a name asked of the root is never delegated to the root wrapper (infinite regress for the
                # root, wrong group for a relative name), however the segment-wise part is spelled
                return Not(f"{nm} in self['/']")
        return None

    try:
        bad = f.decision_mismatches(spec)
    except ValueError as e:
        raise AnalysisError(f"C08.R6: __contains__: {e}")
    for lits, got, want in bad[:3]:
        when = " and ".join((k if tv else f"not ({k})") for k, tv in lits)
        rep.fail("C08.R6", fi.qual, f"membership when {when[:90]}", f"MetadorGroup.__contains__ answers `{got[:80]}` when {when[:160]} (expected `{want}`): membership is no longer decided through the filtered listing of each path segment — reserved names become testable / user nodes are reported wrongly", fi.loc())
    if f.undecided_paths:
        rep.info(f"C08.R6: {f.undecided_paths} path(s) of __contains__ test conditions the membership table does not know (no verdict for them)")
    if not bad:
        rep.ok("C08.R6", fi.qual, "membership is decided segment by segment through keys() / get() of the wrappers (absolute names via the root wrapper)", fi.loc())


def r4_predicates(P, rep, ctx):
    pref = P.const(U, "METADOR_PREF")
    meta = P.const(U, "METADOR_META_PREF")
    toc = P.const(U, "METADOR_TOC_PATH")
    m = P.module(U)
    rep.check(isinstance(pref, str) and len(pref) > 0, "C08.R4", U, "METADOR_PREF is a non-empty constant", m.relpath, construct="METADOR_PREF", message="METADOR_PREF is empty")
    rep.check(meta.startswith(pref), "C08.R4", U, "metadata-directory prefix starts with the reserved prefix", m.relpath, construct=f"METADOR_META_PREF={meta!r}",
              message=f"METADOR_META_PREF {meta!r} does not start with METADOR_PREF {pref!r}: metadata directories are not recognised as internal")
    rep.check(toc.startswith("/" + pref), "C08.R4", U, "TOC path segment starts with the reserved prefix", m.relpath, construct=f"METADOR_TOC_PATH={toc!r}",
              message=f"METADOR_TOC_PATH {toc!r} is not recognised by the internal-path predicate")
    for name in ("METADOR_VERSION_PATH", "METADOR_UUID_PATH", "METADOR_PACKAGES_PATH", "METADOR_SCHEMAS_PATH", "METADOR_LINKS_PATH"):
        v = P.const(U, name)
        rep.check(v.startswith(toc + "/"), "C08.R4", U, f"{name} lies below the TOC group", m.relpath, construct=f"{name}={v!r}", message=f"{name}={v!r} is outside {toc}")
    fi = P.func(f"{U}.is_internal_path")
    dflt = fi.node.args.defaults
    rep.check(len(dflt) == 1 and norm(dflt[0]) == "METADOR_PREF", "C08.R4", fi.qual, "is_internal_path defaults to METADOR_PREF", fi.loc(), construct="default prefix", message="is_internal_path does not default to METADOR_PREF")
    # the predicate as one condition (however it is split into returns): relative first segment OR any '/'-prefixed segment
    prm, prf = fi.params[0], fi.params[1]
    rf = F(ctx, fi).result_formula()
    ok = rf is not None and MM.equivalent(rf, MM.canon_strings(ast.parse(f"{prm}.startswith({prf}) or f'/{{{prf}}}' in {prm}", mode="eval").body))
    rep.check(ok, "C08.R4", fi.qual, "is_internal_path tests the relative first segment and every '/'-prefixed segment with the same prefix", fi.loc(), construct="is_internal_path body",
              message="is_internal_path does not test both `path.startswith(pref)` and the '/'+pref form: some reserved paths pass the guard")
    # bookkeeping paths are recognised through the predicates only: no ad-hoc substring / prefix tests on the constants
    n_use = 0
    for f in P.functions.values():
        if f.module.name not in ("container.interface", "container.wrappers"):
            continue
        for x in walk_local(f.node):
            bad = None
            if isinstance(x, ast.Compare) and any(isinstance(o, (ast.In, ast.NotIn)) for o in x.ops) and norm(x.left) in ("M.METADOR_PREF", "M.METADOR_META_PREF"):
                bad = x
            if isinstance(x, ast.Call) and call_attr(x) in ("startswith", "endswith", "find", "index", "count") and x.args and norm(x.args[0]) in ("M.METADOR_PREF", "M.METADOR_META_PREF"):
                bad = x
            if isinstance(x, ast.Call) and norm(x.func) in ("M.is_internal_path", "M.is_meta_base_path"):
                n_use += 1
            if bad is not None:
                rep.fail("C08.R4", f.qual, norm(bad)[:100], f"`{norm(bad)[:80]}` classifies a path with a substring/prefix test on the reserved prefix instead of the segment-aware predicates of container/utils.py: user names that merely contain the prefix are treated as bookkeeping", f.loc(bad))
    rep.check(n_use >= 5, "C08.R4", "container", f"bookkeeping paths are classified through is_internal_path / is_meta_base_path ({n_use} uses)", P.module("container.interface").relpath, construct="predicate uses", message="the container code no longer uses the path predicates")
    fm = P.func("container.interface.TOCLinks.find_missing")
    cm = fm.nested.get("collect_missing")
    okf = False
    if cm is not None:
        cmf = F(ctx, cm)
        nd = cm.params[1]
        internal = cmf.tests(f"M.is_internal_path({nd}.name, M.METADOR_META_PREF)")
        app = cmf.calls(f"__m.append({nd})")
        okf = bool(internal) and bool(app) and cmf.all_hit_before(app, edges=internal)
    rep.check(okf, "C08.R4", fm.qual, "metadata objects are identified by the segment-prefix predicate with the metadata prefix", fm.loc(), construct="find_missing filter", message="find_missing does not identify metadata nodes with is_internal_path(node.name, METADOR_META_PREF)")
    fi = P.func(f"{U}.to_meta_base_path")
    try:
        paths = F(ctx, fi).node_paths()
    except ValueError as e:
        raise AnalysisError(f"to_meta_base_path: {e}")
    n = 0
    for lits, stmts in paths:
        last = _last_segment_on_path(stmts)
        if last is None:
            raise AnalysisError("to_meta_base_path: cannot determine the last segment of the result on the path " + " & ".join(("" if tv else "not ") + k for k, tv in lits))
        n += 1
        t = norm(last)
        key = " & ".join(("" if tv else "not ") + k for k, tv in lits) or "always"
        rep.check(t == "METADOR_META_PREF" or t.startswith("METADOR_META_PREF +") or t.startswith("f'{METADOR_META_PREF}"), "C08.R4", fi.qual, f"last segment of the metadata base path starts with METADOR_META_PREF ({t}) when {key}", fi.loc(),
                  construct=f"segment when {key}", message=f"to_meta_base_path builds a last segment that does not start with the reserved prefix: {t}")
    if n < 3:
        raise AnalysisError("to_meta_base_path: expected 3 result paths")
