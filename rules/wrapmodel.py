"""Shared model of container/wrappers.py for C06/C08/C09/C15:
factory-made methods (_wrap_method), raw-role receivers, guard-aware CFGs."""
from __future__ import annotations

import ast
from typing import Dict, List, Optional, Set, Tuple

from mdsa.astutil import call_attr, chain, kwarg, local_calls, norm
from mdsa.cfg import CFG, walk_local
from mdsa.loader import AnalysisError, FuncInfo, Program

W = "container.wrappers"
NODE_CLASSES = (f"{W}.MetadorNode", f"{W}.MetadorDataset", f"{W}.MetadorGroup", f"{W}.MetadorContainer")
WRAPPER_CTORS = {"MetadorGroup", "MetadorDataset", "MetadorNode"}


class FactoryUse:
    def __init__(self, cls_qual: str, name: str, method: str, ro: bool, node: ast.Call, where: str):
        self.cls_qual = cls_qual
        self.name = name  # attribute name in the class (or "<inline>")
        self.method = method  # raw method name
        self.ro = ro  # is_read_only_method
        self.node = node
        self.where = where


def factory_call_info(P: Program, mod, call: ast.Call) -> Optional[Tuple[str, bool]]:
    """_wrap_method("x", is_read_only_method=...) -> ("x", bool) ; None if not such a call or not constant."""
    if not (isinstance(call.func, ast.Name) and call.func.id == "_wrap_method"):
        return None
    if not call.args or not isinstance(call.args[0], ast.Constant) or not isinstance(call.args[0].value, str):
        raise AnalysisError(f"_wrap_method call with non-constant method name: {norm(call)}")
    ro_e = call.args[1] if len(call.args) > 1 else kwarg(call, "is_read_only_method")
    if ro_e is None:
        ro = False
    elif isinstance(ro_e, ast.Constant) and isinstance(ro_e.value, bool):
        ro = ro_e.value
    else:
        raise AnalysisError(f"_wrap_method call with non-constant read-only flag: {norm(call)}")
    return call.args[0].value, ro


def factory_uses(P: Program) -> List[FactoryUse]:
    """All uses of the _wrap_method factory: class attributes and inline invocations."""
    out = []
    mod = P.module(W)
    P.func(f"{W}._wrap_method")
    for cq in NODE_CLASSES:
        c = P.cls(cq)
        for name, expr in c.attrs.items():
            if isinstance(expr, ast.Call):
                info = factory_call_info(P, mod, expr)
                if info:
                    out.append(FactoryUse(cq, name, info[0], info[1], expr, f"{cq}.{name}"))
        for mname, fi in c.methods.items():
            for call in local_calls(fi.node):
                if isinstance(call.func, ast.Call):
                    info = factory_call_info(P, mod, call.func)
                    if info:
                        out.append(FactoryUse(cq, "<inline>", info[0], info[1], call, fi.qual))
    return out


def is_raw_expr(e: ast.AST, self_names=("self", "obj")) -> bool:
    """Expression rooted at <self>.__wrapped__ / self._raw / self._mc.__wrapped__ / self._container.__wrapped__."""
    ch = chain(e)
    if not ch or ch[0][0] != "name":
        return False
    parts = [(k, v) for k, v in ch]
    txt = ".".join(str(v) for k, v in parts if k in ("name", "attr"))
    for root in ("self.__wrapped__", "obj.__wrapped__", "self._raw", "self._mc.__wrapped__", "self._container.__wrapped__", "self._self_container.__wrapped__"):
        if txt == root or txt.startswith(root + "."):
            return True
    return False


def raw_root_len(e: ast.AST) -> int:
    ch = chain(e) or []
    names = [str(v) for k, v in ch if k in ("name", "attr")]
    for root in (["self", "_mc", "__wrapped__"], ["self", "_container", "__wrapped__"], ["self", "_self_container", "__wrapped__"], ["self", "__wrapped__"], ["obj", "__wrapped__"], ["self", "_raw"]):
        if names[: len(root)] == root:
            return len(root)
    return 0


def getattr_raw_call(call: ast.Call) -> Optional[ast.AST]:
    """getattr(<raw>, name)(...) or getattr(<raw>, name): returns the name expression."""
    c = call
    if isinstance(c.func, ast.Call):
        c = c.func
    if isinstance(c.func, ast.Name) and c.func.id == "getattr" and len(c.args) >= 2 and is_raw_expr(c.args[0]):
        return c.args[1]
    return None


def acl_flag_of_test(test: ast.AST) -> Set[str]:
    """Flags F such that the test is (a conjunction containing / a disjunction of) self.acl[NodeAcl.F] / self._self_acl[NodeAcl.F]."""
    out = set()
    for x in ast.walk(test):
        if isinstance(x, ast.Subscript) and norm(x.value) in ("self.acl", "self._self_acl", "self._node.acl", "added_flags"):
            s = norm(x.slice)
            if s.startswith("NodeAcl."):
                out.add(s.split(".", 1)[1])
    return out


def guard_acl_flag(call: ast.Call) -> Optional[str]:
    """self._guard_acl(NodeAcl.X, ...) / self._node._guard_acl(NodeAcl.X) / obj._guard_acl(NodeAcl.X, m) -> 'X'."""
    if call_attr(call) != "_guard_acl" or not call.args:
        return None
    s = norm(call.args[0])
    return s.split(".", 1)[1] if s.startswith("NodeAcl.") else None


def guard_aware_cfg(fi: FuncInfo) -> CFG:
    """CFG in which `self._guard_acl(NodeAcl.X, ..)` / `self._raise_illegal_op(..)` placed lexically in the
    true-branch of a test that contains self.acl[NodeAcl.X] (as a conjunct) never returns: the guard raises iff the
    flag is set, and on that branch it is set."""
    parents: Dict[int, ast.AST] = {}
    for p in ast.walk(fi.node):
        for ch in ast.iter_child_nodes(p):
            parents[id(ch)] = p

    def in_true_branch_of_flag(node: ast.AST, flag: str) -> bool:
        cur = node
        while id(cur) in parents:
            par = parents[id(cur)]
            if isinstance(par, ast.If) and cur in par.body:
                t = par.test
                conj = t.values if isinstance(t, ast.BoolOp) and isinstance(t.op, ast.And) else [t]
                for cj in conj:
                    if isinstance(cj, ast.Subscript) and flag in acl_flag_of_test(cj):
                        return True
            cur = par
        return False

    def noret(call: ast.Call) -> bool:
        if call_attr(call) == "_raise_illegal_op":
            return True
        f = guard_acl_flag(call)
        if f is None:
            return False
        # find the statement containing this call
        return in_true_branch_of_flag(call, f)

    return CFG(fi.node, noreturn=noret)
