"""C15 — Node restrictions cannot be escaped by navigating the container.

Decided for all navigation chains by induction on chain length: every single navigation step of the wrapper
layer hands out only (a) self, (b) the stored local parent, (c) wrappers constructed with
**self._child_node_kwargs(), (d) self._wrap_if_node(..) results or (e) results of the wrapper's own (checked)
primitives; flags are monotone; every mutating / reading / upward operation is dominated by its guard.
Not decided: attributes outside the H5*Like protocol that MetadorDataset.__getattr__ passes through.
"""
from __future__ import annotations

import ast
from typing import List, Optional, Set, Tuple

from mdsa.astutil import call_attr, call_recv, chain, kwarg, local_calls, norm, store_targets
from mdsa.cfg import walk_local
from mdsa.loader import AnalysisError, NoFold

from mdsa import match as MM

from .sem import F
from .common import Ctx, local_defs, node_of
from .wrapmodel import (
    NODE_CLASSES,
    W,
    WRAPPER_CTORS,
    acl_flag_of_test,
    factory_call_info,
    factory_uses,
    getattr_raw_call,
    guard_acl_flag,
    guard_aware_cfg,
    is_raw_expr,
)

I = "container.interface"
EXPLANATION = (
    "Induction step over the wrapper layer (container/wrappers.py, container/interface.py): R1 classifies every value a wrapper "
    "method returns, yields or passes to a callback — it must be self, the stored local parent, a wrapper built with "
    "**self._child_node_kwargs(), a _wrap_if_node(..) result, a result of another checked wrapper primitive, a facade "
    "(MetadorMeta / WithDefaultQueryStartNode / WrappedAttributeManager) or a non-node value; raw h5 objects and stored "
    "wrappers with other flags are violations; _child_node_kwargs must pass on every set flag. R2: flag stores only in "
    "__init__/restrict, restrict only sets True, acl returns a copy. R3/R4/R5: read_only, skel_only and local_only guards "
    "dominate every mutating / data-reading / upward operation (CFG dominance, with the factory _wrap_method expanded); "
    "a refusal signalled by an AttributeError subclass cannot fall through a pass-through __getattr__."
)
NOT_DECIDED = "attributes outside the H5*Like protocol that MetadorDataset.__getattr__ passes through (np.array(ds), asstr, ...); bypass via __wrapped__ (documented as soft restriction)"

SAFE_BUILTINS = {"len", "repr", "str", "bool", "list", "set", "dict", "iter", "map", "filter", "sorted", "tuple", "any", "all", "isinstance", "hasattr", "next", "int", "type"}
FACADES = {"MetadorMeta", "WithDefaultQueryStartNode", "WrappedAttributeManager"}
READ_ONLY_FACTORY_OK = {"get", "__getitem__"}
GROUP_MUTATORS = ["__setitem__", "__delitem__", "create_group", "require_group", "create_dataset", "require_dataset", "move", "copy"]


def run(P, rep, tier):
    rep.explanation = EXPLANATION
    rep.not_decided = NOT_DECIDED
    rep.assumptions = [
        "wrapt.ObjectProxy forwards attribute access it does not find on the wrapper class to __getattr__ / the wrapped object",
        "Python calls __getattr__ after a property raised an AttributeError subclass",
        "restrictions are 'soft': access through __wrapped__ or private _self_* fields is outside the property",
    ]
    ctx = Ctx(P)
    rep.attempt(r1_navigation, P, rep, ctx)
    rep.attempt(r1_child_kwargs, P, rep, ctx)
    rep.attempt(r1_wrap_if_node, P, rep, ctx)
    rep.attempt(r1_query, P, rep, ctx)
    rep.attempt(r2_monotone, P, rep, ctx)
    rep.attempt(r3_read_only, P, rep, ctx)
    rep.attempt(r4_skel_only, P, rep, ctx)
    rep.attempt(r5_local_only, P, rep, ctx)
    # the metadata interface of a node is built per access with THAT wrapper's restrictions (fresh-view rule of C07.R5): a
    # cached one answers with the flags of whoever asked first
    from . import c07 as _c07

    rep.attempt(_c07.r5_fresh_view, P, rep, ctx, "C15.R7")
    rep.floor("C15.R1", 40, "handed-out values")
    rep.floor("C15.R3", 18)
    rep.floor("C15.R4", 6)
    rep.floor("C15.R5", 6)
    # refinement against the pinned tree for every function the rules above looked at (rules/pinned.py)
    import os as _os

    if not _os.environ.get("MDSA_PINNED_GEN"):
        from .pinned import refine

        refine(P, rep, ctx, "C15")


# ------------------------------------------------------------------------------------------- R1
class Classifier:
    def __init__(self, P, fi, selfname="self"):
        self.P = P
        self.fi = fi
        self.defs = local_defs(fi)
        self.selfname = selfname
        self.cls = fi.cls
        f = fi
        while self.cls is None and f.parent is not None:
            f = f.parent
            self.cls = f.cls

    def classify(self, e: ast.AST, depth=0) -> Tuple[str, str]:
        """-> (kind, detail); kind in value|self|wrapped|derived|facade|localparent|rawattrs|passthrough|RAW|ROOT|NOFLAGS|unknown"""
        if depth > 8:
            return ("unknown", norm(e))
        if e is None or isinstance(e, (ast.Constant, ast.JoinedStr, ast.Compare, ast.Lambda)):
            return ("value", "")
        if isinstance(e, ast.Name):
            if e.id == self.selfname:
                return ("self", "")
            if e.id in ("True", "False", "None"):
                return ("value", "")
            kinds = []
            pos = self._unpack_from_raw_items(e.id)
            if pos is not None:
                return ("value", "key of raw items()") if pos == 0 else ("RAW", f"{e.id} (value of raw items())")
            pk = self._unpack_from_private(e.id, depth)
            if pk is not None:
                return pk
            # `a, b = (x, y)`: component-wise
            comp = [st.value.elts[i] for st in walk_local(self.fi.node) if isinstance(st, ast.Assign) and len(st.targets) == 1 and isinstance(st.targets[0], ast.Tuple) and isinstance(st.value, ast.Tuple) and len(st.value.elts) == len(st.targets[0].elts)
                    for i, t_ in enumerate(st.targets[0].elts) if isinstance(t_, ast.Name) and t_.id == e.id]
            other = [1 for k_, v_ in self.defs.get(e.id, []) if not ("unpack" in k_ and isinstance(v_, ast.Tuple))]
            if comp and not other:
                return worst([self.classify(c_, depth + 1) for c_ in comp])
            for k, v in self.defs.get(e.id, []):
                if k == "param":
                    if self._is_raw_callback_param(e.id):
                        kinds.append(("RAW", f"{e.id} (node passed by the raw visititems callback)"))
                    else:
                        kinds.append(("param", e.id))
                elif v is not None:
                    if k.startswith("iter") or "unpack" in k:
                        kinds.append(self.classify_iter(v, depth + 1))
                    else:
                        kinds.append(self.classify(v, depth + 1))
            if not kinds:
                return ("value", "global/unknown name " + e.id)
            return worst(kinds)
        if isinstance(e, (ast.Tuple, ast.List, ast.Set)):
            return worst([self.classify(x, depth + 1) for x in e.elts] or [("value", "")])
        if isinstance(e, ast.Dict):
            return worst([self.classify(x, depth + 1) for x in list(e.values)] or [("value", "")])
        if isinstance(e, (ast.ListComp, ast.SetComp, ast.GeneratorExp)):
            return self.classify(e.elt, depth + 1)
        if isinstance(e, ast.DictComp):
            return self.classify(e.value, depth + 1)
        if isinstance(e, ast.BoolOp):
            return worst([self.classify(x, depth + 1) for x in e.values])
        if isinstance(e, ast.IfExp):
            return worst([self.classify(e.body, depth + 1), self.classify(e.orelse, depth + 1)])
        if isinstance(e, ast.NamedExpr):
            return self.classify(e.value, depth + 1)
        if isinstance(e, (ast.BinOp, ast.UnaryOp)):
            return ("value", "")
        if isinstance(e, ast.Starred):
            return self.classify(e.value, depth + 1)
        if isinstance(e, ast.Subscript):
            base = self.classify(e.value, depth + 1)
            if is_raw_expr(e.value):
                return ("RAW", norm(e))
            if base[0] == "self":
                return ("derived", "self[...]")
            if norm(e.value) in ("self.acl", "self._self_acl", "self._self_flags", "self._self_acl_whitelist"):
                return ("value", "")
            return base
        if isinstance(e, ast.Attribute):
            t = norm(e)
            if is_raw_expr(e):
                if e.attr == "name":
                    return ("value", "")
                if e.attr == "attrs" and norm(e.value) in ("self.__wrapped__",):
                    return ("rawattrs", t)
                return ("RAW", t)
            if t == "self._self_container":
                return ("ROOT", t)
            if t in ("self._self_local_parent",):
                return ("localparent", t)
            if t in ("self._self_container.metador", "self._self_toc"):
                return ("facade", "TOC")
            if t.startswith("self._self_") or t in ("self.acl", "self.name"):
                return ("value", "")
            base = self.classify(e.value, depth + 1)
            if base[0] in ("self",):
                return ("derived", t)
            return ("value", "") if base[0] in ("value", "param") else base
        if isinstance(e, ast.Call):
            nm = call_attr(e)
            ga = getattr_raw_call(e)
            if ga is not None:
                return ("passthrough", norm(e))
            if isinstance(e.func, ast.Name):
                if nm in WRAPPER_CTORS:
                    has = any(k.arg is None and isinstance(k.value, ast.Call) and call_attr(k.value) == "_child_node_kwargs" and norm(call_recv(k.value)) == self.selfname for k in e.keywords)
                    return ("wrapped", "") if has else ("NOFLAGS", norm(e))
                if nm in FACADES:
                    return ("facade", nm)
                if nm == "map" and len(e.args) == 2 and isinstance(e.args[0], ast.Lambda) and len(e.args[0].args.args) == 1:
                    lam = e.args[0]
                    ek = self._element_kinds(e.args[1], depth)
                    if ek is not None and isinstance(lam.body, ast.Subscript) and isinstance(lam.body.value, ast.Name) and lam.body.value.id == lam.args.args[0].arg and isinstance(lam.body.slice, ast.Constant) and isinstance(lam.body.slice.value, int) and 0 <= lam.body.slice.value < len(ek):
                        return ek[lam.body.slice.value]  # map(lambda x: x[i], helper()): the i-th component
                if nm in SAFE_BUILTINS:
                    return worst([self.classify(a, depth + 1) for a in e.args] or [("value", "")])
                if nm == "getattr":
                    return worst([self.classify(a, depth + 1) for a in e.args[:1]])
                if nm == "cast" and len(e.args) == 2:
                    return self.classify(e.args[1], depth + 1)
                return ("value", "call " + nm)
            recv = call_recv(e)
            if nm == "_wrap_if_node" and norm(recv) in (self.selfname, "obj"):
                return ("wrapped", "")
            if is_raw_expr(recv) or (recv is not None and is_raw_expr(e.func)):
                if nm in ("__enter__", "__exit__", "visititems", "visit"):
                    return ("value", "")  # visit*: the (wrapped) callback's own result
                cname = self.cls.name if self.cls is not None else ""
                if cname in ("MetadorDataset", "WrappedAttributeManager"):
                    return ("value", "dataset element / attribute value (data, guarded by R3/R4)")
                if cname == "WithDefaultQueryStartNode":
                    return ("derived", "container TOC facade (checked separately)")
                return ("RAW", norm(e))
            if isinstance(recv, ast.Call) and isinstance(recv.func, ast.Name) and recv.func.id == "super":
                return ("derived", norm(e.func))
            if isinstance(e.func, ast.Call):  # _wrap_method("x")(self, ...)
                info = factory_call_info(self.P, None, e.func)
                if info:
                    return ("derived", "factory " + info[0])
            rb = self.classify(recv, depth + 1) if recv is not None else ("value", "")
            if rb[0] == "self" and self.cls is not None and _unknown_private(self.P, self.cls, nm) is not None:
                # a new private helper of the class: what it hands to its callers is what the call evaluates to
                hfi = _unknown_private(self.P, self.cls, nm)
                inner = Classifier(self.P, hfi)
                vals = [inner.classify(v_, depth + 1) for how_, v_, st_ in handed_out(hfi)]
                return worst(vals) if vals else ("value", "")
            if rb[0] == "self":
                return ("derived", norm(e.func))
            return rb if rb[0] in ("RAW", "ROOT", "NOFLAGS", "unknown") else ("derived" if rb[0] in ("derived", "wrapped", "localparent") else "value", norm(e.func))
        return ("unknown", norm(e))

    def _is_raw_callback_param(self, name):
        """fi is a nested function handed to a raw visititems(...) call of its definer: its 2nd parameter is a raw node."""
        par = self.fi.parent
        if par is None or name not in self.fi.params or self.fi.params.index(name) != 1:
            return False
        for c in local_calls(par.node):
            if call_attr(c) == "visititems" and is_raw_expr(c.func.value) and any(isinstance(a, ast.Name) and a.id == self.fi.name for a in c.args):
                return True
        return False

    def _unpack_from_raw_items(self, name):
        for x in walk_local(self.fi.node):
            tgt = it = None
            if isinstance(x, (ast.For, ast.comprehension)):
                tgt, it = x.target, x.iter
            if isinstance(tgt, ast.Tuple) and isinstance(it, ast.Call) and call_attr(it) == "items" and is_raw_expr(it.func.value):
                for i, el in enumerate(tgt.elts):
                    if isinstance(el, ast.Name) and el.id == name:
                        return i
        return None

    def _element_kinds(self, call: ast.AST, depth):
        """for `self.<new private helper>()` that hands out tuples: kinds per tuple position (None if not applicable)"""
        if not (isinstance(call, ast.Call) and isinstance(call.func, ast.Attribute) and norm(call.func.value) == self.selfname and self.cls is not None):
            return None
        hfi = _unknown_private(self.P, self.cls, call.func.attr)
        if hfi is None:
            return None
        vals = [v_ for how_, v_, st_ in handed_out(hfi)]
        if not vals or not all(isinstance(v_, ast.Tuple) for v_ in vals) or len({len(v_.elts) for v_ in vals}) != 1:
            return None
        inner = Classifier(self.P, hfi)
        return [worst([inner.classify(v_.elts[i], depth + 1) for v_ in vals]) for i in range(len(vals[0].elts))]

    def _unpack_from_private(self, name, depth):
        for x in walk_local(self.fi.node):
            if isinstance(x, (ast.For, ast.comprehension)) and isinstance(x.target, ast.Tuple):
                ek = self._element_kinds(x.iter, depth)
                if ek is not None and len(ek) == len(x.target.elts):
                    for i, el in enumerate(x.target.elts):
                        if isinstance(el, ast.Name) and el.id == name:
                            return ek[i]
        return None

    def classify_iter(self, it: ast.AST, depth):
        """Elements of an iterable."""
        k = self.classify(it, depth)
        return k


def _unknown_private(P, cls, name):
    """the method `name` of the class if it is private and not a function of the pinned tree (new internal helper)"""
    if not name or not name.startswith("_") or name.startswith("__"):
        return None
    r = P.lookup_method(cls.qual, name)
    if r is None:
        return None
    from mdsa.inline import load_known

    known = load_known() or set()
    fi = r[1]
    return fi if getattr(fi, "qual", None) and fi.qual not in known else None


SEVERITY = ["value", "param", "self", "wrapped", "derived", "facade", "localparent", "rawattrs", "passthrough", "unknown", "NOFLAGS", "ROOT", "RAW"]


def worst(kinds):
    return max(kinds, key=lambda k: SEVERITY.index(k[0]))


def handed_out(fi) -> List[Tuple[str, ast.AST, ast.AST]]:
    """(how, value expr, stmt) for return / yield values and arguments of calls to callback parameters."""
    out = []
    params = set(fi.params)
    f = fi
    while f.parent is not None:
        f = f.parent
        params |= set(f.params)
    for x in walk_local(fi.node):
        if isinstance(x, ast.Return) and x.value is not None:
            out.append(("return", x.value, x))
        elif isinstance(x, (ast.Yield, ast.YieldFrom)) and x.value is not None:
            out.append(("yield", x.value, x))
        elif isinstance(x, ast.Call) and isinstance(x.func, ast.Name) and x.func.id in params and x.func.id not in ("self", "cls"):
            for a in x.args:
                out.append((f"callback {x.func.id}()", a, x))
    return out


def r1_navigation(P, rep, ctx):
    scope = []
    for cq in NODE_CLASSES + (f"{W}.WithDefaultQueryStartNode", f"{W}.WrappedAttributeManager"):
        c = P.cls(cq)
        for m in c.methods.values():
            scope.append(m)
            scope += list(m.nested.values())
    for fi in scope:
        if fi.name in ("__init__", "__repr__", "__dir__", "_parse_access_flags", "_child_node_kwargs", "__exit__"):
            continue
        top = fi
        while top.parent is not None:
            top = top.parent
        if top.cls is not None and _unknown_private(P, top.cls, top.name) is top:
            # internal helper that is not part of the pinned tree: not a navigation primitive; what it hands to its callers
            # is classified where they use it
            rep.info(f"{fi.qual}: new private helper, classified through its callers")
            continue
        clf = Classifier(P, fi)
        g = None
        for how, val, st in handed_out(fi):
            kind, detail = clf.classify(val)
            loc = fi.loc(st)
            what = f"{how} {norm(val)[:80]} is {kind}"
            if kind in ("value", "self", "wrapped", "derived", "facade", "param"):
                rep.ok("C15.R1", fi.qual, what, loc)
            elif kind == "localparent":
                rep.ok("C15.R1", fi.qual, what + " (stored local parent)", loc)
            elif kind == "rawattrs":
                # only when neither read_only nor skel_only is set
                g = g or ctx.cfg(fi)
                n = node_of(g, val)
                ff = F(ctx, fi)
                ok = n is not None and not reachable_when_flag(ff, "read_only", [n]) and not reachable_when_flag(ff, "skel_only", [n])
                rep.check(ok, "C15.R1", fi.qual, "raw attribute manager is handed out only when neither read_only nor skel_only is set", loc,
                          construct=f"{how} {norm(val)}", message="raw attribute manager returned on a path where read_only or skel_only may be set")
            elif kind == "passthrough":
                if fi.qual == f"{W}.MetadorContainer.__getattr__":
                    sup = _supported(P)
                    rep.check(sup <= {"mode", "flush", "close"}, "C15.R1", fi.qual, "container pass-through limited to mode/flush/close", loc,
                              construct=f"_self_SUPPORTED={sorted(sup)}", message=f"MetadorContainer passes through {sorted(sup - {'mode', 'flush', 'close'})} to the raw file object")
                elif fi.qual in (f"{W}.MetadorDataset.__getattr__", f"{W}.WrappedAttributeManager.__getattr__"):
                    rep.info(f"{fi.qual}: pass-through of non-protocol attributes ({norm(val)}) is outside the property (guards checked by R3/R4)")
                    rep.ok("C15.R1", fi.qual, what + " (guarded pass-through, see R3/R4)", loc)
                else:
                    rep.fail("C15.R1", fi.qual, f"{how} {norm(val)}", f"raw attribute pass-through in {fi.qual}: {norm(val)}", loc)
            elif kind == "unknown":
                raise AnalysisError(f"C15.R1: cannot classify {how} value in {fi.qual}: {norm(val)} ({detail})")
            else:
                msg = {
                    "RAW": "a raw (unwrapped) h5 object is handed out, restrictions are lost",
                    "ROOT": "the stored unrestricted container object is handed out, restrictions are lost",
                    "NOFLAGS": "a wrapper is constructed without **self._child_node_kwargs(), restrictions are not inherited",
                }[kind]
                rep.fail("C15.R1", fi.qual, f"{how} {norm(val)}", f"{msg}: {detail or norm(val)}", loc)


def _supported(P) -> Set[str]:
    c = P.cls(f"{W}.MetadorContainer")
    e = c.attrs.get("_self_SUPPORTED")
    if e is None:
        raise AnalysisError("MetadorContainer._self_SUPPORTED not found")
    try:
        return set(P.fold(e, c.module))
    except NoFold:
        raise AnalysisError("MetadorContainer._self_SUPPORTED is not a constant set")


def r1_child_kwargs(P, rep, ctx):
    fi = P.func(f"{W}.MetadorNode._child_node_kwargs")
    cf = F(ctx, fi)
    ok_flags = ok_lp = False
    for _, r in cf.returns():
        if r is None:
            continue
        db = cf.dict_build(r)
        if db is None:
            continue
        fams = db["families"]
        ok_flags = len(fams) == 1 and fams[0]["src"] in ("self.acl.items()", "self._self_flags.items()") and fams[0]["key"] == "V0.name" and fams[0]["val"] in ("V1", "True") and MM.equivalent(fams[0]["kept"], "V1")
        lp = db["const"].get("'local_parent'")
        ok_lp = isinstance(lp, ast.IfExp) and set(db["const"]) == {"'local_parent'"}
        if ok_lp:
            a_, neg = MM.polarity(lp.test)
            yes, no = (lp.orelse, lp.body) if neg else (lp.body, lp.orelse)
            ok_lp = norm(yes) == "self" and acl_flag_of_test(a_) == {"local_only"} and norm(no) == "None"
    rep.check(ok_flags, "C15.R1", fi.qual, "_child_node_kwargs passes on every set flag", fi.loc(), construct="flag comprehension of _child_node_kwargs",
              message="_child_node_kwargs does not pass every set ACL flag to child nodes (expected {k.name: v for k, v in self.acl.items() if v})")
    rep.check(ok_lp, "C15.R1", fi.qual, "_child_node_kwargs passes self as local parent iff local_only", fi.loc(), construct="local_parent of _child_node_kwargs",
              message="_child_node_kwargs does not pass `self if self.acl[local_only] else None` as local_parent")
    # constructor consumes exactly these
    init = P.func(f"{W}.MetadorNode.__init__")
    txt = norm(init.node)
    rep.check("self._self_flags: NodeAclFlags = flags" in txt or "self._self_flags = flags" in txt, "C15.R1", init.qual, "__init__ stores the parsed flags", init.loc(),
              construct="flag store in __init__", message="MetadorNode.__init__ does not store the parsed access flags")
    paf = P.func(f"{W}.MetadorNode._parse_access_flags")
    pf = F(ctx, paf)
    kw = paf.params[0]
    ok = False
    prets = [v for _, v in pf.returns() if v is not None]
    if len(prets) == 1:
        db = pf.dict_build(prets[0])
        ok = db is not None and not db["const"] and len(db["families"]) == 1 and db["families"][0]["src"] in ("iter(NodeAcl)", "NodeAcl", "list(NodeAcl)") and db["families"][0]["key"] == "V0" and db["families"][0]["val"] == f"{kw}.pop(V0.name, False)" and MM.equivalent(db["families"][0]["kept"], "True")
    rep.check(ok, "C15.R1", paf.qual, "_parse_access_flags builds a fresh dict over all NodeAcl members (default False)", paf.loc(), construct="_parse_access_flags",
              message="_parse_access_flags is not `{flag: kwargs.pop(flag.name, False) for flag in NodeAcl}` (fresh dict per node, all members)")


def r1_wrap_if_node(P, rep, ctx):
    fi = P.func(f"{W}.MetadorNode._wrap_if_node")
    f = F(ctx, fi)
    vp = fi.params[1]
    try:
        paths = f.value_paths()
    except ValueError as e:
        raise AnalysisError(f"C15.R1: _wrap_if_node: {e}")
    for proto, ctor in (("H5GroupLike", "MetadorGroup"), ("H5DatasetLike", "MetadorDataset")):
        key = f"isinstance({vp}, {proto})"
        mine = [(lits, v) for lits, v, n_ in paths if (key, True) in lits]
        # path-sensitive: on every path on which the value was found to be of this kind, the matching wrapper with the
        # inherited flags is returned (the class may be picked first and applied later)
        ok = bool(mine) and all(isinstance(v, ast.Call) and norm(v.func) == ctor and Classifier(P, fi).classify(v)[0] == "wrapped" for lits, v in mine)
        rep.check(ok, "C15.R1", fi.qual, f"_wrap_if_node wraps {proto} values as {ctor} with inherited flags", fi.loc(), construct=f"_wrap_if_node branch for {proto}",
                  message=f"_wrap_if_node has no branch returning {ctor}(..., **self._child_node_kwargs()) for {proto} values")


def r1_query(P, rep, ctx):
    fi = P.func(f"{W}.WithDefaultQueryStartNode.query")
    calls = [c for c in local_calls(fi.node) if call_attr(c) == "query" and is_raw_expr(c.func.value)]
    ok = False
    for c in calls:
        n = kwarg(c, "node")
        if n is None:
            continue
        defs = local_defs(fi).get(norm(n), [])
        exprs = [norm(v) for k, v in defs if v is not None] + [norm(n)]
        ok = any(e in ("node or self._self_query_start_node", "self._self_query_start_node if node is None else node") for e in exprs)
    rep.check(ok, "C15.R1", fi.qual, "node-level query always supplies a start node (caller's or its own node)", fi.loc(), construct="start node of WithDefaultQueryStartNode.query",
              message="WithDefaultQueryStartNode.query does not pass `node or <its own node>` to the container query")
    init = P.func(f"{W}.WithDefaultQueryStartNode.__init__")
    rep.check("self._self_query_start_node = def_start_node" in norm(init.node), "C15.R1", init.qual, "default start node is the constructor argument", init.loc(),
              construct="WithDefaultQueryStartNode.__init__", message="default query start node is not the node the facade was created from")
    mp = P.func(f"{W}.MetadorNode.metador")
    rets = [norm(x.value) for x in walk_local(mp.node) if isinstance(x, ast.Return)]
    rep.check(rets == ["WithDefaultQueryStartNode(self._self_container.metador, self)"], "C15.R1", mp.qual, "node.metador is the facade with the node itself as start", mp.loc(),
              construct="MetadorNode.metador", message=f"MetadorNode.metador returns {rets}, expected the query facade bound to self")
    # container query: results only from the start node and start_node.visititems
    q = P.func(f"{I}.MetadorContainerTOC.query")
    qf = F(ctx, q)
    START = ("node or self._container['/']", "self._container['/'] if node is None else node", "node if node is not None else self._container['/']")
    vis_s = qf.call_sites("__s.visititems(__cb)")
    sn = sorted({qf.x_at(i, b["__s"]) for i, c, b in vis_s})
    rep.check(bool(sn) and all(x in START for x in sn), "C15.R1", q.qual, "query start = caller's node, else the container root obtained through the container's own __getitem__", q.loc(),
              construct="start_node of MetadorContainerTOC.query", message=f"MetadorContainerTOC.query computes its start node as {sn}: results may carry other flags than the caller's node")
    accs = {norm(c.func.value) for nf in q.nested.values() for c in local_calls(nf.node) if call_attr(c) == "append" and isinstance(c.func, ast.Attribute) and isinstance(c.func.value, ast.Name)}
    for how, val, st in handed_out(q):
        t = norm(val)
        site = node_of(qf.g, val)
        xt = qf.x_at(site, val) if site is not None else t
        ok = xt in START or t in accs or any(t == f"iter({a_})" for a_ in accs) or how.startswith("callback")
        rep.check(ok, "C15.R1", q.qual, f"query hands out only the start node / collected nodes ({how})", q.loc(st), construct=f"{how} value of query",
                  message=f"MetadorContainerTOC.query hands out {t}")
    # the callback handed to visititems (whatever it is called)
    cbs = [b["__cb"].id for i, c, b in vis_s if isinstance(b["__cb"], ast.Name) and b["__cb"].id in q.nested]
    coll = q.nested.get(cbs[0]) if cbs else None
    if coll is None:
        raise AnalysisError("MetadorContainerTOC.query: the collector passed to visititems is not a local function")
    appends = [c for c in local_calls(coll.node) if call_attr(c) == "append"]
    ok = bool(appends) and all(norm(c.args[0]) == coll.params[1] for c in appends)
    rep.check(ok, "C15.R1", coll.qual, "collector appends exactly the node passed by visititems", coll.loc(), construct="collect_nodes append",
              message="query collector appends something other than the node handed to it by start_node.visititems")
    vis = [(i, c) for m_ in ("visititems", "visit", "items", "values") for i, c, b in qf.call_sites(f"__s.{m_}(___)")]
    ok = bool(vis) and all(qf.x_at(i, c.func.value) in START for i, c in vis)
    rep.check(ok, "C15.R1", q.qual, "query traverses through start_node.visititems only", q.loc(), construct="traversal receiver in query",
              message=f"query traverses through {[norm(c.func) for i, c in vis]} (must be start_node.visititems)")
    # facade MetadorMeta: values()/items() hand out StoredMetadata (raw dataset inside): informational
    rep.info("StoredMetadata.node handed out by meta.values()/items() is a raw dataset but not a navigation primitive of the protocol (informational)")


# ------------------------------------------------------------------------------------------- R2
def r2_monotone(P, rep, ctx):
    allowed = {f"{W}.MetadorNode.__init__", f"{W}.MetadorNode.restrict"}
    n = 0
    for fi in P.functions.values():
        if fi.module.name not in (W, I):
            continue
        for st in walk_local(fi.node):
            if not isinstance(st, ast.stmt):
                continue
            for kind, t in store_targets(st):
                if "_self_flags" in norm(t) or "_self_local_parent" in norm(t):
                    n += 1
                    rep.check(fi.qual in allowed, "C15.R2", fi.qual, f"store to {norm(t)} only in __init__/restrict", fi.loc(st), construct=norm(st),
                              message=f"access flags / local parent modified outside __init__/restrict: {norm(st)}")
            for c in ([x for x in walk_local(st) if isinstance(x, ast.Call)] if not isinstance(st, (ast.FunctionDef, ast.ClassDef, ast.If, ast.For, ast.While, ast.With, ast.Try)) else []):
                if call_attr(c) in ("update", "pop", "clear", "setdefault", "__setitem__", "popitem") and "_self_flags" in norm(c.func):
                    n += 1
                    rep.check(fi.qual in allowed, "C15.R2", fi.qual, f"mutation of _self_flags only in __init__/restrict", fi.loc(c), construct=norm(c),
                              message=f"access flags mutated outside __init__/restrict: {norm(c)}")
    fi = P.func(f"{W}.MetadorNode.restrict")
    ups = [c for c in local_calls(fi.node) if call_attr(c) == "update" and "_self_flags" in norm(c.func)]
    ok = bool(ups)
    for c in ups:
        a = c.args[0] if c.args else None
        if isinstance(a, ast.DictComp):
            gen = a.generators[0]
            tgt = [t.id for t in gen.target.elts] if isinstance(gen.target, ast.Tuple) else []
            v_true = isinstance(a.value, ast.Constant) and a.value.value is True
            v_filtered = len(tgt) == 2 and norm(a.value) == tgt[1] and any(norm(i) == tgt[1] for i in gen.ifs)
            ok = ok and (v_true or v_filtered)
        else:
            ok = False
    stores = [st for st in walk_local(fi.node) if isinstance(st, ast.stmt) for k, t in store_targets(st) if "_self_flags" in norm(t)]
    rep.check(ok and not stores, "C15.R2", fi.qual, "restrict only ever sets flags to True", fi.loc(), construct="flag update in restrict",
              message="restrict can clear or overwrite a flag (expected update({k: True for k, v in added.items() if v}))")
    lp = [st for st in walk_local(fi.node) if isinstance(st, ast.Assign) and any("_self_local_parent" in norm(t) for t in st.targets)]
    rep.check(all(norm(s.value) == "None" for s in lp), "C15.R2", fi.qual, "restrict can only clear the stored local parent", fi.loc(), construct="local parent store in restrict",
              message="restrict assigns a new local parent (only clearing is allowed)")
    fi = P.func(f"{W}.MetadorNode.acl")
    rets = [norm(x.value) for x in walk_local(fi.node) if isinstance(x, ast.Return)]
    rep.check(bool(rets) and all(r in ("dict(self._self_flags)", "{**self._self_flags}", "self._self_flags.copy()") for r in rets), "C15.R2", fi.qual, "acl returns a copy of the flags", fi.loc(),
              construct="acl return", message=f"acl hands out the mutable flag dict itself: {rets}")
    if n < 3:
        raise AnalysisError(f"C15.R2: only {n} flag stores found (expected >= 3)")


# ------------------------------------------------------------------------------------------- R3
ACL_RECV = ("self", "obj", "self._node")


def flag_patterns(flag: str):
    return [f"{r}.acl[NodeAcl.{flag}]" for r in ACL_RECV] + [f"self._self_acl[NodeAcl.{flag}]", f"self._self_flags[NodeAcl.{flag}]", f"self._self_acl.get(NodeAcl.{flag})"]


def reachable_when_flag(f: "F", flag: str, targets, extra=()):
    """nodes of `targets` reachable from the entry on a path on which the node's `flag` is set (and the extra
    literals hold): flag tests are taken on their true side, and a call of _guard_acl(NodeAcl.<flag>) /
    _raise_illegal_op ends the path (it raises, the flag being set)."""
    g = f.g
    blocked = f.neg(f.tests(*flag_patterns(flag)))
    for alts in extra:
        blocked += f.neg(f.tests(*alts))
    stops = [n.idx for n in g.nodes if any(guard_acl_flag(c) == flag or call_attr(c) == "_raise_illegal_op" for c in g.calls(n.idx))]
    r = g.reach_consistent([g.entry], avoid=stops, labels_block=blocked)
    return sorted(set(targets) & r)


def _flag_guarded_closed(ctx, P, fi, node_idx, flag, depth=4, _stack=()):
    """the effect is unreachable when `flag` is set -- by a guard in fi itself, or (fi private) at every call site"""
    f = F(ctx, fi)
    if not reachable_when_flag(f, flag, [node_idx]):
        return True, []
    here = f"{fi.qual} (L{f.g.nodes[node_idx].lineno})"
    public = not fi.name.startswith("_") or (fi.name.startswith("__") and fi.name.endswith("__"))
    if public or depth == 0 or fi.qual in _stack:
        return False, [here + " [public entry reaches it with the flag set]"]
    callers = [c for c in ctx.cg.callers(fi.qual) if c != fi.qual]
    if not callers:
        return False, [here + " [no caller found]"]
    for cq in callers:
        cfi = P.functions[cq]
        cg_ = ctx.cfg(cfi)
        for s_ in ctx.cg.sites.get((cq, fi.qual), []):
            sn = node_of(cg_, s_)
            if sn is None:
                return False, [here, f"{cq} [call site not found]"]
            ok, ch = _flag_guarded_closed(ctx, P, cfi, sn, flag, depth - 1, _stack + (fi.qual,))
            if not ok:
                return False, [here] + ch
    return True, []


def _guard_dominates(rep, rule, fi, g, flag, effects, what, ctx=None):
    f = F(ctx, fi) if ctx is not None else None
    guards = [n.idx for n in g.nodes if any(guard_acl_flag(c) == flag for c in g.calls(n.idx))]
    for e in effects:
        ok = g.every_path_passes(guards, e)
        if not ok and f is not None:
            # the guard may be conditional on the flag itself (`if self.acl[F]: self._guard_acl(F)`)
            ok = not reachable_when_flag(f, flag, [e])
        rep.check(ok, rule, fi.qual, f"_guard_acl({flag}) dominates {what}: {g.nodes[e].text()[:70]}", fi.loc(g.nodes[e].stmt),
                  construct=f"{flag} guard before {g.nodes[e].text()[:90]}",
                  message=f"{what} reachable without _guard_acl(NodeAcl.{flag}): {g.nodes[e].text()[:90]}", path=g.path_text(g.find_path(e, avoid=guards)))


def _raw_effect_nodes(P, g, mutating_only=True) -> List[int]:
    out = []
    for n in g.nodes:
        hit = False
        for c in g.calls(n.idx):
            nm = call_attr(c)
            if isinstance(c.func, ast.Attribute) and is_raw_expr(c.func.value) and nm not in ("get", "__getitem__", "__contains__", "keys", "values", "items", "visititems", "visit"):
                hit = True
            if isinstance(c.func, ast.Call):
                info = None
                try:
                    info = factory_call_info(P, None, c.func)
                except AnalysisError:
                    pass
                if info and not info[1]:
                    pass  # guarded inside the factory (checked once on the factory body)
            if nm in ("_destroy_meta", "_destroy", "repair_missing", "_set_raw", "_del_raw", "register", "unregister"):
                hit = True
        if n.kind == "stmt":
            for kind, t in store_targets(n.stmt):
                if isinstance(t, ast.Subscript) and is_raw_expr(t.value):
                    hit = True
        if hit:
            out.append(n.idx)
    return out


def r3_read_only(P, rep, ctx):
    # the guard itself
    fi = P.func(f"{W}.MetadorNode._guard_acl")
    g = ctx.cfg(fi)
    f = F(ctx, fi)
    fl = fi.params[1]
    isset = f.tests(f"self.acl[{fl}]", f"self._self_flags[{fl}]", f"self.acl.get({fl})", f"self._self_flags.get({fl}, False)")
    ok = f.refuses(isset) and f.hit_before(g.exit, nodes=f.test_nodes(isset))
    rep.check(ok, "C15.R3", fi.qual, "_guard_acl raises whenever the flag is set", fi.loc(), construct="_guard_acl body", message="_guard_acl does not raise on every path on which the flag is set")
    # factory body
    fac = P.func(f"{W}._wrap_method")
    wm = fac.nested.get("wrapped_method")
    if wm is None:
        raise AnalysisError("_wrap_method.wrapped_method not found")
    g = ctx.cfg(wm)
    raws = [n.idx for n in g.nodes if any(getattr_raw_call(c) is not None for c in g.calls(n.idx))]
    if not raws:
        raise AnalysisError("no raw call found in _wrap_method.wrapped_method")
    wf = F(ctx, wm)
    ro_method = wf.tests("is_read_only_method")
    guards = [n.idx for n in g.nodes if any(guard_acl_flag(c) == "read_only" for c in g.calls(n.idx))]
    for r in raws:
        # the guard precedes the raw call unless the method was declared read-only
        ok = bool(guards) and wf.hit_before(r, nodes=guards, edges=ro_method)
        rep.check(ok, "C15.R3", wm.qual, "factory: read_only guard precedes the raw call unless the method is declared read-only", wm.loc(g.nodes[r].stmt),
                  construct="read_only guard in _wrap_method", message="_wrap_method: raw call reachable without _guard_acl(read_only) for a non-read-only method")
    # uses of the factory
    for u in factory_uses(P):
        ok = (not u.ro) or u.method in READ_ONLY_FACTORY_OK
        rep.check(ok, "C15.R3", u.where, f"factory method '{u.method}' declared read-only only if it is get/__getitem__", P.module(W).relpath + f":{u.node.lineno}",
                  construct=f"_wrap_method({u.method!r}, is_read_only_method={u.ro})", message=f"mutating method '{u.method}' is wrapped with is_read_only_method=True: read_only nodes can call it")
        if u.name != "<inline>":
            rep.check(u.name == u.method, "C15.R3", u.where, f"factory attribute {u.name} wraps the raw method of the same name", P.module(W).relpath + f":{u.node.lineno}",
                      construct=f"{u.name} = _wrap_method({u.method!r})", message=f"{u.name} wraps raw method {u.method!r}")
    # every mutator of the protocol is defined with a guard
    grp = P.cls(f"{W}.MetadorGroup")
    fac_names = {u.name: u for u in factory_uses(P) if u.cls_qual == grp.qual}
    for m in GROUP_MUTATORS:
        if m in fac_names:
            continue  # guarded through the factory (checked above)
        fi = grp.methods.get(m)
        if fi is None:
            rep.fail("C15.R3", grp.qual, f"mutator {m} missing", f"MetadorGroup does not define mutator {m}: it is left to the object proxy / refused", grp.module.relpath)
            continue
        g = ctx.cfg(fi)
        eff = _raw_effect_nodes(P, g)
        inline = [c for c in local_calls(fi.node) if isinstance(c.func, ast.Call) and factory_call_info(P, None, c.func) and not factory_call_info(P, None, c.func)[1]]
        if not eff and not inline:
            raise AnalysisError(f"C15.R3: no effect found in {fi.qual}")
        if inline:
            rep.ok("C15.R3", fi.qual, f"mutation delegated to the guarded factory method ({norm(inline[0].func)})", fi.loc(inline[0]))
        _guard_dominates(rep, "C15.R3", fi, g, "read_only", eff, "mutation", ctx)
    ds = P.cls(f"{W}.MetadorDataset")
    fi = ds.methods.get("__setitem__")
    if fi is None:
        rep.fail("C15.R3", ds.qual, "MetadorDataset.__setitem__ missing", "MetadorDataset does not define __setitem__: the object proxy forwards it unguarded", ds.module.relpath)
    else:
        g = ctx.cfg(fi)
        _guard_dominates(rep, "C15.R3", fi, g, "read_only", _raw_effect_nodes(P, g), "dataset write", ctx)
    # dataset pass-through: forbidden names guarded
    fi = P.func(f"{W}.MetadorDataset.__getattr__")
    g = ctx.cfg(fi)
    passn = [n.idx for n in g.nodes if any(getattr_raw_call(c) is not None for c in g.calls(n.idx))]
    forb = ds.attrs.get("_self_RO_FORBIDDEN")
    try:
        forb_set = set(P.fold(forb, ds.module)) if forb is not None else set()
    except NoFold:
        forb_set = set()
    rep.check({"resize", "make_scale", "write_direct", "flush"} <= forb_set, "C15.R3", ds.qual, "_self_RO_FORBIDDEN covers the mutating dataset methods", ds.module.relpath,
              construct="_self_RO_FORBIDDEN", message=f"_self_RO_FORBIDDEN lost a mutating method: {sorted(forb_set)}")
    df = F(ctx, fi)
    kp = fi.params[1]
    ok = bool(passn) and not reachable_when_flag(df, "read_only", passn, extra=[[f"{kp} in self._self_RO_FORBIDDEN"]]) and (bool(df.tests(f"{kp} in self._self_RO_FORBIDDEN")) or not reachable_when_flag(df, "read_only", passn))
    rep.check(ok, "C15.R3", fi.qual, "forbidden dataset methods are refused for read_only nodes before the pass-through", fi.loc(), construct="RO_FORBIDDEN test in __getattr__",
              message="MetadorDataset.__getattr__ can pass a forbidden mutating method through for a read_only node")
    # attribute manager
    wam = P.cls(f"{W}.WrappedAttributeManager")
    for m in ("__setitem__", "__delitem__"):
        fi = wam.methods.get(m)
        if fi is None:
            rep.fail("C15.R3", wam.qual, f"{m} missing", f"WrappedAttributeManager does not define {m}: the object proxy forwards it unguarded", wam.module.relpath)
            continue
        g = ctx.cfg(fi)
        eff = [n.idx for n in g.nodes if any(isinstance(c.func, ast.Attribute) and is_raw_expr(c.func.value) for c in g.calls(n.idx))]
        af = F(ctx, fi)
        ok = bool(eff) and not reachable_when_flag(af, "read_only", eff)
        rep.check(ok, "C15.R3", fi.qual, "attribute mutation refused when read_only", fi.loc(), construct=f"read_only test in {m}", message=f"WrappedAttributeManager.{m} reaches the raw attribute manager although read_only is set")
    wl = wam.attrs.get("_self_acl_whitelist")
    ok = False
    if isinstance(wl, ast.Dict):
        m = {norm(k): v for k, v in zip(wl.keys, wl.values)}
        try:
            ro = set(P.fold(m.get("NodeAcl.read_only"), wam.module)) if "NodeAcl.read_only" in m else None
            sk = set(P.fold(m.get("NodeAcl.skel_only"), wam.module)) if "NodeAcl.skel_only" in m else None
            ok = ro is not None and sk is not None and ro <= {"keys", "values", "items", "get"} and sk <= {"keys"}
        except NoFold:
            ok = False
    rep.check(ok, "C15.R3", wam.qual, "attribute whitelists contain only non-mutating (read_only) / key-only (skel_only) methods", wam.module.relpath, construct="_self_acl_whitelist",
              message="WrappedAttributeManager whitelist admits a mutating or value-reading method")
    fi = P.func(f"{W}.WrappedAttributeManager.__getattr__")
    g = ctx.cfg(fi)
    passn = [n.idx for n in g.nodes if any(getattr_raw_call(c) is not None for c in g.calls(n.idx))]
    wf2 = F(ctx, fi)
    kp = fi.params[1]
    r_ = wf2.refuses_when([["self._self_allowed"], [f"{kp} not in self._self_allowed"], [f"hasattr(self.__wrapped__, {kp})"]], targets=passn)
    if r_ is None:
        r_ = wf2.refuses_when([["self._self_allowed"], [f"{kp} not in self._self_allowed"]], targets=passn)
    ok = bool(passn) and bool(r_)
    rep.check(ok, "C15.R3", fi.qual, "non-whitelisted attribute methods are refused before the pass-through", fi.loc(), construct="whitelist test in __getattr__",
              message="WrappedAttributeManager.__getattr__ passes a non-whitelisted method through")
    # metadata interface
    for m in ("__setitem__", "__delitem__"):
        fi = P.func(f"{I}.MetadorMeta.{m}")
        g = ctx.cfg(fi)
        eff = _raw_effect_nodes(P, g)
        if not eff:
            raise AnalysisError(f"C15.R3: no effect in {fi.qual}")
        _guard_dominates(rep, "C15.R3", fi, g, "read_only", eff, "metadata mutation", ctx)


# ------------------------------------------------------------------------------------------- R4
def r4_skel_only(P, rep, ctx):
    ds = P.cls(f"{W}.MetadorDataset")
    fi = ds.methods.get("__getitem__")
    if fi is None:
        rep.fail("C15.R4", ds.qual, "MetadorDataset.__getitem__ missing", "MetadorDataset does not define __getitem__: the object proxy forwards it unguarded", ds.module.relpath)
    else:
        g = ctx.cfg(fi)
        eff = [n.idx for n in g.nodes if any(isinstance(c.func, ast.Attribute) and is_raw_expr(c.func.value) for c in g.calls(n.idx)) or (n.kind == "stmt" and any(isinstance(x, ast.Subscript) and is_raw_expr(x.value) for x in walk_local(n.stmt)))]
        if not eff:
            raise AnalysisError("C15.R4: no raw read in MetadorDataset.__getitem__")
        _guard_dominates(rep, "C15.R4", fi, g, "skel_only", eff, "dataset read", ctx)
    fi = P.func(f"{W}.MetadorDataset.__getattr__")
    g = ctx.cfg(fi)
    passn = [n.idx for n in g.nodes if any(getattr_raw_call(c) is not None for c in g.calls(n.idx))]
    df = F(ctx, fi)
    kp = fi.params[1]
    ok = bool(passn) and not reachable_when_flag(df, "skel_only", passn, extra=[[f"{kp} == 'get'"]]) and (bool(df.tests(f"{kp} == 'get'")) or not reachable_when_flag(df, "skel_only", passn))
    rep.check(ok, "C15.R4", fi.qual, "dataset .get is refused for skel_only nodes", fi.loc(), construct="skel_only test in MetadorDataset.__getattr__",
              message="MetadorDataset.__getattr__ passes `get` through for a skel_only node")
    wam = P.cls(f"{W}.WrappedAttributeManager")
    fi = wam.methods.get("__getitem__")
    if fi is None:
        rep.fail("C15.R4", wam.qual, "__getitem__ missing", "WrappedAttributeManager does not define __getitem__: attribute values readable on skel_only nodes", wam.module.relpath)
    else:
        g = ctx.cfg(fi)
        eff = [n.idx for n in g.nodes if any(isinstance(c.func, ast.Attribute) and is_raw_expr(c.func.value) for c in g.calls(n.idx))]
        af = F(ctx, fi)
        ok = bool(eff) and not reachable_when_flag(af, "skel_only", eff)
        rep.check(ok, "C15.R4", fi.qual, "attribute values refused when skel_only", fi.loc(), construct="skel_only test in __getitem__", message="WrappedAttributeManager.__getitem__ returns attribute values although skel_only is set")
    # every place where MetadorMeta reads object *content* (bytes of a stored object, or hands out the stored-object records)
    # is behind the skel_only guard -- in the function itself or, for private helpers, at every call site
    mm = P.cls(f"{I}.MetadorMeta")
    n_eff = 0
    for fi in list(mm.methods.values()):
        if not isinstance(fi.node, (ast.FunctionDef, ast.AsyncFunctionDef)) or fi.name in ("__init__",):
            continue
        g = ctx.cfg(fi)
        eff = []
        for n in g.nodes:
            if n.kind in ("entry", "exit", "raise"):
                continue
            hit = False
            for e in n.exprs:
                if e is None:
                    continue
                for x in walk_local(e):
                    if isinstance(x, ast.Subscript) and isinstance(x.value, ast.Attribute) and x.value.attr == "node" and norm(x.slice) in ("()", "..."):
                        hit = True  # <stored object>.node[()]
                    if isinstance(x, ast.Call) and isinstance(x.func, ast.Attribute) and x.func.attr in ("values", "items") and norm(x.func.value) == "self._objs" and isinstance(n.stmt, ast.Return):
                        hit = True  # the stored-object records themselves are handed out
            if hit:
                eff.append(n.idx)
        for e in eff:
            n_eff += 1
            ok, chain_ = _flag_guarded_closed(ctx, P, fi, e, "skel_only")
            rep.check(ok, "C15.R4", fi.qual, f"_guard_acl(skel_only) dominates metadata read (closed over callers): {g.nodes[e].text()[:70]}", fi.loc(g.nodes[e].stmt),
                      construct=f"skel_only guard before {g.nodes[e].text()[:90]}", message=f"metadata read reachable without _guard_acl(NodeAcl.skel_only): {g.nodes[e].text()[:90]}", path=chain_)
    if n_eff < 3:
        raise AnalysisError(f"C15.R4: only {n_eff} metadata content reads found in MetadorMeta")
    # attrs property wraps whenever read_only or skel_only: covered by R1 (rawattrs)
    # __getitem__ / query("") go through get / values
    fi = P.func(f"{I}.MetadorMeta.__getitem__")
    rep.check(any(call_attr(c) == "get" and norm(c.func.value) == "self" for c in local_calls(fi.node)) and not any(isinstance(x, ast.Attribute) and x.attr in ("_objs",) for x in walk_local(fi.node)),
              "C15.R4", fi.qual, "meta[...] reads through the guarded get()", fi.loc(), construct="MetadorMeta.__getitem__", message="MetadorMeta.__getitem__ reads stored objects without going through the guarded get()")
    fi = P.func(f"{I}.MetadorMeta.query")
    g = ctx.cfg(fi)
    # the table of stored objects may be consulted for existence / names / schema refs; the stored records themselves
    # (and through them the content) only come from the guarded accessors
    parents = {}
    for p_ in ast.walk(fi.node):
        for ch in ast.iter_child_nodes(p_):
            parents[id(ch)] = p_

    def harmless(x: ast.AST) -> bool:
        """use of `self._objs` that cannot hand out a stored record"""
        up = parents.get(id(x))
        if isinstance(up, (ast.UnaryOp, ast.BoolOp, ast.If, ast.While, ast.IfExp, ast.Compare)):
            return True  # truth / membership test
        if isinstance(up, ast.Call) and x in up.args and norm(up.func) in ("len", "bool"):
            return True
        if isinstance(up, ast.Attribute) and isinstance(parents.get(id(up)), ast.Call) and parents[id(up)].func is up:
            call = parents[id(up)]
            if up.attr == "keys":
                return True
            if up.attr in ("get", "values", "items") or up.attr == "__getitem__":
                # every use of the elements goes through `.schema`
                owner = parents.get(id(call))
                if isinstance(owner, ast.Attribute) and owner.attr == "schema":
                    return True
                if isinstance(owner, ast.comprehension) and owner.iter is call and isinstance(owner.target, ast.Name) and up.attr == "values":
                    comp = parents.get(id(owner))
                    v_ = owner.target.id
                    uses = [y for y in ast.walk(comp) if isinstance(y, ast.Name) and y.id == v_ and isinstance(y.ctx, ast.Load)]
                    return bool(uses) and all(isinstance(parents.get(id(y)), ast.Attribute) and parents[id(y)].attr == "schema" for y in uses)
        if isinstance(up, ast.Subscript) and up.value is x:
            owner = parents.get(id(up))
            return isinstance(owner, ast.Attribute) and owner.attr == "schema"
        return False

    ys = [n.idx for n in g.nodes if n.kind in ("stmt", "for", "test") and any(isinstance(x, ast.Attribute) and x.attr == "_objs" and not harmless(x) for e in n.exprs if e is not None for x in walk_local(e))]
    rep.check(not ys, "C15.R4", fi.qual, "query lists objects through the guarded values()/keys()/_get_raw only", fi.loc(), construct="_objs access in query",
              message="MetadorMeta.query reads self._objs directly (bypasses the skel_only guard of values())")


# ------------------------------------------------------------------------------------------- R5
def _reach_local(pf, targets):
    return reachable_when_flag(pf, "local_only", targets)


def r5_local_only(P, rep, ctx):
    fi = P.func(f"{W}.MetadorNode.parent")
    g = ctx.cfg(fi)
    upward = [n.idx for n in g.nodes if n.kind in ("stmt", "test") and any(is_raw_expr(x) and isinstance(x, ast.Attribute) and x.attr in ("parent", "file") for e in n.exprs if e is not None for x in walk_local(e))]
    if not upward:
        raise AnalysisError("C15.R5: raw parent access not found in MetadorNode.parent")
    pf = F(ctx, fi)
    # with local_only set: the stored local parent (if any) is returned, otherwise the guard raises; the raw parent is never reached
    ok = not _reach_local(pf, upward)
    rep.check(ok, "C15.R5", fi.qual, "local_only: parent yields the stored local parent or raises, never the raw parent", fi.loc(), construct="local_only branch of parent",
              message="MetadorNode.parent can reach the raw parent although local_only is set", path=g.path_text(g.find_path(upward[0])))
    fi = P.func(f"{W}.MetadorNode.file")
    g = ctx.cfg(fi)
    ff = F(ctx, fi)
    ok = not reachable_when_flag(ff, "local_only", [g.exit])
    rep.check(ok, "C15.R5", fi.qual, "local_only: file raises", fi.loc(), construct="local_only branch of file", message="MetadorNode.file returns normally although local_only is set")
    fi = P.func(f"{W}.MetadorNode._guard_path")
    g = ctx.cfg(fi)
    gp = F(ctx, fi)
    pp = fi.params[1]
    absolute = gp.tests(f"{pp}[0] == '/'", f"{pp}.startswith('/')")
    ok = bool(absolute) and not reachable_when_flag(gp, "local_only", [g.exit], extra=[[f"{pp}[0] == '/'", f"{pp}.startswith('/')"]])
    rep.check(ok, "C15.R5", fi.qual, "local_only: absolute paths are rejected by _guard_path", fi.loc(), construct="local_only test of _guard_path",
              message="_guard_path accepts absolute paths on a local_only node")
    # the path that reaches the raw container is the path that was guarded: `_guard_path` judges the *spelling* it is given
    # (relative = below this node), so a path re-written after the guard (joined with the node's name, normalised: 'x/../..'
    # becomes a path outside the node) escapes a local_only node although the guard passed
    fac = P.func(f"{W}._wrap_method")
    wm = fac.nested.get("wrapped_method")
    if wm is None:
        raise AnalysisError("C15.R5: _wrap_method.wrapped_method not found")
    wf = F(ctx, wm)
    raw_sites = wf.call_sites("getattr(obj.__wrapped__, method)(__a, ___)")
    guard_sites = wf.call_sites("obj._guard_path(__p)")
    if not raw_sites or not guard_sites:
        raise AnalysisError("C15.R5: raw call / _guard_path call of the method factory not found")
    for ri, rc, rb in raw_sites:
        used = wf.x_at(ri, rb["__a"])
        guarded = [wf.x_at(gi, gb["__p"]) for gi, gc, gb in guard_sites if wf.hit_before(ri, nodes=[gi])]
        rep.check(used in guarded, "C15.R5", wm.qual, "factory-made methods hand the raw container exactly the path that _guard_path accepted", wm.loc(rc), construct=f"raw path {used[:60]}",
                  message=f"the factory-made container methods guard {guarded} but pass `{used[:80]}` to the raw object: a path re-written after the guard (e.g. normalised, '..' resolved) can name a node outside a local_only node")
    fi = P.func(f"{W}.MetadorNode.restrict")
    g = ctx.cfg(fi)
    rf = F(ctx, fi)
    adds_local = rf.tests("self._parse_access_flags(kwargs)[NodeAcl.local_only]", "__a[NodeAcl.local_only]", "self._parse_access_flags(kwargs).get(NodeAcl.local_only)")
    clears = [i for i, v, b in rf.stores("self._self_local_parent") if norm(v) == "None"]
    ok = bool(adds_local) and bool(clears) and all(rf.hit_before(g.exit, nodes=clears, src_edge=e) for e in adds_local)
    rep.check(ok, "C15.R5", fi.qual, "restrict(local_only=True) clears the stored local parent", fi.loc(), construct="local parent clearing in restrict",
              message="restrict(local_only=True) keeps the stored local parent: the node can still go up")
    # refusal cannot fall through a pass-through __getattr__
    uoe = P.cls(f"{W}.UnsupportedOperationError")
    is_attr_err = any(b.endswith("AttributeError") for b in uoe.bases)
    for cq in NODE_CLASSES:
        c = P.cls(cq)
        ga = c.methods.get("__getattr__")
        if ga is None:
            continue
        g = ctx.cfg(ga)
        passn = [n.idx for n in g.nodes if any(getattr_raw_call(cl) is not None for cl in g.calls(n.idx))]
        if not passn:
            rep.ok("C15.R5", ga.qual, "__getattr__ has no pass-through to the raw object", ga.loc())
            continue
        if cq.endswith("MetadorContainer"):
            cf = F(ctx, ga)
            sup_t = cf.tests(f"{ga.params[1]} in self._self_SUPPORTED")
            ok = bool(sup_t) and cf.all_hit_before(passn, edges=sup_t)
            props = {"parent", "file", "attrs", "name", "meta", "metador"}
            ok = ok and not (_supported(P) & props)
            rep.check(ok, "C15.R5", ga.qual, "container pass-through only for names in _self_SUPPORTED (none of which is a guarded property)", ga.loc(), construct="SUPPORTED test in MetadorContainer.__getattr__",
                      message="MetadorContainer.__getattr__ can pass a guarded property name through to the raw object")
            continue
        cf = F(ctx, ga)
        kp = ga.params[1]
        own = cf.tests(f"hasattr(type(self), {kp})", f"{kp} in dir(type(self))", f"hasattr(self.__class__, {kp})")
        ok = (not is_attr_err) or (bool(own) and cf.all_hit_before(passn, edges=cf.neg(own)))
        rep.check(ok, "C15.R5", ga.qual, "a property's refusal (AttributeError subclass) cannot fall through __getattr__ to the raw object", ga.loc(),
                  construct=f"{cq.rsplit('.', 1)[-1]}.__getattr__ fall-through",
                  message="parent/file refuse with UnsupportedOperationError (an AttributeError), Python then calls __getattr__, which passes the name through to the raw object: local_only dataset yields raw parent/file")
