"""C05 — merge materialises the overlay view and continues the patch chain.

Decided: R1 refusals (uncommitted changes / stub) dominate every effect; R2 the source record is a frame of the merge
(nothing reachable from self is stored to); R3 the merged user block is the newest source block with prev_patch of the
oldest and the hash of the closed merged payload, computed after the target closed and before the single save;
R4 the copy covers root attributes, every top-level entity, both entity kinds, attributes and full values.
Not decided: tree equality merged == overlay view.
"""
from __future__ import annotations

import ast
from typing import List

from mdsa.astutil import call_attr, call_recv, kwarg, local_calls, norm, store_targets
from mdsa.cfg import walk_local
from mdsa.loader import AnalysisError

from mdsa import match as M

from .sem import F
from .common import Ctx, local_defs, node_of

R = "ih5.record.IH5Record"
MF = "ih5.manifest.IH5MFRecord"
O = "ih5.overlay"
EXPLANATION = (
    "R1 DOM: in IH5Record.merge_files the `_has_writable -> raise` test and _expect_open precede the creation of the target record; in "
    "IH5MFRecord.merge_files the stub test precedes super().merge_files. R2 FRAME: merge_files and _fixes_after_merge (all subclasses) "
    "contain no store to self._ublocks / self.__files__ / self._manifest, no _set_ublock / append / pop on self, and no overlay write "
    "rooted at self. R3 def-use: the saved block is `_ublock(-1).copy(update={'prev_patch': _ublock(0).prev_patch})` (no other field "
    "overridden), its hdf5_hashsum is hashsum_file(cfile, skip_bytes=USER_BLOCK_SIZE) computed outside/after the with-block of the "
    "target and before the single ub.save(cfile). R4: root attributes and every key are copied; h5_copy_from_to has a dataset and a group "
    "branch, both copy attributes, groups recurse via visititems unless shallow, values are transferred with [()]."
)
NOT_DECIDED = "equality of the merged tree with the overlay view; behaviour of follow-up patches at run time"
UB_FIELDS = ["record_uuid", "patch_index", "patch_uuid", "prev_patch", "hdf5_hashsum", "ub_exts"]


def run(P, rep, tier):
    rep.explanation = EXPLANATION
    rep.not_decided = NOT_DECIDED
    rep.assumptions = ["pydantic v1 BaseModel.copy(update=...) returns a new object and leaves the source untouched", "leaving a `with record:` block closes (and commits) the target record"]
    ctx = Ctx(P)
    rep.attempt(r1_refusals, P, rep, ctx)
    # the refusal "uncommitted changes" is only as good as _has_writable (typestate rule of C02.R3)
    from . import c02

    rep.attempt(c02.r3_typestate, P, rep, ctx)
    # "merging leaves the source record unchanged": the merge target is created exclusively, never by truncating whatever
    # carries that name (C02.R2: no internal open in a truncating mode)
    rep.attempt(c02.r2_no_internal_truncation, P, rep, ctx)
    # "the merged tree equals the overlay view": what merge copies is what the overlay resolution shows (child resolution and
    # marker rules of C01.R1 / C01.R4)
    from . import c01

    rep.attempt(c01.r1_children, P, rep, ctx)
    rep.attempt(c01.r4_markers, P, rep, ctx)
    rep.attempt(r2_frame, P, rep, ctx)
    rep.attempt(r2b_shared_subobjects, P, rep, ctx)
    rep.attempt(r3_identity, P, rep, ctx)
    rep.attempt(r4_copy_coverage, P, rep, ctx)
    from .c03 import r5_codec

    # merge re-labels an already committed target with a (possibly shorter) user block: the codec must terminate / cut at NUL
    rep.attempt(r5_codec, P, rep, ctx, "C05.R5")
    # the merge target must not become part of the SOURCE's file set: which files belong to a record is decided by the name
    # language (C03.R3)
    from . import c03 as _c03

    rep.attempt(_c03.r3_name_language, P, rep, ctx)
    rep.floor("C05.R1", 3)
    rep.floor("C05.R2", 3)
    rep.floor("C05.R3", 6)
    rep.floor("C05.R4", 8)
    # refinement against the pinned tree for every function the rules above looked at (rules/pinned.py)
    import os as _os

    if not _os.environ.get("MDSA_PINNED_GEN"):
        from .pinned import refine

        refine(P, rep, ctx, "C05")


def r1_refusals(P, rep, ctx):
    fi = P.func(f"{R}.merge_files")
    g = ctx.cfg(fi)
    withs = [n.idx for n in g.nodes if n.kind == "with"]
    if not withs:
        raise AnalysisError("C05.R1: target creation (with block) not found in merge_files")
    tests = [t.idx for t in g.nodes if t.kind == "test" and norm(t.exprs[0]) == "self._has_writable"]
    ok = bool(tests) and all(g.exit not in g.reach([b for b, l in g.succ[t] if l == "T"]) and not (set(withs) & g.reach([b for b, l in g.succ[t] if l == "T"])) for t in tests) and all(g.every_path_passes(tests, w) for w in withs)
    rep.check(ok, "C05.R1", fi.qual, "merge is refused while there are uncommitted changes, before the target is created", fi.loc(), construct="_has_writable refusal before target creation",
              message="merge_files can create the target although the source has an uncommitted patch (refusal missing or placed after the effect)")
    eo = [n.idx for n in g.nodes if any(call_attr(c) == "_expect_open" for c in g.calls(n.idx))]
    rep.check(bool(eo) and all(g.every_path_passes(eo, w) for w in withs), "C05.R1", fi.qual, "merge requires an open record", fi.loc(), construct="_expect_open before target creation", message="merge_files does not check _expect_open before creating the target")
    if f"{MF}.merge_files" not in P.functions:
        # no override: the merge of the manifest record is the plain IH5Record.merge_files, which knows nothing about stubs
        rep.fail("C05.R1", f"{MF}", "stub refusal before super().merge_files", "IH5MFRecord no longer overrides merge_files: nothing refuses a file set that contains a stub before the merged container (and its manifest) are written; a refusal inside a later hook leaves the merged files behind", P.module("ih5.manifest").relpath)
        return
    fi = P.func(f"{MF}.merge_files")
    f = F(ctx, fi)
    sup = f.calls("super().merge_files(___)")
    ok, why = stub_refusal(P, ctx, f, sup)
    rep.check(ok, "C05.R1", fi.qual, "a file set containing a stub is refused before the merge starts", fi.loc(), construct="stub refusal before super().merge_files", message=f"IH5MFRecord.merge_files can merge a record that contains a stub (refusal missing or after super().merge_files{': ' + why if why else ''})")


def _is_stub_pred(P, ctx, f: "F", e: ast.AST, arg: str = None) -> bool:
    """e is a predicate `IH5UBExtManifest.get(x) is not None and IH5UBExtManifest.get(x).is_stub_container` (as lambda,
    nested function, or known helper name)"""
    if isinstance(e, ast.Lambda):
        a = e.args.args[0].arg if e.args.args else None
        return a is not None and M.equivalent(e.body, f"IH5UBExtManifest.get({a}) is not None and IH5UBExtManifest.get({a}).is_stub_container")
    if isinstance(e, ast.Name):
        nf = f.fi.nested.get(e.id) or f.fi.module.functions.get(e.id)
        if nf is None or not nf.params:
            return False
        nfv = F(ctx, nf)
        a = nf.params[0]
        rets = [v for _, v in nfv.returns() if v is not None]
        return len(rets) == 1 and M.equivalent(nfv.xe(rets[0]), f"IH5UBExtManifest.get({a}) is not None and IH5UBExtManifest.get({a}).is_stub_container")
    return False


def stub_refusal(P, ctx, f: "F", effects):
    """Every path to `effects` passed a refusal of file sets that contain a stub container (any / loop form)."""
    g = f.g
    if not effects:
        return False, "effect not found"
    # form (a): any(map(pred, self.ih5_meta)) / any(pred(x) for x in self.ih5_meta)
    edges = []
    for n in g.nodes:
        if n.kind != "test":
            continue
        e = f.xe(n.exprs[0])
        b = M.match("any(map(__p, self.ih5_meta))", e)
        if b is not None and _is_stub_pred(P, ctx, f, b["__p"]):
            edges.append((n.idx, "T"))
            continue
        if isinstance(e, ast.Call) and norm(e.func) == "any" and len(e.args) == 1 and isinstance(e.args[0], ast.GeneratorExp):
            ge = e.args[0]
            if len(ge.generators) == 1 and norm(ge.generators[0].iter) == "self.ih5_meta" and not ge.generators[0].ifs and isinstance(ge.generators[0].target, ast.Name):
                v = ge.generators[0].target.id
                el = ge.elt
                if M.equivalent(el, f"IH5UBExtManifest.get({v}) is not None and IH5UBExtManifest.get({v}).is_stub_container") or (isinstance(el, ast.Call) and len(el.args) == 1 and norm(el.args[0]) == v and _is_stub_pred(P, ctx, f, el.func)):
                    edges.append((n.idx, "T"))
    if edges:
        ok = f.refuses(edges) and not f.reaches(edges, effects) and f.all_hit_before(effects, nodes=f.test_nodes(edges))
        return ok, "" if ok else "the any(...) test does not refuse before the effect"
    # form (b): for u in self.ih5_meta: if <stub(u)>: raise
    for n in g.nodes:
        if n.kind == "for" and f.x(n.stmt.iter) == "self.ih5_meta" and isinstance(n.stmt.target, ast.Name):
            v = n.stmt.target.id
            has = f.tests(f"IH5UBExtManifest.get({v}) is not None")
            flag = f.tests(f"IH5UBExtManifest.get({v}).is_stub_container")
            if not has or not flag:
                continue
            r = f.refuses_when([[f"IH5UBExtManifest.get({v}) is not None"], [f"IH5UBExtManifest.get({v}).is_stub_container"]])
            # inside the loop: taking both true edges never comes back to the loop head or to the exit
            both_refuse = f.refuses(flag) or not f.reaches(flag, [n.idx, g.exit])
            skipping = any(isinstance(x, (ast.Break, ast.Continue)) for b_ in n.stmt.body for x in ast.walk(b_))
            ok = both_refuse and not skipping and f.all_hit_before(effects, nodes=[n.idx]) and not any(e in g.reach([b for b, l in g.succ[n.idx] if l == "iter"], avoid=[n.idx]) for e in effects)
            return ok, "" if ok else "the loop over self.ih5_meta does not refuse every stub before the effect"
    return False, "no test over self.ih5_meta found"


SELF_STATE = ("self._ublocks", "self.__files__", "self._manifest", "self._files", "self._closed", "self._allow_patching")


def r2_frame(P, rep, ctx):
    funcs = [P.func(f"{R}.merge_files"), P.func(f"{R}._fixes_after_merge"), P.func(f"{MF}._fixes_after_merge")] + ([P.func(f"{MF}.merge_files")] if f"{MF}.merge_files" in P.functions else [])
    for q in P.subclasses(R):
        for m in ("_fixes_after_merge", "merge_files"):
            f = P.classes[q].methods.get(m)
            if f is not None and f not in funcs:
                funcs.append(f)
    for fi in funcs:
        bad = []
        for st in walk_local(fi.node):
            if isinstance(st, ast.stmt):
                for kind, t in store_targets(st):
                    tt = norm(t)
                    if any(tt == s or tt.startswith(s + "[") or tt.startswith(s + ".") for s in SELF_STATE) or tt.startswith("self[") or tt.startswith("self.attrs["):
                        bad.append(st)
            if isinstance(st, ast.Call):
                rc = norm(call_recv(st)) if call_recv(st) is not None else ""
                nm = call_attr(st)
                if nm == "_set_ublock" and rc == "self":
                    bad.append(st)
                if nm in ("append", "pop", "clear", "remove", "insert", "update", "sort") and any(rc == s or rc.startswith(s + "[") for s in SELF_STATE):
                    bad.append(st)
                if nm in ("create_group", "create_dataset", "require_group", "require_dataset", "move", "copy", "commit_patch", "create_patch", "discard_patch", "close", "_delete_latest_container") and rc == "self":
                    bad.append(st)
        if not bad:
            rep.ok("C05.R2", fi.qual, "no store to / mutation of the source record's state", fi.loc())
        for b in bad:
            rep.fail("C05.R2", fi.qual, norm(b)[:120], f"merge modifies the still-open source record: {norm(b)[:100]} (ih5_meta / view of the source changes after a merge)", fi.loc(b))


def r2b_shared_subobjects(P, rep, ctx):
    """The merged user block is a *shallow* copy of the source's newest block: its nested dict of extensions is the
    source's own object.  Nothing in merge_files / the _fixes_after_merge hooks may modify that dict through the copy."""
    mfi = P.func(f"{R}.merge_files")
    mf = F(ctx, mfi)
    deep = any(norm(kwarg(c, "deep") or ast.Constant(value=None)) == "True" for i, c, b in mf.call_sites("self._ublock(-1).copy(___)"))
    hooks = [P.func(f"{R}._fixes_after_merge"), P.func(f"{MF}._fixes_after_merge")]
    for q in P.subclasses(R):
        h = P.classes[q].methods.get("_fixes_after_merge")
        if h is not None and h not in hooks:
            hooks.append(h)
    for fi in hooks + [mfi]:
        ubs = {fi.params[2]} if fi is not mfi and len(fi.params) > 2 else {sv.func.value.id for sv in local_calls(fi.node) if call_attr(sv) == "save" and isinstance(sv.func.value, ast.Name)}
        bad = []
        for x in walk_local(fi.node):
            if isinstance(x, ast.Call) and call_attr(x) == "update" and x.args and isinstance(x.args[0], ast.Name) and x.args[0].id in ubs and "IH5UBExt" in norm(x.func):
                bad.append(x)  # IH5UBExt*.update(ub) stores into ub.ub_exts
            if isinstance(x, ast.Call) and isinstance(x.func, ast.Attribute) and x.func.attr in ("update", "pop", "clear", "setdefault", "__setitem__") and any(norm(x.func.value) == f"{u}.ub_exts" for u in ubs):
                bad.append(x)
            if isinstance(x, (ast.Assign, ast.Delete, ast.AugAssign)):
                for kind, t in store_targets(x):
                    if isinstance(t, ast.Subscript) and any(norm(t.value) == f"{u}.ub_exts" for u in ubs):
                        bad.append(x)
        if not bad or deep:
            rep.ok("C05.R2", fi.qual, "the extensions dict shared with the source's user block is not modified through the merged copy", fi.loc())
        else:
            for b_ in bad:
                rep.fail("C05.R2", fi.qual, f"shared ub_exts modified: {norm(b_)[:80]}", f"{fi.qual} modifies the extension dict of the merged user block in place ({norm(b_)[:80]}); that block is a shallow copy, so the dict is the open source record's own: its ih5_meta changes by merging", fi.loc(b_))


def r3_identity(P, rep, ctx):
    fi = P.func(f"{R}.merge_files")
    g = ctx.cfg(fi)
    defs = local_defs(fi)
    saves = [c for c in local_calls(fi.node) if call_attr(c) == "save"]
    rep.check(len(saves) == 1 and isinstance(saves[0].func.value, ast.Name), "C05.R3", fi.qual, "exactly one user block is saved", fi.loc(), construct="save count", message=f"merge_files saves {len(saves)} user blocks")
    if len(saves) != 1:
        return
    ubv = saves[0].func.value.id
    ubdefs = [v for i_, v, b_ in F(ctx, fi).stores(ubv)]  # locals expanded (`latest = self._ublock(-1); ub = latest.copy(..)`)
    ok = False
    detail = [norm(d) for d in ubdefs]
    if len(ubdefs) == 1 and isinstance(ubdefs[0], ast.Call):
        d = ubdefs[0]
        if call_attr(d) == "copy" and norm(call_recv(d)) == "self._ublock(-1)":
            up = kwarg(d, "update")
            if isinstance(up, ast.Dict):
                keys = [k.value if isinstance(k, ast.Constant) else None for k in up.keys]
                vals = [norm(v) for v in up.values]
                ok = keys == ["prev_patch"] and vals == ["self._ublock(0).prev_patch"]
            elif up is None:
                ok = False
        elif norm(d.func) in ("IH5UserBlock", "type(self._ublock(-1))"):
            kws = {k.arg: norm(k.value) for k in d.keywords if k.arg}
            want = {f: f"self._ublock(-1).{f}" for f in UB_FIELDS}
            want["prev_patch"] = "self._ublock(0).prev_patch"
            ok = all(kws.get(f) == w for f, w in want.items() if f != "hdf5_hashsum") and set(kws) <= set(UB_FIELDS)
    rep.check(ok, "C05.R3", fi.qual, "merged block = newest source block with prev_patch of the oldest (no other field changed)", fi.loc(), construct=f"merged user block {detail}",
              message=f"the merged container's user block is not `_ublock(-1).copy(update={{'prev_patch': _ublock(0).prev_patch}})`: {detail} — it would not identify the same record at the same patch state")
    fstores = [st for st in walk_local(fi.node) if isinstance(st, ast.stmt) for k, t in store_targets(st) if norm(t).startswith(ubv + ".")]
    okf = all(any(norm(t) == f"{ubv}.hdf5_hashsum" for k, t in store_targets(st)) for st in fstores) and len(fstores) == 1
    rep.check(okf, "C05.R3", fi.qual, "only hdf5_hashsum of the merged block is assigned afterwards", fi.loc(), construct=f"field stores on {ubv}", message=f"merge_files overwrites further fields of the merged block: {[norm(s) for s in fstores]}")
    hs = [n.idx for n in g.nodes if any(call_attr(c) == "hashsum_file" for c in g.calls(n.idx))]
    withs = [n for n in g.nodes if n.kind == "with"]
    sv = [node_of(g, saves[0])]
    inside = [h for h in hs if any(any(x is g.nodes[h].stmt for b in w.stmt.body for x in ast.walk(b)) for w in withs)]
    rep.check(bool(hs) and not inside, "C05.R3", fi.qual, "payload hash is computed after the target record was closed (outside its with-block)", fi.loc(), construct="hash outside with-block",
              message="the merged payload is hashed while the target record is still open: the stored hash does not match the final file")
    for c in (c for n in hs for c in g.calls(n) if call_attr(c) == "hashsum_file"):
        sb = kwarg(c, "skip_bytes") or (c.args[1] if len(c.args) > 1 else None)
        rep.check(sb is not None and norm(sb) == "USER_BLOCK_SIZE" and c.args and norm(c.args[0]) == norm(saves[0].args[0]), "C05.R3", fi.qual, "hash covers the merged file's payload behind the user block", fi.loc(c), construct=norm(c),
                  message=f"merged payload hash is {norm(c)} (must hash the saved file with skip_bytes=USER_BLOCK_SIZE)")
    hstore = [n.idx for n in g.nodes if n.kind == "stmt" and any(norm(t) == f"{ubv}.hdf5_hashsum" for k, t in store_targets(n.stmt))]
    ok = bool(hs) and bool(hstore) and all(g.every_path_passes(hs, s) for s in hstore) and all(g.every_path_passes(hstore, s) for s in sv if s is not None)
    rep.check(ok, "C05.R3", fi.qual, "hash < store into merged block < save", fi.loc(), construct="hash/store/save order in merge_files", message="merge_files saves the merged user block before (or without) storing the payload hash")
    f3 = F(ctx, fi)
    fresh_ = {norm(it.optional_vars) for n_ in f3.g.nodes if n_.kind == "with" for it in n_.stmt.items if it.optional_vars is not None and isinstance(it.context_expr, ast.Call) and norm(it.context_expr.func) in ("cls", "type(self)", "self.__class__")}
    cf = [norm(v) for k, v in defs.get(norm(saves[0].args[0]), []) if v is not None]
    rep.check(len(cf) == 1 and cf[0] in {f"{d_}.ih5_files[0]" for d_ in fresh_}, "C05.R3", fi.qual, "the saved file is the (single) container of the fresh target record", fi.loc(), construct="saved file = container of the fresh record", message=f"the user block is saved into {cf}")
    rets = [norm(x.value) for x in walk_local(fi.node) if isinstance(x, ast.Return)]
    rep.check(rets == [norm(saves[0].args[0])], "C05.R3", fi.qual, "merge_files returns the merged container path", fi.loc(), construct="return", message=f"merge_files returns {rets}")
    hook = [n.idx for n in g.nodes if any(call_attr(c) == "_fixes_after_merge" for c in g.calls(n.idx))]
    rep.check(bool(hook) and all(g.every_path_passes(hook, s) for s in sv if s is not None), "C05.R3", fi.qual, "subclass hook runs before the block is saved", fi.loc(), construct="_fixes_after_merge before save", message="_fixes_after_merge is not called before the merged user block is saved")
    mf = F(ctx, P.func(f"{MF}._fixes_after_merge"))
    fp = mf.fi.params[1]
    saves2 = mf.calls(f"self.manifest.save(self._manifest_filepath({fp}))", f"self._manifest.save(self._manifest_filepath({fp}))")
    none = mf.tests("self._manifest is None", "not self._manifest")
    rep.check(bool(saves2) and bool(none) and mf.hit_before(mf.g.exit, nodes=saves2, edges=none), "C05.R3", mf.fi.qual, "the source's manifest is carried over to the merged container", mf.fi.loc(), construct="manifest carried over", message="IH5MFRecord._fixes_after_merge does not save the original manifest next to the merged container")


def r4b_rel_path(P, rep, ctx, rule="C05.R4"):
    """Paths of visited nodes are made relative by cutting the visiting node's path off the *front*, once: a result built
    with all-occurrence or character-set string operations misplaces nodes whose path repeats a segment."""
    fi = P.func("ih5.overlay.IH5Node._rel_path")
    f = F(ctx, fi)
    pp = fi.params[1]
    try:
        paths = f.value_paths()
    except ValueError as e:
        raise AnalysisError(f"{rule}: _rel_path: {e}")
    ok, shown = bool(paths), []
    for lits, v, n_ in paths:
        t = norm(v)
        shown.append(t)
        if t == pp:
            continue  # relative input is returned as is
        if isinstance(v, ast.Subscript) and norm(v.value) == pp and isinstance(v.slice, ast.Slice) and v.slice.lower is not None and v.slice.upper is None and v.slice.step is None:
            lo = norm(v.slice.lower)
            if "_gpath" in lo or lo == "1":
                continue  # a slice that starts behind the prefix
        if isinstance(v, ast.Call) and isinstance(v.func, ast.Attribute) and v.func.attr == "removeprefix" and norm(v.func.value) == pp:
            continue
        ok = False
    rep.check(ok, rule, fi.qual, "the node's own path is cut off the front of an absolute path (slice / removeprefix), nothing else is rewritten", fi.loc(), construct="_rel_path result",
              message=f"_rel_path builds its result as {shown}: replacing / stripping by value (str.replace, strip, split) also rewrites later occurrences of the same segment, so visited or copied nodes under repeated segment names (e.g. /data/raw/data/values) end up at the wrong relative path")


def r4_copy_coverage(P, rep, ctx):
    r4b_rel_path(P, rep, ctx)
    fi = P.func(f"{R}.merge_files")
    f = F(ctx, fi)
    g = f.g
    withs = [n for n in g.nodes if n.kind == "with"]
    fresh = {norm(i.optional_vars) for w in withs for i in w.stmt.items if i.optional_vars is not None and isinstance(i.context_expr, ast.Call) and norm(i.context_expr.func) in ("cls", "type(self)", "self.__class__")}
    copies = f.call_sites("h5_copy_from_to(__s[__k], __t, __k)")
    ok = bool(copies) and bool(fresh) and all(f.x(b["__s"]) == "self['/']" and any(f.x(b["__t"]) == f"{d}['/']" for d in fresh) for _, c, b in copies)
    rep.check(ok, "C05.R4", fi.qual, "source root is the overlay view of self, target root the fresh record", fi.loc(), construct="source/target roots", message="merge_files does not copy from self['/'] (overlay view) into ds['/']")
    fors = [n for n in g.nodes if n.kind == "for"]
    attr_loop = []
    for n in fors:
        st = n.stmt
        if f.x(st.iter) == "self['/'].attrs.items()" and isinstance(st.target, ast.Tuple) and len(st.target.elts) == 2:
            k, v = norm(st.target.elts[0]), norm(st.target.elts[1])
            if any(isinstance(b_, ast.Assign) and any(f.x(t) in {f"{d}['/'].attrs[{k}]" for d in fresh} for t in b_.targets) and norm(b_.value) == v for b_ in st.body) and not any(isinstance(x, (ast.Break, ast.Continue, ast.If)) for b_ in st.body for x in ast.walk(b_)):
                attr_loop.append(n)
    rep.check(len(attr_loop) == 1, "C05.R4", fi.qual, "root attributes are copied", fi.loc(), construct="root attribute copy", message="merge_files does not copy the root attributes")
    key_loop = []
    for n in fors:
        st = n.stmt
        if f.x(st.iter) in ("self['/'].keys()", "self['/']") and isinstance(st.target, ast.Name):
            body_ids = {id(x) for b_ in st.body for x in ast.walk(b_)}
            inl = [c for _, c, b in copies if norm(b["__k"]) == st.target.id and any(id(x) in body_ids for x in [c]) or any(norm(c) == norm(x) for b_ in st.body for x in ast.walk(b_) if isinstance(x, ast.Call))]
            if inl and not any(isinstance(x, (ast.Break, ast.Continue, ast.If)) for b_ in st.body for x in ast.walk(b_)):
                key_loop.append(n)
    rep.check(len(key_loop) == 1, "C05.R4", fi.qual, "every top-level entity is copied through the overlay", fi.loc(), construct="entity copy loop", message="merge_files does not copy every key of the source root with h5_copy_from_to")
    hfi = P.func(f"{O}.h5_copy_from_to")
    h = F(ctx, hfi)
    src, tg, tp = hfi.params[0], hfi.params[1], hfi.params[2]
    is_ds = h.tests(f"isinstance({src}, H5DatasetLike)")
    rep.check(bool(is_ds), "C05.R4", hfi.qual, "dispatch on dataset vs group", hfi.loc(), construct="kind dispatch", message="h5_copy_from_to lost its dataset/group dispatch")
    # the attribute-copy helper (if there is one) copies every attribute unless without_attrs
    ca = hfi.nested.get("copy_attrs")
    helper_ok = False
    if ca is not None:
        c = F(ctx, ca)
        s_, t_ = ca.params[0], ca.params[1]
        helper_ok = any(cs == s_ and ct == t_ for i, cs, ct in attr_copies(ctx, c, False)) and bool(c.tests(*WITHOUT))
    copies = attr_copies(ctx, h, helper_ok)
    rep.check(bool(copies) and (ca is None or helper_ok), "C05.R4", hfi.qual, "attributes are copied one by one unless without_attrs", hfi.loc(), construct="copy_attrs", message="copy_attrs does not copy every attribute (unless without_attrs)")
    if is_ds:
        ds_create = [i for i, c, b in h.call_sites(f"{tg}.create_dataset({tp}, data={src}[()])")]
        attrs_of_src = [i for i, cs, ct in copies if cs == src]
        ds_attrs = [i for i in attrs_of_src if h.hit_before(i, edges=is_ds)]
        ok = bool(ds_create) and bool(ds_attrs) and h.all_hit_before(ds_create, edges=is_ds) and all(h.hit_before(h.g.exit, nodes=ds_create, src_edge=e) for e in is_ds) and all(h.hit_before(h.g.exit, nodes=ds_attrs, edges=h.tests(*WITHOUT), src_edge=e) for e in is_ds) and all(h.hit_before(a, nodes=ds_create) for a in ds_attrs)
        rep.check(ok, "C05.R4", hfi.qual, "dataset branch: full value [()] and attributes", hfi.loc(), construct="dataset branch", message="dataset branch of h5_copy_from_to does not copy `source_node[()]` and the attributes")
        not_ds = h.neg(is_ds)
        gr_create = [i for i, c, b in h.call_sites(f"{tg}.create_group({tp})")]
        gr_attrs = [i for i in attrs_of_src if h.hit_before(i, edges=not_ds)]
        okg = bool(gr_create) and bool(gr_attrs) and h.all_hit_before(gr_create, edges=not_ds) and all(h.hit_before(h.g.exit, nodes=gr_create, src_edge=e) and h.hit_before(h.g.exit, nodes=gr_attrs, edges=h.tests(*WITHOUT), src_edge=e) for e in not_ds)
        # all descendants (unless shallow): listed by _list_children(source, shallow) (or given by the caller), each fed to the child copier
        lister = P.functions.get(f"{O}._list_children")
        lister_ok = False
        if lister is not None:
            lf = F(ctx, lister)
            a, sh = lister.params[0], lister.params[1]
            shallow_t = lf.tests(sh)
            # shallow: the immediate items -- returned as a list, or put into the returned accumulator
            imm = [i for i, v in lf.returns() if v is not None and lf.x(v) in (f"list({a}.items())", f"[*{a}.items()]")]
            imm += lf.calls(f"__r.extend({a}.items())", f"__r.extend(list({a}.items()))")
            deep = lf.calls(f"{a}.visititems(___)")
            nsh = lf.neg(shallow_t)
            lister_ok = (bool(shallow_t) and bool(imm) and bool(deep) and lf.all_hit_before(imm, edges=shallow_t) and lf.all_hit_before(deep, edges=nsh)
                         and all(lf.hit_before(lf.g.exit, nodes=imm, src_edge=e) for e in shallow_t) and all(lf.hit_before(lf.g.exit, nodes=deep, src_edge=e) for e in nsh)
                         and all(v is not None for i, v in lf.returns()))
            for _, c_, b_ in lf.call_sites(f"{a}.visititems(__cb)"):
                ps, body = callback_form(lf, c_.args[0])
                lister_ok = lister_ok and ps is not None and len(ps) == 2 and isinstance(body, ast.AST) and M.match(f"__r.append(({ps[0]}, {ps[1]}))", body) is not None
        listed = h.call_sites(f"_list_children({src}, __sh)")
        sh_ok = bool(listed) and all(h.x(b["__sh"]) in ("kwargs.pop('shallow', False)", "shallow") for _, c, b in listed)
        loops = []
        for n in h.g.nodes:
            if n.kind == "for" and isinstance(n.stmt.target, ast.Tuple) and len(n.stmt.target.elts) == 2 and not any(isinstance(x, (ast.Break, ast.Continue)) for b_ in n.stmt.body for x in ast.walk(b_)):
                itx = h.x(n.stmt.iter)
                if itx == "kwargs.pop('_src_children', None)" or "_list_children" in itx or (isinstance(n.stmt.iter, ast.Name) and ".attrs" not in itx):
                    loops.append(n)
        unit_ok = False
        for n in loops:
            nm, ch = norm(n.stmt.target.elts[0]), norm(n.stmt.target.elts[1])
            direct = [b_ for b_ in n.stmt.body if isinstance(b_, ast.Expr) and M.match(f"copy_children({nm}, {ch})", b_.value) is not None]
            cc = hfi.nested.get("copy_children")
            if direct and cc is not None:
                u = F(ctx, cc)
                unit_ok = _child_unit(u, cc.params[0], cc.params[1], None, attr_copies(ctx, u, helper_ok))
            else:
                unit_ok = _child_unit(h, nm, ch, n.idx, copies)
            if unit_ok:
                break
        ok = okg and lister_ok and sh_ok and bool(loops) and all(h.hit_before(h.g.exit, nodes=[l.idx for l in loops], src_edge=e) for e in not_ds)
        rep.check(ok, "C05.R4", hfi.qual, "group branch: group, attributes and (unless shallow) all descendants", hfi.loc(), construct="group branch", message="group branch of h5_copy_from_to does not create the group, copy its attributes and copy all descendants (immediate children when shallow)")
        rep.check(unit_ok, "C05.R4", hfi.qual, "children: datasets by full value, groups created, attributes copied for both", hfi.loc(), construct="copy_children", message="copy_children does not handle both kinds (dataset value [()], group) and attributes")


def callback_form(f: "F", e: ast.AST):
    """(parameter names, body expression or statement list) of a callback given as a lambda or as the name of a nested function"""
    if isinstance(e, ast.Lambda):
        return [a.arg for a in e.args.args], e.body
    if isinstance(e, ast.Name):
        nf = f.fi.nested.get(e.id)
        if nf is not None:
            body = [b for b in nf.node.body if not (isinstance(b, ast.Expr) and isinstance(b.value, ast.Constant))]
            if len(body) == 1 and isinstance(body[0], ast.Return) and body[0].value is not None:
                return nf.params, body[0].value
            if len(body) == 1 and isinstance(body[0], ast.Expr):
                return nf.params, body[0].value
            return nf.params, body
    return None, None


WITHOUT = ("without_attrs", "kwargs.pop('without_attrs', False)")


def attr_copies(ctx, u: "F", helper_ok: bool):
    """Places where the attributes of one node are copied to another: (node, source text, target text).  Either a call of the
    (separately verified) nested helper copy_attrs(S, T), or the inline form
        [if not without_attrs:] for k, v in S.attrs.items(): T.attrs[k] = v
    which must be guarded by, and only by, the without_attrs switch."""
    out = []
    if helper_ok:
        for i, c, b in u.call_sites("copy_attrs(__s, __t)"):
            out.append((i, u.x_at(i, b["__s"]), u.x_at(i, b["__t"])))
    g = u.g
    wo = u.tests(*WITHOUT)
    for n in g.nodes:
        if n.kind != "for" or not (isinstance(n.stmt.target, ast.Tuple) and len(n.stmt.target.elts) == 2):
            continue
        m = M.match("__s.attrs.items()", u.xe_at(n.idx, n.stmt.iter))
        if m is None:
            continue
        k, v = norm(n.stmt.target.elts[0]), norm(n.stmt.target.elts[1])
        sts = [(i, b) for i, val, b in u.stores(f"__t.attrs[{k}]") if norm(val) == v]
        sts = [(i, b) for i, b in sts if id(g.nodes[i].stmt) in {id(x) for b_ in n.stmt.body for x in ast.walk(b_)}]
        if not sts or any(isinstance(x, (ast.Break, ast.Continue, ast.If)) for b_ in n.stmt.body for x in ast.walk(b_)):
            continue
        if not u.hit_before(n.idx, nodes=[i for i, b in sts], src_edge=(n.idx, "iter")):
            continue
        # skipped only (and always) when without_attrs is set
        if wo and not u.hit_before(n.idx, edges=u.neg(wo)):
            continue
        out.append((n.idx, norm(m["__s"]), norm(sts[0][1]["__t"])))
    return out


def _child_unit(u: "F", nm: str, ch: str, loop: int, copies=None) -> bool:
    """Per child (name nm, node ch): dataset -> root[nm] = ch[()], else root.create_group(nm); attributes copied for both."""
    is_ds = u.tests(f"isinstance({ch}, H5DatasetLike)")
    if not is_ds:
        return False
    val = [(i, b) for i, v, b in u.stores(f"__r[{nm}]") if u.x(v) == f"{ch}[()]"] + [(i, b) for i, c, b in u.call_sites(f"__r.create_dataset({nm}, data={ch}[()])")]
    grp = [(i, b) for i, c, b in u.call_sites(f"__r.create_group({nm})")]
    att = [(i, b) for i, c, b in u.call_sites(f"copy_attrs({ch}, __r[{nm}])")]
    roots_extra = set()
    if not att and copies:
        for i, s_, t_ in copies:
            if s_ == ch and t_.endswith(f"[{nm}]"):
                att.append((i, {}))
                roots_extra.add(u.x(M.pat(t_[: -len(f"[{nm}]")])))
    if not (val and grp and att):
        return False
    roots = {u.x(b["__r"]) for i, b in val + grp + att if "__r" in b} | roots_extra
    end = loop if loop is not None else u.g.exit
    vi, gi, ai = [i for i, b in val], [i for i, b in grp], [i for i, b in att]
    return (len(roots) == 1 and u.all_hit_before(vi, edges=is_ds) and u.all_hit_before(gi, edges=u.neg(is_ds))
            and all(u.hit_before(end, nodes=vi, src_edge=e) for e in is_ds) and all(u.hit_before(end, nodes=gi, src_edge=e) for e in u.neg(is_ds))
            and all(u.hit_before(end, nodes=ai, edges=u.tests(*WITHOUT), src_edge=e) for e in is_ds + u.neg(is_ds)) and all(u.hit_before(a, nodes=vi + gi, src=(loop if loop is not None else None)) for a in ai))
