"""C05 — merge materialises the overlay view and continues the patch chain.

Decided: R1 refusals (uncommitted changes / stub) dominate every effect; R2 the source record is a frame of the merge
(nothing reachable from self is stored to); R3 the merged user block is the newest source block with prev_patch of the
oldest and the hash of the closed merged payload, computed after the target closed and before the single save;
R4 the copy covers root attributes, every top-level entity, both entity kinds, attributes and full values.
Not decided: tree equality merged == overlay view.
"""
from __future__ import annotations

import ast
from typing import List

from mdsa.astutil import call_attr, call_recv, kwarg, local_calls, norm, store_targets
from mdsa.cfg import walk_local
from mdsa.loader import AnalysisError

from .common import Ctx, local_defs, node_of

R = "ih5.record.IH5Record"
MF = "ih5.manifest.IH5MFRecord"
O = "ih5.overlay"
EXPLANATION = (
    "R1 DOM: in IH5Record.merge_files the `_has_writable -> raise` test and _expect_open precede the creation of the target record; in "
    "IH5MFRecord.merge_files the stub test precedes super().merge_files. R2 FRAME: merge_files and _fixes_after_merge (all subclasses) "
    "contain no store to self._ublocks / self.__files__ / self._manifest, no _set_ublock / append / pop on self, and no overlay write "
    "rooted at self. R3 def-use: the saved block is `_ublock(-1).copy(update={'prev_patch': _ublock(0).prev_patch})` (no other field "
    "overridden), its hdf5_hashsum is hashsum_file(cfile, skip_bytes=USER_BLOCK_SIZE) computed outside/after the with-block of the "
    "target and before the single ub.save(cfile). R4: root attributes and every key are copied; h5_copy_from_to has a dataset and a group "
    "branch, both copy attributes, groups recurse via visititems unless shallow, values are transferred with [()]."
)
NOT_DECIDED = "equality of the merged tree with the overlay view; behaviour of follow-up patches at run time"
UB_FIELDS = ["record_uuid", "patch_index", "patch_uuid", "prev_patch", "hdf5_hashsum", "ub_exts"]


def run(P, rep, tier):
    rep.explanation = EXPLANATION
    rep.not_decided = NOT_DECIDED
    rep.assumptions = ["pydantic v1 BaseModel.copy(update=...) returns a new object and leaves the source untouched", "leaving a `with record:` block closes (and commits) the target record"]
    ctx = Ctx(P)
    rep.attempt(r1_refusals, P, rep, ctx)
    rep.attempt(r2_frame, P, rep, ctx)
    rep.attempt(r3_identity, P, rep, ctx)
    rep.attempt(r4_copy_coverage, P, rep, ctx)
    from .c03 import r5_codec

    # merge re-labels an already committed target with a (possibly shorter) user block: the codec must terminate / cut at NUL
    rep.attempt(r5_codec, P, rep, ctx, "C05.R5")
    rep.floor("C05.R1", 3)
    rep.floor("C05.R2", 3)
    rep.floor("C05.R3", 6)
    rep.floor("C05.R4", 8)


def r1_refusals(P, rep, ctx):
    fi = P.func(f"{R}.merge_files")
    g = ctx.cfg(fi)
    withs = [n.idx for n in g.nodes if n.kind == "with"]
    if not withs:
        raise AnalysisError("C05.R1: target creation (with block) not found in merge_files")
    tests = [t.idx for t in g.nodes if t.kind == "test" and norm(t.exprs[0]) == "self._has_writable"]
    ok = bool(tests) and all(g.exit not in g.reach([b for b, l in g.succ[t] if l == "T"]) and not (set(withs) & g.reach([b for b, l in g.succ[t] if l == "T"])) for t in tests) and all(g.every_path_passes(tests, w) for w in withs)
    rep.check(ok, "C05.R1", fi.qual, "merge is refused while there are uncommitted changes, before the target is created", fi.loc(), construct="_has_writable refusal before target creation",
              message="merge_files can create the target although the source has an uncommitted patch (refusal missing or placed after the effect)")
    eo = [n.idx for n in g.nodes if any(call_attr(c) == "_expect_open" for c in g.calls(n.idx))]
    rep.check(bool(eo) and all(g.every_path_passes(eo, w) for w in withs), "C05.R1", fi.qual, "merge requires an open record", fi.loc(), construct="_expect_open before target creation", message="merge_files does not check _expect_open before creating the target")
    fi = P.func(f"{MF}.merge_files")
    g = ctx.cfg(fi)
    sup = [n.idx for n in g.nodes if any(call_attr(c) == "merge_files" and isinstance(c.func.value, ast.Call) and norm(c.func.value.func) == "super" for c in g.calls(n.idx))]
    tests = [t.idx for t in g.nodes if t.kind == "test" and norm(t.exprs[0]) == "any(map(is_stub, self.ih5_meta))"]
    ok = bool(sup) and bool(tests) and all(g.exit not in g.reach([b for b, l in g.succ[t] if l == "T"]) and not (set(sup) & g.reach([b for b, l in g.succ[t] if l == "T"])) for t in tests) and all(g.every_path_passes(tests, s) for s in sup)
    rep.check(ok, "C05.R1", fi.qual, "a file set containing a stub is refused before the merge starts", fi.loc(), construct="stub refusal before super().merge_files", message="IH5MFRecord.merge_files can merge a record that contains a stub (refusal missing or after super().merge_files)")
    st = fi.nested.get("is_stub")
    t = norm(st.node) if st else ""
    rep.check("ext = IH5UBExtManifest.get(x)" in t and "return ext is not None and ext.is_stub_container" in t, "C05.R1", fi.qual, "stub test reads the manifest extension flag of each user block", fi.loc(), construct="is_stub", message="is_stub does not test `ext is not None and ext.is_stub_container`")


SELF_STATE = ("self._ublocks", "self.__files__", "self._manifest", "self._files", "self._closed", "self._allow_patching")


def r2_frame(P, rep, ctx):
    funcs = [P.func(f"{R}.merge_files"), P.func(f"{R}._fixes_after_merge"), P.func(f"{MF}._fixes_after_merge"), P.func(f"{MF}.merge_files")]
    for q in P.subclasses(R):
        for m in ("_fixes_after_merge", "merge_files"):
            f = P.classes[q].methods.get(m)
            if f is not None and f not in funcs:
                funcs.append(f)
    for fi in funcs:
        bad = []
        for st in walk_local(fi.node):
            if isinstance(st, ast.stmt):
                for kind, t in store_targets(st):
                    tt = norm(t)
                    if any(tt == s or tt.startswith(s + "[") or tt.startswith(s + ".") for s in SELF_STATE) or tt.startswith("self[") or tt.startswith("self.attrs["):
                        bad.append(st)
            if isinstance(st, ast.Call):
                rc = norm(call_recv(st)) if call_recv(st) is not None else ""
                nm = call_attr(st)
                if nm == "_set_ublock" and rc == "self":
                    bad.append(st)
                if nm in ("append", "pop", "clear", "remove", "insert", "update", "sort") and any(rc == s or rc.startswith(s + "[") for s in SELF_STATE):
                    bad.append(st)
                if nm in ("create_group", "create_dataset", "require_group", "require_dataset", "move", "copy", "commit_patch", "create_patch", "discard_patch", "close", "_delete_latest_container") and rc == "self":
                    bad.append(st)
        if not bad:
            rep.ok("C05.R2", fi.qual, "no store to / mutation of the source record's state", fi.loc())
        for b in bad:
            rep.fail("C05.R2", fi.qual, norm(b)[:120], f"merge modifies the still-open source record: {norm(b)[:100]} (ih5_meta / view of the source changes after a merge)", fi.loc(b))


def r3_identity(P, rep, ctx):
    fi = P.func(f"{R}.merge_files")
    g = ctx.cfg(fi)
    defs = local_defs(fi)
    saves = [c for c in local_calls(fi.node) if call_attr(c) == "save"]
    rep.check(len(saves) == 1 and isinstance(saves[0].func.value, ast.Name), "C05.R3", fi.qual, "exactly one user block is saved", fi.loc(), construct="save count", message=f"merge_files saves {len(saves)} user blocks")
    if len(saves) != 1:
        return
    ubv = saves[0].func.value.id
    ubdefs = [v for k, v in defs.get(ubv, []) if v is not None]
    ok = False
    detail = [norm(d) for d in ubdefs]
    if len(ubdefs) == 1 and isinstance(ubdefs[0], ast.Call):
        d = ubdefs[0]
        if call_attr(d) == "copy" and norm(call_recv(d)) == "self._ublock(-1)":
            up = kwarg(d, "update")
            if isinstance(up, ast.Dict):
                keys = [k.value if isinstance(k, ast.Constant) else None for k in up.keys]
                vals = [norm(v) for v in up.values]
                ok = keys == ["prev_patch"] and vals == ["self._ublock(0).prev_patch"]
            elif up is None:
                ok = False
        elif norm(d.func) in ("IH5UserBlock", "type(self._ublock(-1))"):
            kws = {k.arg: norm(k.value) for k in d.keywords if k.arg}
            want = {f: f"self._ublock(-1).{f}" for f in UB_FIELDS}
            want["prev_patch"] = "self._ublock(0).prev_patch"
            ok = all(kws.get(f) == w for f, w in want.items() if f != "hdf5_hashsum") and set(kws) <= set(UB_FIELDS)
    rep.check(ok, "C05.R3", fi.qual, "merged block = newest source block with prev_patch of the oldest (no other field changed)", fi.loc(), construct=f"merged user block {detail}",
              message=f"the merged container's user block is not `_ublock(-1).copy(update={{'prev_patch': _ublock(0).prev_patch}})`: {detail} — it would not identify the same record at the same patch state")
    fstores = [st for st in walk_local(fi.node) if isinstance(st, ast.stmt) for k, t in store_targets(st) if norm(t).startswith(ubv + ".")]
    okf = all(any(norm(t) == f"{ubv}.hdf5_hashsum" for k, t in store_targets(st)) for st in fstores) and len(fstores) == 1
    rep.check(okf, "C05.R3", fi.qual, "only hdf5_hashsum of the merged block is assigned afterwards", fi.loc(), construct=f"field stores on {ubv}", message=f"merge_files overwrites further fields of the merged block: {[norm(s) for s in fstores]}")
    hs = [n.idx for n in g.nodes if any(call_attr(c) == "hashsum_file" for c in g.calls(n.idx))]
    withs = [n for n in g.nodes if n.kind == "with"]
    sv = [node_of(g, saves[0])]
    inside = [h for h in hs if any(any(x is g.nodes[h].stmt for b in w.stmt.body for x in ast.walk(b)) for w in withs)]
    rep.check(bool(hs) and not inside, "C05.R3", fi.qual, "payload hash is computed after the target record was closed (outside its with-block)", fi.loc(), construct="hash outside with-block",
              message="the merged payload is hashed while the target record is still open: the stored hash does not match the final file")
    for c in (c for n in hs for c in g.calls(n) if call_attr(c) == "hashsum_file"):
        sb = kwarg(c, "skip_bytes") or (c.args[1] if len(c.args) > 1 else None)
        rep.check(sb is not None and norm(sb) == "USER_BLOCK_SIZE" and c.args and norm(c.args[0]) == norm(saves[0].args[0]), "C05.R3", fi.qual, "hash covers the merged file's payload behind the user block", fi.loc(c), construct=norm(c),
                  message=f"merged payload hash is {norm(c)} (must hash the saved file with skip_bytes=USER_BLOCK_SIZE)")
    hstore = [n.idx for n in g.nodes if n.kind == "stmt" and any(norm(t) == f"{ubv}.hdf5_hashsum" for k, t in store_targets(n.stmt))]
    ok = bool(hs) and bool(hstore) and all(g.every_path_passes(hs, s) for s in hstore) and all(g.every_path_passes(hstore, s) for s in sv if s is not None)
    rep.check(ok, "C05.R3", fi.qual, "hash < store into merged block < save", fi.loc(), construct="hash/store/save order in merge_files", message="merge_files saves the merged user block before (or without) storing the payload hash")
    cf = [norm(v) for k, v in defs.get(norm(saves[0].args[0]), []) if v is not None]
    rep.check(cf == ["ds.ih5_files[0]"], "C05.R3", fi.qual, "the saved file is the (single) container of the fresh target record", fi.loc(), construct=f"cfile = {cf}", message=f"the user block is saved into {cf}")
    rets = [norm(x.value) for x in walk_local(fi.node) if isinstance(x, ast.Return)]
    rep.check(rets == [norm(saves[0].args[0])], "C05.R3", fi.qual, "merge_files returns the merged container path", fi.loc(), construct="return", message=f"merge_files returns {rets}")
    hook = [n.idx for n in g.nodes if any(call_attr(c) == "_fixes_after_merge" for c in g.calls(n.idx))]
    rep.check(bool(hook) and all(g.every_path_passes(hook, s) for s in sv if s is not None), "C05.R3", fi.qual, "subclass hook runs before the block is saved", fi.loc(), construct="_fixes_after_merge before save", message="_fixes_after_merge is not called before the merged user block is saved")
    mf = P.func(f"{MF}._fixes_after_merge")
    t = norm(mf.node)
    rep.check("self.manifest.save(self._manifest_filepath(file))" in t and "if self._manifest is not None" in t, "C05.R3", mf.qual, "the source's manifest is carried over to the merged container", mf.loc(), construct="manifest carried over", message="IH5MFRecord._fixes_after_merge does not save the original manifest next to the merged container")


def r4_copy_coverage(P, rep, ctx):
    fi = P.func(f"{R}.merge_files")
    defs = local_defs(fi)
    rep.check([norm(v) for k, v in defs.get("source_node", []) if v is not None] == ["self['/']"] and [norm(v) for k, v in defs.get("target_node", []) if v is not None] == ["ds['/']"], "C05.R4", fi.qual,
              "source root is the overlay view of self, target root the fresh record", fi.loc(), construct="source/target roots", message="merge_files does not copy from self['/'] (overlay view) into ds['/']")
    fors = [x for x in walk_local(fi.node) if isinstance(x, ast.For)]
    attr_loop = [f for f in fors if norm(f.iter) == "source_node.attrs.items()" and any(norm(b) == f"target_node.attrs[{norm(f.target.elts[0])}] = {norm(f.target.elts[1])}" for b in f.body if isinstance(f.target, ast.Tuple))]
    rep.check(len(attr_loop) == 1, "C05.R4", fi.qual, "root attributes are copied", fi.loc(), construct="root attribute copy", message="merge_files does not copy the root attributes")
    key_loop = [f for f in fors if norm(f.iter) in ("source_node.keys()", "source_node") and any(isinstance(b, ast.Expr) and norm(b.value) == f"h5_copy_from_to(source_node[{norm(f.target)}], target_node, {norm(f.target)})" for b in f.body)]
    rep.check(len(key_loop) == 1 and not any(isinstance(x, (ast.Break, ast.Continue, ast.If)) for x in ast.walk(key_loop[0])) if key_loop else False, "C05.R4", fi.qual, "every top-level entity is copied through the overlay", fi.loc(), construct="entity copy loop", message="merge_files does not copy every key of the source root with h5_copy_from_to")
    h = P.func(f"{O}.h5_copy_from_to")
    g = ctx.cfg(h)
    tests = [t for t in g.nodes if t.kind == "test" and norm(t.exprs[0]) == "isinstance(source_node, H5DatasetLike)"]
    rep.check(len(tests) == 1, "C05.R4", h.qual, "dispatch on dataset vs group", h.loc(), construct="kind dispatch", message="h5_copy_from_to lost its dataset/group dispatch")
    if len(tests) == 1:
        t = tests[0]
        tb = g.reach([b for b, l in g.succ[t.idx] if l == "T"]) | {b for b, l in g.succ[t.idx] if l == "T"}
        fb = g.reach([b for b, l in g.succ[t.idx] if l == "F"]) | {b for b, l in g.succ[t.idx] if l == "F"}
        ds_create = [n for n in tb if any(call_attr(c) == "create_dataset" and norm(kwarg(c, "data") or ast.Constant(value=None)) == "source_node[()]" for c in g.calls(n))]
        ds_attrs = [n for n in tb if any(norm(c.func) == "copy_attrs" and norm(c.args[0]) == "source_node" for c in g.calls(n))]
        rep.check(bool(ds_create) and bool(ds_attrs), "C05.R4", h.qual, "dataset branch: full value [()] and attributes", h.loc(), construct="dataset branch", message="dataset branch of h5_copy_from_to does not copy `source_node[()]` and the attributes")
        gr_create = [n for n in fb if any(call_attr(c) == "create_group" for c in g.calls(n))]
        gr_attrs = [n for n in fb if any(norm(c.func) == "copy_attrs" and norm(c.args[0]) == "source_node" for c in g.calls(n))]
        # all descendants (unless shallow) reach copy_children: either visited directly with copy_children as callback,
        # or listed first (helper / snapshot) and then fed to copy_children one by one
        direct = [n for n in fb if any(call_attr(c) == "visititems" and norm(c.func.value) == "source_node" and c.args and norm(c.args[0]) == "copy_children" for c in g.calls(n))]
        sh = [tt for tt in g.nodes if tt.kind == "test" and norm(tt.exprs[0]) == "shallow"]
        ok_direct = bool(direct) and bool(sh) and all(g.edge_dominates(s.idx, "F", r) for s in sh for r in direct)
        lister = P.functions.get(f"{O}._list_children")
        ok_listed = False
        if lister is not None:
            lt = norm(lister.node)
            lister_ok = "if shallow: return list(source_node.items())" in lt.replace("\n", " ") and "source_node.visititems(lambda name, child: ret.append((name, child)))" in lt and "return ret" in lt
            listed = [n for n in fb if any(norm(c.func) == "_list_children" and [norm(a) for a in c.args] == ["source_node", "shallow"] for c in g.calls(n))]
            loops = [n for n in fb if g.nodes[n].kind == "for" and norm(g.nodes[n].stmt.iter) == "src_children" and any(isinstance(b, ast.Expr) and norm(b.value) == f"copy_children({', '.join(norm(e) for e in g.nodes[n].stmt.target.elts)})" for b in g.nodes[n].stmt.body if isinstance(g.nodes[n].stmt.target, ast.Tuple))]
            ok_listed = lister_ok and bool(listed) and bool(loops)
        ok = bool(gr_create) and bool(gr_attrs) and (ok_direct or ok_listed)
        rep.check(ok, "C05.R4", h.qual, "group branch: group, attributes and (unless shallow) all descendants", h.loc(), construct="group branch", message="group branch of h5_copy_from_to does not create the group, copy its attributes and copy all descendants (immediate children when shallow)")
    cc = h.nested.get("copy_children")
    t = norm(cc.node) if cc else ""
    ok = "isinstance(src_child, H5DatasetLike)" in t and "trg_root[name] = src_child[()]" in t and "trg_root.create_group(name)" in t and "copy_attrs(src_child, trg_root[name])" in t
    rep.check(ok, "C05.R4", h.qual, "children: datasets by full value, groups created, attributes copied for both", h.loc(), construct="copy_children", message="copy_children does not handle both kinds (dataset value [()], group) and attributes")
    ca = h.nested.get("copy_attrs")
    t = norm(ca.node) if ca else ""
    ok = "if not without_attrs" in t and "for k, v in src_node.attrs.items()" in t and "trg_atrs[k] = v" in t
    rep.check(ok, "C05.R4", h.qual, "attributes are copied one by one unless without_attrs", h.loc(), construct="copy_attrs", message="copy_attrs does not copy every attribute (unless without_attrs)")
