"""C10 — Patches built on a stub apply to the real record with the same result.

Decided: R1 stubs carry no data and cover every skeleton entry (nodes and attribute names); R2 stub identity
(user block of the real newest container, prev_patch reset, manifest link of the given manifest); R3 only create_stub
may mark a container as stub; R4 stub only as base, merge refused; R5 the manifest written at commit is the object whose
bytes were hashed into the user block, extensions are inherited before hashing, manifest path derives from the newest
container.  Not decided: equivalence of 'via stub' and 'direct' executions (runtime).
"""
from __future__ import annotations

import ast

from mdsa.astutil import call_attr, kwarg, local_calls, norm, store_targets
from mdsa.cfg import walk_local
from mdsa.loader import AnalysisError

from mdsa import match as MM

from .common import Ctx, local_defs, node_of
from .sem import F

M = "ih5.manifest"
S = "ih5.skeleton"
MF = f"{M}.IH5MFRecord"
EXPLANATION = (
    "R1 def-use/MUST: in init_stub_skeleton every value stored into the stub is the literal h5py.Empty(None) and on every iteration over "
    "the skeleton the attribute placeholders of that entry are written (no continue/skip before the attribute loop); the skeleton itself "
    "records every node (root + visititems) with its attribute names. R2: create_stub copies the manifest's user block, links the given "
    "manifest (uuid + hash of the file) and init_stub_base resets only prev_patch. R3 OWN: the literal True for is_stub_container / "
    "__is_stub__ occurs only in create_stub, commit_patch defaults it to False. R4: a stub-marked block with a predecessor is rejected "
    "(assert: weak under -O, reported as info), merge is refused (C05.R1). R5 ORDER/AGREE: in IH5MFRecord.commit_patch the object passed "
    "to bytes() for the hash is the object later saved (save writes bytes(self)), no store to it between hash and save, its uuid is the "
    "recorded one, manifest_exts are inherited / overridden before hashing, the user block is restored on a failed commit."
)
NOT_DECIDED = "the patched real record equals the result of the direct update; skeleton equality at run time"


def _carries_param(e, prm):
    """does the expression evaluate to the parameter when the parameter is a non-empty value?  True / False / None (unknown)"""
    if isinstance(e, ast.Name):
        return True if e.id == prm else None
    if isinstance(e, ast.BoolOp) and e.values and isinstance(e.values[0], ast.Name) and e.values[0].id == prm:
        if isinstance(e.op, ast.Or):
            return True
        return _lit_or(e.values[-1], prm)
    if isinstance(e, ast.IfExp):
        t = norm(e.test)
        if t in (f"{prm} is None", f"not {prm}"):
            return _lit_or(e.orelse, prm)
        if t in (f"{prm} is not None", prm):
            return _lit_or(e.body, prm)
        return None
    return _lit_or(e, prm) if isinstance(e, (ast.Dict, ast.Constant, ast.List, ast.Tuple, ast.Set)) else None


def _lit_or(e, prm):
    if isinstance(e, (ast.Dict, ast.Constant, ast.List, ast.Tuple, ast.Set)) and not any(isinstance(x, ast.Name) and x.id == prm for x in ast.walk(e)):
        return False
    return _carries_param(e, prm)


def run(P, rep, tier):
    rep.explanation = EXPLANATION
    rep.not_decided = NOT_DECIDED
    rep.assumptions = ["h5py.Empty(None) carries no data", "asserts are active (python without -O)"]
    ctx = Ctx(P)
    rep.attempt(r1_no_data, P, rep, ctx)
    rep.attempt(r2_identity, P, rep, ctx)
    rep.attempt(r3_stub_owner, P, rep, ctx)
    rep.attempt(r4_stub_base_only, P, rep, ctx)
    rep.attempt(r5_manifest_hash, P, rep, ctx)
    from . import c11

    # after every *successful* commit the manifest on disk matches: it is written only after the container commit succeeded
    rep.attempt(c11.r2_manifest_after_commit, P, rep, ctx, "C10.R5")
    # "the manifest on disk matches the hash recorded in its container": verified whenever the record is opened
    # (subclass rule of C04.R3)
    from . import c04

    rep.attempt(c04.r3_subclass, P, rep, ctx)
    # the skeleton lists what the overlay view shows: no raw container access in skeleton / manifest code (C01.R12)
    from . import c01

    rep.attempt(c01.r12_raw_containers_stay_inside, P, rep, ctx)
    # "accepted as the next patch of the real record": the patch written on the stub must carry the file name the real record
    # gives its next patch (name language of C03.R3)
    from . import c03 as _c03

    rep.attempt(_c03.r3_name_language, P, rep, ctx)
    # deleting / replacing a record's files touches that record's files only (sink ownership and provenance of C02.R1 / R2)
    from . import c02 as _c02

    rep.attempt(_c02.r1_sinks, P, rep, ctx, False)
    rep.attempt(_c02.r2_provenance, P, rep, ctx)
    rep.floor("C10.R1", 6)
    rep.floor("C10.R2", 5)
    rep.floor("C10.R3", 3)
    rep.floor("C10.R5", 8)
    # refinement against the pinned tree for every function the rules above looked at (rules/pinned.py)
    import os as _os

    if not _os.environ.get("MDSA_PINNED_GEN"):
        from .pinned import refine

        refine(P, rep, ctx, "C10")


def _cond_literal_edges(f, literals):
    out = []
    for l in literals:
        out += f.tests(l)
    return out


def r1_no_data(P, rep, ctx):
    fi = P.func(f"{S}.init_stub_skeleton")
    f = F(ctx, fi)
    g = f.g
    ds, sk = fi.params[0], fi.params[1]
    stores = [(n, t) for n in g.nodes if n.kind == "stmt" and isinstance(n.stmt, ast.Assign) for t in n.stmt.targets if isinstance(t, ast.Subscript)]
    if len(stores) < 2:
        raise AnalysisError("C10.R1: placeholder stores not found in init_stub_skeleton")
    for n, t in stores:
        rep.check(norm(n.stmt.value) == "h5py.Empty(None)", "C10.R1", fi.qual, f"placeholder stored at {norm(t)} is h5py.Empty(None)", fi.loc(n.stmt), construct=f"placeholder value {norm(n.stmt.value)}", message=f"init_stub_skeleton stores `{norm(n.stmt.value)}` into the stub: stubs must not carry data")
    outer = [n for n in g.nodes if n.kind == "for" and f.x(n.stmt.iter) == f"{sk}.__root__.items()" and isinstance(n.stmt.target, ast.Tuple) and len(n.stmt.target.elts) == 2]
    ok = len(outer) == 1
    kv = vv = None
    inner = []
    if ok:
        kv, vv = norm(outer[0].stmt.target.elts[0]), norm(outer[0].stmt.target.elts[1])
        inner = [n for n in g.nodes if n.kind == "for" and f.x(n.stmt.iter) in (f"{vv}.attrs.keys()", f"{vv}.attrs", f"list({vv}.attrs)", f"{vv}.attrs.items()")]
        # (an entry without attributes may skip the loop: the skip must be taken only when the iterated collection is empty)
        no_attrs = f.neg(f.tests(f"{vv}.attrs", f"len({vv}.attrs)", f"{vv}.attrs.keys()", f"len({vv}.attrs.keys())"))
        ok = len(inner) == 1 and f.hit_before(outer[0].idx, nodes=[inner[0].idx], edges=no_attrs, src_edge=(outer[0].idx, "iter")) and f.hit_before(g.exit, nodes=[outer[0].idx])
    rep.check(ok, "C10.R1", fi.qual, "for every skeleton entry the attribute placeholders are written (no skip before the attribute loop)", fi.loc(), construct="attribute loop on every iteration",
              message="init_stub_skeleton can skip the attribute placeholders of a skeleton entry (e.g. `continue` for an existing group such as the root): the stub lacks attribute names the real record has")
    if kv is None or not inner:
        raise AnalysisError("C10.R1: skeleton loops of init_stub_skeleton not recognised")
    av = norm(inner[0].stmt.target) if isinstance(inner[0].stmt.target, ast.Name) else norm(inner[0].stmt.target.elts[0])
    a_idx = {i for i, v_, b_ in f.stores(f"{ds}[{kv}].attrs[{av}]")}
    astore = [n for n, t in stores if norm(t) == f"{ds}[{kv}].attrs[{av}]" or n.idx in a_idx]
    rep.check(bool(astore) and f.hit_before(inner[0].idx, nodes=[n.idx for n in astore], src_edge=(inner[0].idx, "iter")), "C10.R1", fi.qual, "attribute placeholders are stored under the entry's own path and attribute name", fi.loc(), construct="attribute placeholder target", message="attribute placeholders are not stored at ds[k].attrs[a]")
    gt = f.tests(f"{vv}.node_type == H5Type.group")
    dt = f.tests(f"{vv}.node_type == H5Type.dataset")
    cg = f.calls(f"{ds}.create_group({kv})", f"{ds}.require_group({kv})")
    dsn = [n.idx for n, t in stores if norm(t) == f"{ds}[{kv}]"]
    ok = bool(gt) and bool(dt) and bool(cg) and bool(dsn) and f.all_hit_before(cg, edges=gt) and f.all_hit_before(dsn, edges=dt) and f.hit_before(outer[0].idx, nodes=dsn, edges=f.neg(dt) + gt, src_edge=(outer[0].idx, "iter"))
    # a group entry is created unless it exists already
    present = f.tests(f"{kv} in {ds}")
    # (asked per iteration: every way round the loop creates the group, finds it present, or is not a group entry)
    ok = ok and f.hit_before(outer[0].idx, nodes=cg, edges=present + f.neg(gt), src_edge=(outer[0].idx, "iter"))
    rep.check(ok, "C10.R1", fi.qual, "groups become groups and datasets become (empty) datasets", fi.loc(), construct="node kinds", message="init_stub_skeleton does not create groups for group entries and empty datasets for dataset entries")
    r1 = f.refuses(f.tests(f"len({ds})"))
    r2 = f.refuses(f.tests(f"len({ds}.attrs)"))
    writes = cg + dsn + [n.idx for n in astore]
    rep.check(r1 and r2 and f.all_hit_before(writes, nodes=f.test_nodes(f.tests(f"len({ds})"))) and f.all_hit_before(writes, nodes=f.test_nodes(f.tests(f"len({ds}.attrs)"))), "C10.R1", fi.qual, "a non-empty target is refused", fi.loc(), construct="empty target", message="init_stub_skeleton accepts a non-empty container")
    frfi = P.func(f"{S}.IH5Skeleton.for_record")
    fr = F(ctx, frfi)
    rec = frfi.params[1]
    rets = [v for _, v in fr.returns() if v is not None]
    acc = None
    for v in rets:
        m = MM.match("cls(__root__=__s)", v)
        if m is not None and isinstance(m["__s"], ast.Name):
            acc = m["__s"].id
    okf = acc is not None
    if okf:
        init = [d for k, d in local_defs(frfi).get(acc, []) if d is not None]
        okf = len(init) == 1 and norm(init[0]) == f"{{'/': SkeletonNodeInfo.for_node({rec}['/'])}}"
        cb = [c.args[0] for i, c, b in fr.call_sites(f"{rec}.visititems(__cb)")]
        okf = okf and len(cb) == 1 and isinstance(cb[0], ast.Name) and cb[0].id in frfi.nested
        if okf:
            nf = frfi.nested[cb[0].id]
            nff = F(ctx, nf)
            npar = nf.params[1]
            st = [(i, v, b) for i, v, b in nff.stores(f"{acc}[{npar}.name]")]
            okf = bool(st) and all(norm(v) == f"SkeletonNodeInfo.for_node({npar})" for i, v, b in st) and nff.hit_before(nff.g.exit, nodes=[i for i, v, b in st])
            okf = okf and fr.hit_before(fr.g.exit, nodes=[i for i, c, b in fr.call_sites(f"{rec}.visititems(__cb)")])
    rep.check(okf, "C10.R1", frfi.qual, "the skeleton lists the root and every node below it", frfi.loc(), construct="for_record", message="IH5Skeleton.for_record does not record the root and all visited nodes")
    fnfi = P.func(f"{S}.SkeletonNodeInfo.for_node")
    fn = F(ctx, fnfi)
    nd = fnfi.params[1]
    okn = bool(fn.tests(f"isinstance({nd}, IH5Dataset)", f"isinstance({nd}, IH5Group)"))
    # the same decision written as a conditional expression
    okn = okn or any(isinstance(x, ast.IfExp) and MM.match(f"isinstance({nd}, __t)", MM.polarity(x.test)[0]) is not None and {norm(x.body), norm(x.orelse)} == {"H5Type.dataset", "H5Type.group"} for x in ast.walk(fnfi.node))
    comp = [x for x in ast.walk(fnfi.node) if isinstance(x, ast.DictComp) and len(x.generators) == 1 and fn.x(x.generators[0].iter) in (f"{nd}.attrs.keys()", f"{nd}.attrs") and not x.generators[0].ifs and norm(x.key) == norm(x.generators[0].target)]
    loops = [n for n in fn.g.nodes if n.kind == "for" and fn.x(n.stmt.iter) in (f"{nd}.attrs.keys()", f"{nd}.attrs")]
    rep.check(okn and (bool(comp) or bool(loops)), "C10.R1", fnfi.qual, "each node records its kind and all attribute names", fnfi.loc(), construct="for_node", message="SkeletonNodeInfo.for_node does not record node kind and all attribute names")


def r2_identity(P, rep, ctx):
    fi = P.func(f"{MF}.create_stub")
    f = F(ctx, fi)
    g = f.g
    mfile = fi.params[2]
    # the manifest is the given file, parsed from the file or from the bytes read from it; its hash is the hash of the same file
    # / the same bytes
    BYTES = [f"Path({mfile}).read_bytes()", f"{mfile}.read_bytes()", f"open({mfile}, 'rb').read()"]
    MANS = {f"IH5Manifest.parse_file({mfile})": [f"hashsum_file({mfile})", f"file_hashsum({mfile})"]}
    for b_ in BYTES:
        MANS[f"IH5Manifest.parse_raw({b_})"] = [f"qualified_hashsum({b_})", f"hashsum_file({mfile})", f"file_hashsum({mfile})"]
    isb = f.call_sites("init_stub_base(__d, __u, __s)")
    MAN = f"IH5Manifest.parse_file({mfile})"
    for i, c, b in isb:
        u = f.x_at(i, b["__u"])
        for m_ in MANS:
            if u == f"{m_}.user_block.copy()":
                MAN = m_
    upd = f.call_sites("__e.update(__u)")
    commits = f.call_sites("__d.commit_patch(__is_stub__=True)")
    ok = bool(isb) and all(f.x_at(i, b["__u"]) == f"{MAN}.user_block.copy()" for i, c, b in isb)
    rep.check(ok, "C10.R2", fi.qual, "the stub's user block is a copy of the real newest container's block (from the manifest)", fi.loc(), construct="stub user block", message="create_stub does not start from manifest.user_block.copy()")
    ok = False
    for i, c, b in upd:
        e = f.xe_at(i, b["__e"])
        if isinstance(e, ast.Call) and norm(e.func) == "IH5UBExtManifest":
            kws = {k.arg: f.x_at(i, k.value) for k in e.keywords}
            if kws == {"is_stub_container": "True", "manifest_uuid": f"{MAN}.manifest_uuid", "manifest_hashsum": kws.get("manifest_hashsum")} and kws.get("manifest_hashsum") in MANS[MAN] and f.x_at(i, b["__u"]) == f"{MAN}.user_block.copy()":
                ok = True
    rep.check(ok, "C10.R2", fi.qual, "the stub links the given manifest by uuid and by the hash of the manifest file", fi.loc(), construct="stub manifest link", message="create_stub does not link the manifest by manifest_uuid and hashsum_file(manifest_file)")
    u_nodes, b_nodes, c_nodes = [i for i, c, b in upd], [i for i, c, b in isb], [i for i, c, b in commits]
    same_ds = bool(isb) and bool(commits) and {norm(b["__d"]) for i, c, b in isb} == {norm(b["__d"]) for i, c, b in commits}
    ok = all((u_nodes, b_nodes, c_nodes)) and same_ds and f.all_hit_before(b_nodes, nodes=u_nodes) and f.all_hit_before(c_nodes, nodes=b_nodes) and f.hit_before(g.exit, nodes=c_nodes)
    rep.check(ok, "C10.R2", fi.qual, "extension attached < stub structure + block installed < committed as stub", fi.loc(), construct="create_stub order", message="create_stub does not (attach ext, init_stub_base, commit as stub) in this order on every path")
    rep.check(bool(isb) and all(f.x_at(i, b["__s"]) == f"{MAN}.skeleton" for i, c, b in isb), "C10.R2", fi.qual, "structure comes from the manifest's skeleton", fi.loc(), construct="skeleton source", message="create_stub does not use the skeleton of the given manifest file")
    ibfi = P.func(f"{S}.init_stub_base")
    ib = F(ctx, ibfi)
    tg, sub, ssk = ibfi.params[0], ibfi.params[1], ibfi.params[2]
    sets = ib.call_sites(f"{tg}._set_ublock(__i, __u)")
    sk = ib.calls(f"init_stub_skeleton({tg}, {ssk})")
    ok = len(sets) == 1 and bool(sk)
    if ok:
        i0, c0, b0 = sets[0]
        a1 = ib.xe_at(i0, b0["__u"])
        up = kwarg(a1, "update") if isinstance(a1, ast.Call) and norm(a1.func) == f"{sub}.copy" else None
        keys = {k.value: norm(v) for k, v in zip(up.keys, up.values)} if isinstance(up, ast.Dict) and all(isinstance(k, ast.Constant) for k in up.keys) else None
        # identity fields (record_uuid, patch_uuid, patch_index) must be kept; only the predecessor link and the
        # (recomputed at commit) payload hash may be reset
        ok = norm(b0["__i"]) == "-1" and keys is not None and keys.get("prev_patch") == "None" and set(keys) <= {"prev_patch", "hdf5_hashsum"} and all(v == "None" for v in keys.values())
    rep.check(ok, "C10.R2", ibfi.qual, "the stub keeps record uuid / patch uuid / patch index of the real newest container and only drops prev_patch", ibfi.loc(), construct="init_stub_base", message="init_stub_base does not install src_ub.copy(update={'prev_patch': None}) (identity of the stub differs from the real newest container)")
    crfi = P.func("ih5.record.IH5UserBlock.create")
    cr = F(ctx, crfi)
    pv = crfi.params[1]
    # path-sensitive, in statement or conditional-expression form: the fields of the returned block in both cases
    KEY = f"{pv} is None"

    class Pick(ast.NodeTransformer):
        def __init__(self, truth):
            self.truth = truth

        def visit_IfExp(self, node):
            a_, neg = MM.polarity(node.test)
            if norm(a_) == KEY:
                return self.visit(node.body if (self.truth != neg) else node.orelse)
            return self.generic_visit(node)

    try:
        cpaths = cr.value_paths()
    except ValueError as e:
        raise AnalysisError(f"C10.R2: IH5UserBlock.create: {e}")
    okc = bool(cpaths)
    seen_cases = set()
    for lits, v, n_ in cpaths:
        fixed = [tv for k, tv in lits if k == KEY]
        for truth in ([fixed[0]] if fixed else [True, False]):
            import copy as _copy

            call = Pick(truth).visit(_copy.deepcopy(v))
            if not (isinstance(call, ast.Call) and norm(call.func) in ("cls", "IH5UserBlock")):
                okc = False
                continue
            kws = {k.arg: norm(k.value) for k in call.keywords}
            want = {"prev_patch": "None", "patch_index": "0", "record_uuid": "uuid1()"} if truth else {"prev_patch": f"{pv}.patch_uuid", "patch_index": f"{pv}.patch_index + 1", "record_uuid": f"{pv}.record_uuid"}
            okc = okc and all(kws.get(k) == w for k, w in want.items())
            seen_cases.add(truth)
    okc = okc and seen_cases == {True, False}
    rep.check(okc, "C10.R2", crfi.qual,
              "a patch on the stub links to the stub's (= real newest) patch uuid with the next index", crfi.loc(), construct="IH5UserBlock.create", message="IH5UserBlock.create does not link a new patch to prev.patch_uuid / index+1 / same record uuid")


def r3_stub_owner(P, rep, ctx):
    n = 0
    for fi in P.functions.values():
        for c in local_calls(fi.node):
            for k in c.keywords:
                if k.arg in ("is_stub_container", "__is_stub__") and isinstance(k.value, ast.Constant) and k.value.value is True:
                    n += 1
                    rep.check(fi.qual == f"{MF}.create_stub", "C10.R3", fi.qual, f"{k.arg}=True only in create_stub", fi.loc(c), construct=norm(c)[:100], message=f"{fi.qual} marks a container as stub ({k.arg}=True): only create_stub may")
    if n < 2:
        raise AnalysisError("C10.R3: stub markings not found in create_stub")
    cpfi = P.func(f"{MF}.commit_patch")
    cp = F(ctx, cpfi)
    pops = sorted({cp.x(c) for i, c, b in cp.call_sites("kwargs.pop('__is_stub__', ___)")})
    rep.check(pops == ["kwargs.pop('__is_stub__', False)"], "C10.R3", cpfi.qual, "ordinary commits are never marked as stub", cpfi.loc(), construct="is_stub default", message="commit_patch does not default __is_stub__ to False")
    ext = cp.call_sites("IH5UBExtManifest(___)")
    exts = {cp.x_at(i, kwarg(c, "is_stub_container")) if kwarg(c, "is_stub_container") is not None else None for i, c, b in ext}
    rep.check(exts == {"kwargs.pop('__is_stub__', False)"}, "C10.R3", cpfi.qual, "the committed block records exactly the requested stub flag", cpfi.loc(), construct="is_stub_container in commit", message="commit_patch does not record is_stub_container=is_stub")


def r4_stub_base_only(P, rep, ctx):
    fi = P.func(f"{MF}._check_ublock")
    ff = F(ctx, fi)
    ubv, pvv = fi.params[2], fi.params[3]
    EXT = f"IH5UBExtManifest.get({ubv})"
    ok = ff.refuses_when([[f"{pvv} is not None"], [f"{EXT} is not None"], [f"{EXT}.is_stub_container"]]) is True
    rep.check(ok, "C10.R4", fi.qual, "a stub-marked container is only accepted as base (no predecessor)", fi.loc(), construct="stub-as-patch rejection", message="IH5MFRecord._check_ublock accepts a stub-marked container on top of another container")
    if any(isinstance(x, ast.Assert) and "is_stub_container" in norm(x.test) for x in walk_local(fi.node)):
        rep.info("stub-only-as-base is enforced by an `assert` (removed under python -O): weak, not a violation")
    from .c05 import stub_refusal

    if f"{MF}.merge_files" not in P.functions:
        rep.fail("C10.R4", MF, "merge refusal", "IH5MFRecord no longer overrides merge_files: a file set that contains a stub is merged (or refused only after the merged container was written)", P.module(M).relpath)
        return
    mf = P.func(f"{MF}.merge_files")
    mff = F(ctx, mf)
    sup = mff.calls("super().merge_files(___)")
    ok, why = stub_refusal(P, ctx, mff, sup)
    rep.check(ok, "C10.R4", mf.qual, "a set containing a stub cannot be merged (refusal raises before the merge starts)", mf.loc(), construct="merge refusal", message="IH5MFRecord.merge_files can merge a file set that contains a stub")
    rep.check(ok, "C10.R4", mf.qual, "stub test = manifest extension present and flagged", mf.loc(), construct="is_stub", message="is_stub is not `ext is not None and ext.is_stub_container`")
    from .common import require_total

    for q in (f"{MF}.create_stub", f"{MF}._fresh_manifest", f"{MF}.merge_files", f"{M}.IH5Manifest.from_userblock", f"{S}.IH5Skeleton.for_record", f"{S}.SkeletonNodeInfo.for_node"):
        require_total(rep, ctx, "C10.R4", P.func(q))


def r5_manifest_hash(P, rep, ctx):
    fi = P.func(f"{MF}.commit_patch")
    f = F(ctx, fi)
    g = f.g
    fresh = [c for c in local_calls(fi.node) if MM.match("self._fresh_manifest()", c) is not None]
    mfv = None
    for n in g.nodes:
        if n.kind == "stmt" and isinstance(n.stmt, (ast.Assign, ast.AnnAssign)) and n.stmt.value is not None and MM.match("self._fresh_manifest()", n.stmt.value) is not None:
            t = n.stmt.targets[0] if isinstance(n.stmt, ast.Assign) else n.stmt.target
            if isinstance(t, ast.Name):
                mfv = t.id
    rep.check(len(fresh) == 1 and mfv is not None, "C10.R5", fi.qual, "one fresh manifest describing the current skeleton is built per commit", fi.loc(), construct="mf definition", message="commit_patch builds the manifest more than once / not from _fresh_manifest()")
    if mfv is None:
        raise AnalysisError("C10.R5: the fresh manifest variable of commit_patch not found")
    hashes = f.calls(f"qualified_hashsum(bytes({mfv}))")
    from .sem import object_writes

    # the manifest is written by mf.save(path) or by the same steps in place (open(path, 'wb'); write(bytes(mf)))
    saves_s = [(i, c, {"__p": p_}) for i, p_, o, k, c in object_writes(f) if o == mfv and k in ("save", "inline")]
    saves = [i for i, c, b in saves_s]
    # where the manifest is actually serialised (as written, not through a name): it must not change afterwards
    ser = [n.idx for n in g.nodes for e_ in n.exprs if e_ is not None for c_ in walk_local(e_) if isinstance(c_, ast.Call) and MM.match(f"bytes({mfv})", c_) is not None]
    rep.check(bool(hashes) and bool(saves), "C10.R5", fi.qual, "the hashed object (bytes(mf)) is the object that is saved (mf.save)", fi.loc(), construct="hash/save same object", message="the manifest whose bytes are hashed into the user block is not the manifest object written to disk")
    stores = [n.idx for n in g.nodes if n.kind == "stmt" and any(norm(t).startswith(mfv + ".") for _, t in store_targets(n.stmt))]
    ok = not any(s_ in g.reach(hashes + ser) for s_ in stores)
    rep.check(ok, "C10.R5", fi.qual, "every modification of the manifest (inherited / overriding extensions) happens before it is hashed", fi.loc(), construct="no store after hash", message="the manifest is modified after its hash was recorded in the user block: the manifest on disk does not match the hash in its container")
    EXTS = "kwargs.pop('manifest_exts', None)"
    inh = [i for i, v, b in f.stores(f"{mfv}.manifest_exts") if f.x_at(i, v) in ("self.manifest.manifest_exts", "self._manifest.manifest_exts")]
    ovr = [i for i, v, b in f.stores(f"{mfv}.manifest_exts") if f.x_at(i, v) == EXTS]
    has_prev = f.tests("self._manifest is not None")
    given = f.tests(f"{EXTS} is not None")
    ok = (all((inh, ovr, has_prev, given)) and f.all_hit_before(inh, edges=has_prev) and f.all_hit_before(ovr, edges=given)
          and all(f.hit_before(h, nodes=inh, src_edge=e) for e in has_prev for h in hashes) and all(f.hit_before(h, nodes=ovr, src_edge=e) for e in given for h in hashes)
          and not any(i_ in g.reach([o]) for o in ovr for i_ in inh))  # the inherited value never overwrites the passed one
    rep.check(ok, "C10.R5", fi.qual, "manifest extensions persist (inherited from the previous manifest) until overridden by the caller", fi.loc(), construct="manifest_exts inheritance", message="commit_patch does not inherit manifest_exts from the previous manifest / lets the inherited value win over the passed one")
    ext = f.call_sites("IH5UBExtManifest(___)")
    uu = {f.x_at(i, kwarg(c, "manifest_uuid")) if kwarg(c, "manifest_uuid") is not None else None for i, c, b in ext}
    hh = {f.x_at(i, kwarg(c, "manifest_hashsum")) if kwarg(c, "manifest_hashsum") is not None else None for i, c, b in ext}
    rep.check(uu == {f"{mfv}.manifest_uuid"} and hh == {f"qualified_hashsum(bytes({mfv}))"}, "C10.R5", fi.qual, "the recorded manifest uuid / hash are those of the saved manifest", fi.loc(), construct="manifest uuid", message="the user block records another manifest uuid than the saved manifest's")
    rep.check(bool(saves_s) and all(f.x_at(i, b["__p"]) == "self._manifest_filepath(self._files[-1].filename)" for i, c, b in saves_s), "C10.R5", fi.qual, "the manifest is written next to the newest container", fi.loc(), construct="manifest path", message="manifest path is not derived from the newest container's file name")
    mem = [i for i, v, b in f.stores("self._manifest") if norm(v) == mfv]
    rep.check(bool(mem) and f.hit_before(g.exit, nodes=mem), "C10.R5", fi.qual, "the record remembers the committed manifest", fi.loc(), construct="self._manifest", message="commit_patch does not update self._manifest on success")
    svfi = P.func(f"{M}.IH5Manifest.save")
    sv = F(ctx, svfi)
    wr = sv.calls("__f.write(bytes(self))")
    rep.check(bool(wr) and sv.hit_before(sv.g.exit, nodes=wr), "C10.R5", svfi.qual, "save writes exactly bytes(self)", svfi.loc(), construct="IH5Manifest.save", message="IH5Manifest.save does not write bytes(self)")
    fmfi = P.func(f"{MF}._fresh_manifest")
    fm = F(ctx, fmfi)
    rets = [(i, v) for i, v in fm.returns() if v is not None]
    got = []
    for i, v in rets:
        m = MM.match("IH5Manifest.from_userblock(__u, skeleton=__s, exts=__e)", fm.xe_at(i, v))
        got.append(None if m is None else (norm(m["__u"]), norm(m["__s"]), norm(m["__e"])))
    skd = [g_[1] if g_ else None for g_ in got]
    rep.check(bool(got) and all(g_ is not None and g_[1] == "IH5Skeleton.for_record(self)" for g_ in got), "C10.R5", fmfi.qual, "the skeleton is always recomputed from the record as it is now (root attributes included)", fmfi.loc(), construct="skeleton recomputed",
              message=f"_fresh_manifest does not always recompute the skeleton from the current record (skel = {skd}): e.g. a patch that only changes root attributes keeps a stale skeleton, and a stub built from the manifest lacks those attribute names")
    rep.check(bool(got) and all(g_ == ("self._ublock(-1)", "IH5Skeleton.for_record(self)", "{}") for g_ in got), "C10.R5", fmfi.qual, "the fresh manifest describes the record's current skeleton and newest user block", fmfi.loc(), construct="_fresh_manifest", message="_fresh_manifest does not use the newest user block and the current skeleton")
    fufi = P.func(f"{M}.IH5Manifest.from_userblock")
    fu = F(ctx, fufi)
    ubp = fufi.params[1]
    rets = [(i, v) for i, v in fu.returns() if v is not None]
    oku = bool(rets)
    for i, v in rets:
        m = MM.match("cls(manifest_uuid=uuid1(), user_block=__u, skeleton=__s, manifest_exts=__e)", v)
        oku = oku and m is not None and isinstance(m["__u"], ast.Name)
        if oku:
            cv = m["__u"].id
            cp_def = [d for k, d in local_defs(fufi).get(cv, []) if d is not None]
            strip = [(j, val) for j, val, b in fu.stores(f"{cv}.ub_exts")]
            oku = [norm(d) for d in cp_def] == [f"{ubp}.copy()"] and bool(strip) and fu.hit_before(i, nodes=[j for j, val in strip])
            for j, val in strip:
                df = fu.dict_filter(val)
                oku = oku and df is not None and df["src"] == f"{ubp}.ub_exts.items()" and MM.equivalent(df["kept"], f"{df['key']} != IH5UBExtManifest.ext_name()")
    rep.check(oku, "C10.R5", fufi.qual, "the manifest embeds a copy of the user block without the (circular) manifest extension, under a fresh uuid", fufi.loc(), construct="from_userblock", message="from_userblock changed shape")
    # the skeleton / extensions handed in are the ones stored (a default only replaces a missing one)
    try:
        vps = fu.value_paths()
    except ValueError:
        vps = []
    for lits_, v, i in vps:
        m = MM.match("cls(manifest_uuid=uuid1(), user_block=__u, skeleton=__s, manifest_exts=__e)", v)
        if m is None:
            continue
        for prm, key in (("skeleton", "__s"), ("exts", "__e")):
            if prm not in fufi.params:
                continue
            cp = _carries_param(m[key], prm)
            if cp is None:
                rep.info(f"C10.R5: how from_userblock passes `{prm}` on is spelled in a way the rule does not evaluate (no verdict)")
                continue
            rep.check(cp, "C10.R5", fufi.qual, f"a given `{prm}` is stored as given", fufi.loc(), construct=f"from_userblock stores {prm}",
                      message=f"from_userblock stores `{norm(m[key])[:60]}` for `{prm}`: a skeleton / extension dict handed in is replaced by the default, so the manifest no longer describes the record and a stub built from it lacks its nodes")
    exc = [n for n in g.nodes if n.kind == "except"]
    olds = f.call_sites("self._set_ublock(-1, __o)")
    restores = [i for i, c, b in olds if f.x_at(i, b["__o"]) == "self._ublock(-1)" or isinstance(b["__o"], ast.Name)]
    ok = bool(exc) and all(any(r in g.reach([h.idx]) for r in restores) for h in exc)
    rep.check(ok, "C10.R5", fi.qual, "a failed commit restores the previous user block", fi.loc(), construct="restore on failure", message="commit_patch does not restore the old user block when the container commit fails")
