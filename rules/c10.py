"""C10 — Patches built on a stub apply to the real record with the same result.

Decided: R1 stubs carry no data and cover every skeleton entry (nodes and attribute names); R2 stub identity
(user block of the real newest container, prev_patch reset, manifest link of the given manifest); R3 only create_stub
may mark a container as stub; R4 stub only as base, merge refused; R5 the manifest written at commit is the object whose
bytes were hashed into the user block, extensions are inherited before hashing, manifest path derives from the newest
container.  Not decided: equivalence of 'via stub' and 'direct' executions (runtime).
"""
from __future__ import annotations

import ast

from mdsa.astutil import call_attr, kwarg, local_calls, norm, store_targets
from mdsa.cfg import walk_local
from mdsa.loader import AnalysisError

from .common import Ctx, local_defs, node_of

M = "ih5.manifest"
S = "ih5.skeleton"
MF = f"{M}.IH5MFRecord"
EXPLANATION = (
    "R1 def-use/MUST: in init_stub_skeleton every value stored into the stub is the literal h5py.Empty(None) and on every iteration over "
    "the skeleton the attribute placeholders of that entry are written (no continue/skip before the attribute loop); the skeleton itself "
    "records every node (root + visititems) with its attribute names. R2: create_stub copies the manifest's user block, links the given "
    "manifest (uuid + hash of the file) and init_stub_base resets only prev_patch. R3 OWN: the literal True for is_stub_container / "
    "__is_stub__ occurs only in create_stub, commit_patch defaults it to False. R4: a stub-marked block with a predecessor is rejected "
    "(assert: weak under -O, reported as info), merge is refused (C05.R1). R5 ORDER/AGREE: in IH5MFRecord.commit_patch the object passed "
    "to bytes() for the hash is the object later saved (save writes bytes(self)), no store to it between hash and save, its uuid is the "
    "recorded one, manifest_exts are inherited / overridden before hashing, the user block is restored on a failed commit."
)
NOT_DECIDED = "the patched real record equals the result of the direct update; skeleton equality at run time"


def run(P, rep, tier):
    rep.explanation = EXPLANATION
    rep.not_decided = NOT_DECIDED
    rep.assumptions = ["h5py.Empty(None) carries no data", "asserts are active (python without -O)"]
    ctx = Ctx(P)
    rep.attempt(r1_no_data, P, rep, ctx)
    rep.attempt(r2_identity, P, rep, ctx)
    rep.attempt(r3_stub_owner, P, rep, ctx)
    rep.attempt(r4_stub_base_only, P, rep, ctx)
    rep.attempt(r5_manifest_hash, P, rep, ctx)
    from . import c11

    # after every *successful* commit the manifest on disk matches: it is written only after the container commit succeeded
    rep.attempt(c11.r2_manifest_after_commit, P, rep, ctx, "C10.R5")
    rep.floor("C10.R1", 6)
    rep.floor("C10.R2", 5)
    rep.floor("C10.R3", 3)
    rep.floor("C10.R5", 8)


def r1_no_data(P, rep, ctx):
    fi = P.func(f"{S}.init_stub_skeleton")
    g = ctx.cfg(fi)
    stores = [(n, t) for n in g.nodes if n.kind == "stmt" and isinstance(n.stmt, ast.Assign) for t in n.stmt.targets if isinstance(t, ast.Subscript)]
    if len(stores) < 2:
        raise AnalysisError("C10.R1: placeholder stores not found in init_stub_skeleton")
    for n, t in stores:
        rep.check(norm(n.stmt.value) == "h5py.Empty(None)", "C10.R1", fi.qual, f"placeholder stored at {norm(t)} is h5py.Empty(None)", fi.loc(n.stmt), construct=norm(n.stmt), message=f"init_stub_skeleton stores `{norm(n.stmt.value)}` into the stub: stubs must not carry data")
    outer = [n for n in g.nodes if n.kind == "for" and norm(n.stmt.iter) == "skel.__root__.items()"]
    inner = [n for n in g.nodes if n.kind == "for" and norm(n.stmt.iter) in ("v.attrs.keys()", "v.attrs")]
    ok = len(outer) == 1 and len(inner) == 1 and g.every_path_passes([inner[0].idx], outer[0].idx, src=outer[0].idx, src_label="iter")
    rep.check(ok, "C10.R1", fi.qual, "for every skeleton entry the attribute placeholders are written (no skip before the attribute loop)", fi.loc(), construct="attribute loop on every iteration",
              message="init_stub_skeleton can skip the attribute placeholders of a skeleton entry (e.g. `continue` for an existing group such as the root): the stub lacks attribute names the real record has")
    astore = [n for n, t in stores if norm(t) == "ds[k].attrs[a]"]
    rep.check(bool(astore), "C10.R1", fi.qual, "attribute placeholders are stored under the entry's own path and attribute name", fi.loc(), construct="attribute placeholder target", message="attribute placeholders are not stored at ds[k].attrs[a]")
    gt = [t for t in g.nodes if t.kind == "test" and norm(t.exprs[0]) == "v.node_type == H5Type.group"]
    dt = [t for t in g.nodes if t.kind == "test" and norm(t.exprs[0]) == "v.node_type == H5Type.dataset"]
    cg = [n.idx for n in g.nodes if any(call_attr(c) == "create_group" for c in g.calls(n.idx))]
    dsn = [n.idx for n, t in stores if norm(t) == "ds[k]"]
    ok = bool(gt) and bool(dt) and bool(cg) and bool(dsn) and all(any(g.edge_dominates(t.idx, "T", x) for t in gt) for x in cg) and all(any(g.edge_dominates(t.idx, "T", x) for t in dt) for x in dsn)
    rep.check(ok, "C10.R1", fi.qual, "groups become groups and datasets become (empty) datasets", fi.loc(), construct="node kinds", message="init_stub_skeleton does not create groups for group entries and empty datasets for dataset entries")
    ne = [t for t in g.nodes if t.kind == "test" and norm(t.exprs[0]) == "len(ds) or len(ds.attrs)"]
    rep.check(bool(ne) and all(g.exit not in g.reach([b for b, l in g.succ[t.idx] if l == "T"]) for t in ne), "C10.R1", fi.qual, "a non-empty target is refused", fi.loc(), construct="empty target", message="init_stub_skeleton accepts a non-empty container")
    fr = P.func(f"{S}.IH5Skeleton.for_record")
    t = norm(fr.node)
    rep.check("skel = {'/': SkeletonNodeInfo.for_node(rec['/'])}" in t and "rec.visititems(add_paths)" in t and "skel[node.name] = SkeletonNodeInfo.for_node(node)" in t, "C10.R1", fr.qual, "the skeleton lists the root and every node below it", fr.loc(), construct="for_record", message="IH5Skeleton.for_record does not record the root and all visited nodes")
    fn = P.func(f"{S}.SkeletonNodeInfo.for_node")
    t = norm(fn.node)
    rep.check("for key in node.attrs.keys()" in t and "isinstance(node, IH5Dataset)" in t, "C10.R1", fn.qual, "each node records its kind and all attribute names", fn.loc(), construct="for_node", message="SkeletonNodeInfo.for_node does not record node kind and all attribute names")


def r2_identity(P, rep, ctx):
    fi = P.func(f"{MF}.create_stub")
    d = local_defs(fi)
    rep.check([norm(v) for k, v in d.get("user_block", []) if v is not None] == ["manifest.user_block.copy()"], "C10.R2", fi.qual, "the stub's user block is a copy of the real newest container's block (from the manifest)", fi.loc(), construct="stub user block", message="create_stub does not start from manifest.user_block.copy()")
    ue = [v for k, v in d.get("ubext", []) if v is not None]
    ok = len(ue) == 1 and isinstance(ue[0], ast.Call) and {k.arg: norm(k.value) for k in ue[0].keywords} == {"is_stub_container": "True", "manifest_uuid": "manifest.manifest_uuid", "manifest_hashsum": "hashsum_file(manifest_file)"}
    rep.check(ok, "C10.R2", fi.qual, "the stub links the given manifest by uuid and by the hash of the manifest file", fi.loc(), construct="stub manifest link", message="create_stub does not link the manifest by manifest_uuid and hashsum_file(manifest_file)")
    g = ctx.cfg(fi)
    seq = ["ubext.update(user_block)", "init_stub_base(ds, user_block, skeleton)", "ds.commit_patch(__is_stub__=True)"]
    nodes = [[n.idx for n in g.nodes if n.kind == "stmt" and norm(n.stmt) == s] for s in seq]
    ok = all(nodes) and all(g.every_path_passes(a, b[0]) for a, b in zip(nodes, nodes[1:])) and g.every_path_passes(nodes[-1], g.exit)
    rep.check(ok, "C10.R2", fi.qual, "extension attached < stub structure + block installed < committed as stub", fi.loc(), construct="create_stub order", message="create_stub does not (attach ext, init_stub_base, commit as stub) in this order on every path")
    rep.check([norm(v) for k, v in d.get("skeleton", []) if v is not None] == ["manifest.skeleton"] and [norm(v) for k, v in d.get("manifest", []) if v is not None] == ["IH5Manifest.parse_file(manifest_file)"], "C10.R2", fi.qual, "structure comes from the manifest's skeleton", fi.loc(), construct="skeleton source", message="create_stub does not use the skeleton of the given manifest file")
    ib = P.func(f"{S}.init_stub_base")
    t = norm(ib.node)
    calls = [c for c in local_calls(ib.node) if call_attr(c) == "_set_ublock"]
    ok = len(calls) == 1 and "init_stub_skeleton(target, src_skel)" in t
    if ok:
        c0 = calls[0]
        a1 = c0.args[1] if len(c0.args) > 1 else None
        up = kwarg(a1, "update") if isinstance(a1, ast.Call) and norm(a1.func) == "src_ub.copy" else None
        keys = {k.value: norm(v) for k, v in zip(up.keys, up.values)} if isinstance(up, ast.Dict) and all(isinstance(k, ast.Constant) for k in up.keys) else None
        # identity fields (record_uuid, patch_uuid, patch_index) must be kept; only the predecessor link and the
        # (recomputed at commit) payload hash may be reset
        ok = norm(c0.args[0]) == "-1" and keys is not None and keys.get("prev_patch") == "None" and set(keys) <= {"prev_patch", "hdf5_hashsum"} and all(v == "None" for v in keys.values())
    rep.check(ok, "C10.R2", ib.qual, "the stub keeps record uuid / patch uuid / patch index of the real newest container and only drops prev_patch", ib.loc(), construct="init_stub_base", message="init_stub_base does not install src_ub.copy(update={'prev_patch': None}) (identity of the stub differs from the real newest container)")
    cr = P.func("ih5.record.IH5UserBlock.create")
    rep.check("prev_patch=None if prev is None else prev.patch_uuid" in norm(cr.node) and "patch_index=0 if prev is None else prev.patch_index + 1" in norm(cr.node) and "record_uuid=uuid1() if prev is None else prev.record_uuid" in norm(cr.node), "C10.R2", cr.qual,
              "a patch on the stub links to the stub's (= real newest) patch uuid with the next index", cr.loc(), construct="IH5UserBlock.create", message="IH5UserBlock.create does not link a new patch to prev.patch_uuid / index+1 / same record uuid")


def r3_stub_owner(P, rep, ctx):
    n = 0
    for fi in P.functions.values():
        for c in local_calls(fi.node):
            for k in c.keywords:
                if k.arg in ("is_stub_container", "__is_stub__") and isinstance(k.value, ast.Constant) and k.value.value is True:
                    n += 1
                    rep.check(fi.qual == f"{MF}.create_stub", "C10.R3", fi.qual, f"{k.arg}=True only in create_stub", fi.loc(c), construct=norm(c)[:100], message=f"{fi.qual} marks a container as stub ({k.arg}=True): only create_stub may")
    if n < 2:
        raise AnalysisError("C10.R3: stub markings not found in create_stub")
    cp = P.func(f"{MF}.commit_patch")
    d = local_defs(cp)
    rep.check([norm(v) for k, v in d.get("is_stub", []) if v is not None] == ["kwargs.pop('__is_stub__', False)"], "C10.R3", cp.qual, "ordinary commits are never marked as stub", cp.loc(), construct="is_stub default", message="commit_patch does not default __is_stub__ to False")
    ext = [c for c in local_calls(cp.node) if norm(c.func) == "IH5UBExtManifest"]
    rep.check(len(ext) == 1 and norm(kwarg(ext[0], "is_stub_container") or ast.Constant(value=None)) == "is_stub", "C10.R3", cp.qual, "the committed block records exactly the requested stub flag", cp.loc(), construct="is_stub_container in commit", message="commit_patch does not record is_stub_container=is_stub")


def r4_stub_base_only(P, rep, ctx):
    fi = P.func(f"{MF}._check_ublock")
    asserts = [x for x in walk_local(fi.node) if isinstance(x, ast.Assert)]
    raises = [t for t in ctx.cfg(fi).nodes if t.kind == "test" and "is_stub_container" in norm(t.exprs[0])]
    ok = any(norm(a.test) == "prev is None or ubext is None or (not ubext.is_stub_container)" for a in asserts) or bool(raises)
    rep.check(ok, "C10.R4", fi.qual, "a stub-marked container is only accepted as base (no predecessor)", fi.loc(), construct="stub-as-patch rejection", message="IH5MFRecord._check_ublock accepts a stub-marked container on top of another container")
    if asserts and not raises:
        rep.info("stub-only-as-base is enforced by an `assert` (removed under python -O): weak, not a violation")
    mf = P.func(f"{MF}.merge_files")
    g = ctx.cfg(mf)
    sup = [n.idx for n in g.nodes if any(call_attr(c) == "merge_files" and isinstance(c.func.value, ast.Call) and norm(c.func.value.func) == "super" for c in g.calls(n.idx))]
    tests = [t.idx for t in g.nodes if t.kind == "test" and norm(t.exprs[0]) == "any(map(is_stub, self.ih5_meta))"]
    ok = bool(sup) and bool(tests) and all(g.exit not in g.reach([b for b, l in g.succ[t] if l == "T"]) and not (set(sup) & g.reach([b for b, l in g.succ[t] if l == "T"])) for t in tests) and all(g.every_path_passes(tests, s) for s in sup)
    rep.check(ok, "C10.R4", mf.qual, "a set containing a stub cannot be merged (refusal raises before the merge starts)", mf.loc(), construct="merge refusal", message="IH5MFRecord.merge_files can merge a file set that contains a stub")
    st = mf.nested.get("is_stub")
    rep.check(st is not None and [norm(x.value) for x in walk_local(st.node) if isinstance(x, ast.Return)] == ["ext is not None and ext.is_stub_container"], "C10.R4", mf.qual, "stub test = manifest extension present and flagged", mf.loc(), construct="is_stub", message="is_stub is not `ext is not None and ext.is_stub_container`")
    from .common import require_total

    for q in (f"{MF}.create_stub", f"{MF}._fresh_manifest", f"{MF}.merge_files", f"{M}.IH5Manifest.from_userblock", f"{S}.IH5Skeleton.for_record", f"{S}.SkeletonNodeInfo.for_node"):
        require_total(rep, ctx, "C10.R4", P.func(q))


def r5_manifest_hash(P, rep, ctx):
    fi = P.func(f"{MF}.commit_patch")
    g = ctx.cfg(fi)
    d = local_defs(fi)
    rep.check([norm(v) for k, v in d.get("mf", []) if v is not None] == ["self._fresh_manifest()"], "C10.R5", fi.qual, "one fresh manifest describing the current skeleton is built per commit", fi.loc(), construct="mf definition", message="commit_patch builds the manifest more than once / not from _fresh_manifest()")
    hashes = [n.idx for n in g.nodes if any(norm(c.func) == "qualified_hashsum" and c.args and norm(c.args[0]) == "bytes(mf)" for c in g.calls(n.idx))]
    saves = [n.idx for n in g.nodes if any(call_attr(c) == "save" and norm(c.func.value) == "mf" for c in g.calls(n.idx))]
    rep.check(bool(hashes) and bool(saves), "C10.R5", fi.qual, "the hashed object (bytes(mf)) is the object that is saved (mf.save)", fi.loc(), construct="hash/save same object", message="the manifest whose bytes are hashed into the user block is not the manifest object written to disk")
    stores = [n.idx for n in g.nodes if n.kind == "stmt" and any(norm(t).startswith("mf.") for _, t in store_targets(n.stmt))]
    ok = not any(s in g.reach(hashes) for s in stores)
    rep.check(ok, "C10.R5", fi.qual, "every modification of the manifest (inherited / overriding extensions) happens before it is hashed", fi.loc(), construct="no store after hash", message="the manifest is modified after its hash was recorded in the user block: the manifest on disk does not match the hash in its container")
    inh = [n.idx for n in g.nodes if n.kind == "stmt" and norm(n.stmt) == "mf.manifest_exts = self.manifest.manifest_exts"]
    it = [t.idx for t in g.nodes if t.kind == "test" and norm(t.exprs[0]) == "self._manifest is not None"]
    ovr = [n.idx for n in g.nodes if n.kind == "stmt" and norm(n.stmt) == "mf.manifest_exts = exts"]
    ot = [t.idx for t in g.nodes if t.kind == "test" and norm(t.exprs[0]) == "exts is not None"]
    ok = bool(inh) and bool(it) and bool(ovr) and bool(ot) and all(g.every_path_passes(inh, h, src=t, src_label="T") for t in it for h in hashes) and all(g.every_path_passes(ovr, h, src=t, src_label="T") for t in ot for h in hashes) and all(g.every_path_passes(inh, o) or True for o in ovr)
    ok = ok and all(o in g.reach(inh) for o in ovr)  # override comes after inheritance
    rep.check(ok, "C10.R5", fi.qual, "manifest extensions persist (inherited from the previous manifest) until overridden by the caller", fi.loc(), construct="manifest_exts inheritance", message="commit_patch does not inherit manifest_exts from the previous manifest / lets the inherited value win over the passed one")
    ext = [c for c in local_calls(fi.node) if norm(c.func) == "IH5UBExtManifest"]
    rep.check(len(ext) == 1 and norm(kwarg(ext[0], "manifest_uuid") or ast.Constant(value=None)) == "mf.manifest_uuid", "C10.R5", fi.qual, "the recorded manifest uuid is that of the saved manifest", fi.loc(), construct="manifest uuid", message="the user block records another manifest uuid than the saved manifest's")
    rep.check(all(norm(c.args[0]) == "self._manifest_filepath(self._files[-1].filename)" for s in saves for c in g.calls(s) if call_attr(c) == "save"), "C10.R5", fi.qual, "the manifest is written next to the newest container", fi.loc(), construct="manifest path", message="manifest path is not derived from the newest container's file name")
    mem = [n.idx for n in g.nodes if n.kind == "stmt" and norm(n.stmt) == "self._manifest = mf"]
    rep.check(bool(mem) and g.every_path_passes(mem, g.exit), "C10.R5", fi.qual, "the record remembers the committed manifest", fi.loc(), construct="self._manifest", message="commit_patch does not update self._manifest on success")
    sv = P.func(f"{M}.IH5Manifest.save")
    rep.check("f.write(bytes(self))" in norm(sv.node), "C10.R5", sv.qual, "save writes exactly bytes(self)", sv.loc(), construct="IH5Manifest.save", message="IH5Manifest.save does not write bytes(self)")
    fm = P.func(f"{MF}._fresh_manifest")
    t = norm(fm.node)
    fd = local_defs(fm)
    skd = [norm(v) for k, v in fd.get("skel", []) if v is not None]
    ubd = [norm(v) for k, v in fd.get("ub", []) if v is not None]
    rep.check(skd == ["IH5Skeleton.for_record(self)"] and ubd == ["self._ublock(-1)"], "C10.R5", fm.qual, "the skeleton is always recomputed from the record as it is now (root attributes included)", fm.loc(), construct=f"skel = {skd}",
              message=f"_fresh_manifest does not always recompute the skeleton from the current record (skel = {skd}): e.g. a patch that only changes root attributes keeps a stale skeleton, and a stub built from the manifest lacks those attribute names")
    rep.check("ub = self._ublock(-1)" in t and "skel = IH5Skeleton.for_record(self)" in t and "IH5Manifest.from_userblock(ub, skeleton=skel, exts={})" in t, "C10.R5", fm.qual, "the fresh manifest describes the record's current skeleton and newest user block", fm.loc(), construct="_fresh_manifest", message="_fresh_manifest does not use the newest user block and the current skeleton")
    fu = P.func(f"{M}.IH5Manifest.from_userblock")
    t = norm(fu.node)
    rep.check("ub_copy = ub.copy()" in t and "if k != IH5UBExtManifest.ext_name()" in t and "manifest_uuid=uuid1()" in t, "C10.R5", fu.qual, "the manifest embeds a copy of the user block without the (circular) manifest extension, under a fresh uuid", fu.loc(), construct="from_userblock", message="from_userblock changed shape")
    exc = [n for n in g.nodes if n.kind == "except"]
    ok = bool(exc) and all(any(call_attr(c) == "_set_ublock" and norm(c.args[1]) == "old_ub" for m_ in g.reach([h.idx]) for c in g.calls(m_)) for h in exc)
    rep.check(ok, "C10.R5", fi.qual, "a failed commit restores the previous user block", fi.loc(), construct="restore on failure", message="commit_patch does not restore the old user block when the container commit fails")
