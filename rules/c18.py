"""C18 — Directory diffs are exact and safely ordered.

Decided: R1 emission order of DiffNode.nodes (syntax-directed: removed children < modified children < the node itself <
added children, children sorted by path, recursion through nodes(), no shortcut return); R2 the case analysis of
DiffNode.compare is exhaustive over {None, str, dict}^2 and feeds the buckets with the right roles (finite-domain
partial evaluation); R3 status mapping decided by `is None` only, lookup walks prefixes.
Not decided: set equality of reported paths for all tree pairs (runtime).
"""
from __future__ import annotations

import ast
from typing import Dict, List, Optional, Tuple

from mdsa.astutil import call_attr, kwarg, local_calls, norm, store_targets
from mdsa.cfg import walk_local
from mdsa.loader import AnalysisError

from .common import Ctx, local_defs

D = "util.diff"
EXPLANATION = (
    "R1: DiffNode.nodes is abstracted to its sequence of emission events by unrolling loops over literal lists; all events of the "
    "`removed` bucket precede the event for the node itself, all of `added` follow it, `modified` is not after `added`; each bucket is "
    "emitted in sorted path order via the children's own nodes(); every return yields the fully built list. R2: DiffNode.compare is "
    "evaluated for the 3x3 kinds of (prev, curr): in each cell the reachable bucket stores, the roles of the recursive calls "
    "(compare(None, curr[k]) -> added, compare(prev[k], None) -> removed, compare(prev[k], curr[k]) -> modified iff not None) and the "
    "returned value are compared with the table. R3: status() maps prev is None -> added, curr is None -> removed, else modified, using "
    "identity tests only; DirDiff.status(None) is unchanged; get() descends along the path's prefixes matching children by full path."
)
NOT_DECIDED = "reported path set == symmetric difference of the two trees for all snapshot pairs; replaying the order really transforms old into new (runtime)"
KINDS = ("None", "str", "dict")


def run(P, rep, tier):
    rep.explanation = EXPLANATION
    rep.not_decided = NOT_DECIDED
    rep.assumptions = ["directory snapshots are nested dicts with str leaves (DirHashsums)", "sorted() over Path objects is lexicographic by parts"]
    ctx = Ctx(P)
    rep.attempt(r1_emission_order, P, rep, ctx)
    rep.attempt(r2_case_analysis, P, rep, ctx)
    rep.attempt(r3_status, P, rep, ctx)
    rep.floor("C18.R1", 5)
    rep.floor("C18.R2", 12)
    rep.floor("C18.R3", 5)


# ------------------------------------------------------------------------------------------- R1
def emission_events(fi) -> Tuple[List[Tuple[str, str]], List[str]]:
    """[(kind, detail)] in emission order: ('self','') | ('bucket', name:sorted?:recursive?) ; plus notes."""
    events: List[Tuple[str, str]] = []
    notes: List[str] = []
    defs = local_defs(fi)
    acc = None
    for name, ds in defs.items():
        if any(v is not None and norm(v) == "[]" for k, v in ds):
            acc = name

    def bucket_events(iter_expr, target, body, bname=None):
        it = iter_expr
        is_sorted = isinstance(it, ast.Call) and norm(it.func) == "sorted" and kwarg(it, "key") is not None and norm(kwarg(it, "key")) in ("lambda x: x.path", "lambda v: v.path", "lambda n: n.path")
        src = it.args[0] if isinstance(it, ast.Call) and it.args else it
        sname = norm(src)
        if bname is not None:
            sname = sname.replace(bname[0], bname[1])
        rec = any(isinstance(s, ast.AugAssign) and norm(s.target) == acc and norm(s.value) == f"{norm(target)}.nodes()" for s in body) or any(isinstance(s, ast.Expr) and norm(s.value) == f"{acc}.extend({norm(target)}.nodes())" for s in body)
        events.append(("bucket", f"{sname}|sorted={is_sorted}|recursive={rec}"))

    def visit(body, subst=None):
        for st in body:
            if isinstance(st, ast.Expr) and isinstance(st.value, ast.Constant):
                continue
            if isinstance(st, (ast.Assign, ast.AnnAssign)):
                continue
            if isinstance(st, ast.Expr) and norm(st.value) == f"{acc}.append(self)":
                events.append(("self", ""))
            elif isinstance(st, ast.For):
                itd = st.iter
                lit = None
                if isinstance(itd, ast.Name):
                    ds = [v for k, v in defs.get(itd.id, []) if v is not None]
                    if len(ds) == 1 and isinstance(ds[0], (ast.List, ast.Tuple)):
                        lit = ds[0]
                elif isinstance(itd, (ast.List, ast.Tuple)):
                    lit = itd
                if lit is not None:
                    for el in lit.elts:
                        unroll(st, el)
                else:
                    bucket_events(st.iter, st.target, st.body, subst)
            elif isinstance(st, ast.If):
                notes.append(f"conditional outside a literal loop: if {norm(st.test)}")
                if any(isinstance(x, ast.Return) for b in st.body for x in ast.walk(b)):
                    events.append(("early-return", norm(st.test)))
            elif isinstance(st, ast.Return):
                events.append(("return", norm(st.value) if st.value is not None else "None"))
            else:
                notes.append(f"unrecognised statement: {norm(st)[:60]}")

    def unroll(loop: ast.For, el: ast.AST):
        tv = norm(loop.target)
        for st in loop.body:
            if isinstance(st, ast.If) and norm(st.test) in (f"{tv} is None", f"{tv} is not None"):
                is_none = isinstance(el, ast.Constant) and el.value is None
                pos = norm(st.test) == f"{tv} is None"
                branch = st.body if (is_none == pos) else st.orelse
                for s in branch:
                    if isinstance(s, ast.Expr) and norm(s.value) == f"{acc}.append(self)":
                        events.append(("self", ""))
                    elif isinstance(s, ast.For):
                        bucket_events(s.iter, s.target, s.body, (tv, norm(el)))
                    else:
                        notes.append(f"unrecognised statement in loop: {norm(s)[:60]}")
            else:
                notes.append(f"unrecognised loop body: {norm(st)[:60]}")

    visit(fi.node.body)
    return events, notes


def r1_emission_order(P, rep, ctx):
    fi = P.func(f"{D}.DiffNode.nodes")
    ev, notes = emission_events(fi)
    seq = [k if k != "bucket" else d.split("|")[0].replace(".values()", "") for k, d in ev]
    order = [s for s in seq if s in ("self.removed", "self.modified", "self", "self.added")]
    if notes and "self" not in order:
        raise AnalysisError(f"C18.R1: nodes() has an unrecognised shape: {notes}")
    loc = fi.loc()
    rep.check(order.count("self") == 1, "C18.R1", fi.qual, "the node itself is emitted exactly once", loc, construct=f"emission sequence {order}", message=f"nodes() emits the node itself {order.count('self')} times: {order}")
    if "self" in order:
        i = order.index("self")
        rep.check("self.removed" in order[:i] and "self.removed" not in order[i:], "C18.R1", fi.qual, "removed children are emitted before the node itself (a parent is never removed/replaced before its children)", loc,
                  construct=f"removed before self in {order}", message=f"nodes() emits in the order {order}: removed children do not all precede the node itself, so a parent can be removed or replaced before its children")
        rep.check("self.added" in order[i + 1:] and "self.added" not in order[:i], "C18.R1", fi.qual, "added children are emitted after the node itself (a child is never created before its parent)", loc,
                  construct=f"added after self in {order}", message=f"nodes() emits in the order {order}: added children do not all follow the node itself, so a child can be created before its parent exists")
        rep.check("self.modified" in order and order.index("self.modified") < order.index("self.added") if "self.added" in order and "self.modified" in order else False, "C18.R1", fi.qual, "modified children are emitted, and not after the added ones", loc,
                  construct=f"modified in {order}", message=f"nodes() order {order}: modified children missing or after added ones")
    for k, d in ev:
        if k == "bucket":
            name, s, r = d.split("|")
            rep.check(s == "sorted=True" and r == "recursive=True", "C18.R1", fi.qual, f"children of {name} are emitted in sorted path order through their own nodes()", loc, construct=f"bucket {d}", message=f"bucket {name}: {s}, {r} (children must be sorted by path and expanded recursively via nodes())")
    early = [d for k, d in ev if k == "early-return"]
    rets = [x for x in walk_local(fi.node) if isinstance(x, ast.Return)]
    acc = [n for n, ds in local_defs(fi).items() if any(v is not None and norm(v) == "[]" for k, v in ds)]
    ok = not early and len(rets) == 1 and acc and norm(rets[0].value) == acc[0]
    rep.check(ok, "C18.R1", fi.qual, "nodes() has a single return: the completely built list", loc, construct=f"returns {[norm(r.value) for r in rets]}",
              message=f"nodes() can return before all buckets were emitted ({[norm(r.value) for r in rets]}{', shortcut if ' + early[0] if early else ''}): e.g. former children of a directory replaced by a file are missing from the listing")
    an = P.func(f"{D}.DirDiff.annotate")
    t = norm(an.node)
    rep.check("nodes = self._diff_root.nodes()" in t and "path_nodes = {node.path: node for node in nodes}" in t, "C18.R1", an.qual, "annotate lists the diff in nodes() order", an.loc(), construct="annotate order", message="annotate does not preserve the nodes() order")


# ------------------------------------------------------------------------------------------- R2
def kind_eval(e: ast.AST, kinds: Dict[str, str]) -> Optional[bool]:
    if isinstance(e, ast.UnaryOp) and isinstance(e.op, ast.Not):
        r = kind_eval(e.operand, kinds)
        return None if r is None else not r
    if isinstance(e, ast.BoolOp):
        vals = [kind_eval(v, kinds) for v in e.values]
        if isinstance(e.op, ast.And):
            return False if False in vals else (True if all(v is True for v in vals) else None)
        return True if True in vals else (False if all(v is False for v in vals) else None)
    if isinstance(e, ast.Call) and norm(e.func) == "isinstance" and norm(e.args[0]) in kinds:
        k = kinds[norm(e.args[0])]
        want = [norm(x) for x in (e.args[1].elts if isinstance(e.args[1], ast.Tuple) else [e.args[1]])]
        return k in want
    if isinstance(e, ast.Compare) and len(e.ops) == 1 and norm(e.left) in kinds and isinstance(e.comparators[0], ast.Constant) and e.comparators[0].value is None:
        k = kinds[norm(e.left)]
        if isinstance(e.ops[0], ast.Is):
            return k == "None"
        if isinstance(e.ops[0], ast.IsNot):
            return k != "None"
    return None


def r2_case_analysis(P, rep, ctx):
    fi = P.func(f"{D}.DiffNode.compare")
    g = ctx.cfg(fi)
    pv, cv = fi.params[1], fi.params[2]
    for pk in KINDS:
        for ck in KINDS:
            kinds = {pv: pk, cv: ck}
            block = []
            for t in g.nodes:
                if t.kind == "test":
                    r = kind_eval(t.exprs[0], kinds)
                    if r is True:
                        block.append((t.idx, "F"))
                    elif r is False:
                        block.append((t.idx, "T"))
                elif t.kind == "stmt" and isinstance(t.stmt, ast.Assert):
                    r = kind_eval(t.stmt.test, kinds)
                    if r is False:
                        # assertion fails for this cell -> no normal continuation
                        block += [(t.idx, "")]
            live = g.reach([g.entry], labels_block=block)
            rets = sorted({norm(g.nodes[n].stmt.value) for n in live if isinstance(g.nodes[n].stmt, ast.Return)})
            stores = {}
            for n in live:
                st = g.nodes[n].stmt
                if g.nodes[n].kind == "stmt" and isinstance(st, ast.Assign):
                    for t in st.targets:
                        tt = norm(t)
                        for b in ("added", "removed", "modified"):
                            if tt.startswith(f"ret.{b}["):
                                stores.setdefault(b, set()).add(norm(st.value))
            cell = f"(prev={pk}, curr={ck})"
            loc = fi.loc()
            reaches_exit = g.exit in live
            rep.check(reaches_exit, "C18.R2", fi.qual, f"cell {cell} reaches a return", loc, construct=f"cell {cell} returns", message=f"compare has no return for {cell}")
            if pk != "dict" and ck != "dict":
                ok = rets == ["None", "ret"] and not stores
                rep.check(ok, "C18.R2", fi.qual, f"cell {cell}: leaf comparison, no children", loc, construct=f"cell {cell}: returns {rets}, stores {sorted(stores)}", message=f"compare for {cell}: returns {rets}, fills {sorted(stores)} (expected: None iff equal else the node, no children)")
                eqt = [t for t in g.nodes if t.idx in live and t.kind == "test" and norm(t.exprs[0]) in (f"{pv} == {cv}", f"{cv} == {pv}")]
                okeq = bool(eqt) and all(all(norm(g.nodes[b].stmt.value) == "None" for b, l in g.succ[t.idx] if l == "T" and isinstance(g.nodes[b].stmt, ast.Return)) for t in eqt)
                rep.check(okeq, "C18.R2", fi.qual, f"cell {cell}: 'no difference' iff prev == curr", loc, construct=f"cell {cell} equality", message=f"compare for {cell} does not return None exactly when prev == curr")
            elif pk != "dict" and ck == "dict":
                ok = set(stores) == {"added"} and rets == ["ret"]
                rep.check(ok, "C18.R2", fi.qual, f"cell {cell}: everything inside is added", loc, construct=f"cell {cell}: returns {rets}, stores {sorted(stores)}", message=f"compare for {cell}: returns {rets}, fills {sorted(stores)} (expected: only `added`, returns the node)")
            elif pk == "dict" and ck != "dict":
                ok = set(stores) == {"removed"} and rets == ["ret"]
                rep.check(ok, "C18.R2", fi.qual, f"cell {cell}: everything inside is removed", loc, construct=f"cell {cell}: returns {rets}, stores {sorted(stores)}", message=f"compare for {cell}: returns {rets}, fills {sorted(stores)} (expected: only `removed`, returns the node)")
            else:
                ok = set(stores) == {"added", "removed", "modified"} and rets == ["None", "ret"]
                rep.check(ok, "C18.R2", fi.qual, f"cell {cell}: three-way split of the keys", loc, construct=f"cell {cell}: returns {rets}, stores {sorted(stores)}", message=f"compare for {cell}: returns {rets}, fills {sorted(stores)}")
    # roles of the recursive calls, per loop
    roles = []
    for loop in (x for x in walk_local(fi.node) if isinstance(x, ast.For)):
        it = norm(loop.iter)
        calls = [c for b in loop.body for c in ast.walk(b) if isinstance(c, ast.Call) and norm(c.func) == "cls.compare"]
        st = [norm(t).split("[")[0] for b in loop.body for s in ast.walk(b) if isinstance(s, ast.Assign) for t in s.targets if norm(t).startswith("ret.")]
        for c in calls:
            roles.append((it, tuple(norm(a) for a in c.args[:2]), tuple(st)))
    defs = local_defs(fi)
    sets = {n: norm(v) for n in ("added", "removed", "intersection", "prev_keys", "curr_keys") for k, v in defs.get(n, []) if v is not None}
    want_sets = {"added": "curr_keys - prev_keys", "removed": "prev_keys - curr_keys", "prev_keys": f"set({pv}.keys())", "curr_keys": f"set({cv}.keys())"}
    rep.check(all(sets.get(k) == v for k, v in want_sets.items()) and sets.get("intersection") in ("(prev_keys | curr_keys) - added - removed", "prev_keys & curr_keys"), "C18.R2", fi.qual, "key sets: added = curr - prev, removed = prev - curr, common = the rest", fi.loc(),
              construct=f"key sets {sets}", message=f"compare partitions the keys as {sets}")
    want_roles = {
        (f"{cv}.items()", ("None", "v"), ("ret.added",)), (f"{pv}.items()", ("v", "None"), ("ret.removed",)),
        ("added", ("None", f"{cv}[k]"), ("ret.added",)), ("removed", (f"{pv}[k]", "None"), ("ret.removed",)), ("intersection", (f"{pv}[k]", f"{cv}[k]"), ("ret.modified",)),
    }
    got = set(roles)
    rep.check(got == want_roles, "C18.R2", fi.qual, "recursive calls carry the right roles into the right buckets", fi.loc(), construct=f"roles {sorted(got)}",
              message=f"compare feeds the buckets with wrong roles: unexpected {sorted(got - want_roles)}, missing {sorted(want_roles - got)}")
    mod = [x for x in walk_local(fi.node) if isinstance(x, ast.If) and norm(x.test) == "diff is not None"]
    rep.check(len(mod) == 1 and "ret.modified[kpath] = diff" in norm(mod[0]), "C18.R2", fi.qual, "a common key is reported as modified iff its recursive comparison found a difference", fi.loc(), construct="modified iff diff", message="common keys are not reported exactly when their comparison is not None")
    sd = [norm(v) for k, v in defs.get("same_dir", []) if v is not None]
    rep.check(sd == ["not ret.added and (not ret.removed) and (not ret.modified)"], "C18.R2", fi.qual, "'no difference' for directories iff all three buckets are empty", fi.loc(), construct=f"same_dir = {sd}", message=f"same_dir is {sd}")
    sdt = [t.idx for t in g.nodes if t.kind == "test" and norm(t.exprs[0]) == "same_dir"]
    rep.check(bool(sdt) and all(all(isinstance(g.nodes[b].stmt, ast.Return) and norm(g.nodes[b].stmt.value) == "None" for b, l in g.succ[t] if l == "T") and all(isinstance(g.nodes[b].stmt, ast.Return) and norm(g.nodes[b].stmt.value) == "ret" for b, l in g.succ[t] if l == "F") for t in sdt), "C18.R2", fi.qual,
              "identical directories give None, different ones the node", fi.loc(), construct="same_dir branch", message="compare returns the node for identical directories / None for different ones")
    from .common import require_total

    for q in (f"{D}.DiffNode.compare", f"{D}.DiffNode.nodes", f"{D}.DiffNode.children", f"{D}.DiffNode.status", f"{D}.DirDiff.get", f"{D}.DirDiff.annotate", f"{D}.DirDiff.status", f"{D}.DirDiff.compare", f"{D}.dir_paths"):
        require_total(rep, ctx, "C18.R2", P.func(q))
    rep.check("kpath = ret.path / k" in norm(fi.node) and "ret = cls(path=path, prev=prev, curr=curr)" in norm(fi.node), "C18.R2", fi.qual, "child paths extend the node's path; the node records old and new entry", fi.loc(), construct="paths / entries", message="compare does not build child paths as ret.path / k or record prev/curr")


# ------------------------------------------------------------------------------------------- R3
def r3_status(P, rep, ctx):
    fi = P.func(f"{D}.DiffNode.status")
    g = ctx.cfg(fi)
    tests = [norm(t.exprs[0]) for t in g.nodes if t.kind == "test"]
    rep.check(tests == ["self.prev is None", "self.curr is None"], "C18.R3", fi.qual, "status is decided by identity tests on prev / curr only", fi.loc(), construct=f"status tests {tests}",
              message=f"status() decides with {tests}: a truthiness test misclassifies an empty directory ({{}}) or an empty entry as removed/added")
    mp = {}
    for t in g.nodes:
        if t.kind == "test":
            for b, l in g.succ[t.idx]:
                if l == "T" and isinstance(g.nodes[b].stmt, ast.Return):
                    mp[norm(t.exprs[0])] = norm(g.nodes[b].stmt.value)
    rets = [norm(x.value) for x in sorted((x for x in walk_local(fi.node) if isinstance(x, ast.Return)), key=lambda r: r.lineno)]
    ok = mp.get("self.prev is None") == "DiffNode.Status.added" and mp.get("self.curr is None") == "DiffNode.Status.removed" and rets[-1:] == ["DiffNode.Status.modified"] and len(rets) == 3
    rep.check(ok, "C18.R3", fi.qual, "prev is None -> added, curr is None -> removed, otherwise modified", fi.loc(), construct=f"status mapping {mp} / {rets}", message=f"status mapping is {mp}, final {rets[-1:]}")
    ds = P.func(f"{D}.DirDiff.status")
    t = norm(ds.node)
    rep.check("if node is None: return DiffNode.Status.unchanged" in t.replace("\n", " ") and "return node.status()" in t, "C18.R3", ds.qual, "a path without diff node is unchanged", ds.loc(), construct="DirDiff.status", message="DirDiff.status(None) is not `unchanged` / does not delegate to node.status()")
    gt = P.func(f"{D}.DirDiff.get")
    t = norm(gt.node)
    ok = "prefixes = [path] + list(path.parents)" in t and "prefixes.pop()" in t and "(x for x in curr.children() if x.path == path)" in t and "if node is None: return None" in t.replace("\n", " ") and "return curr" in t
    rep.check(ok, "C18.R3", gt.qual, "lookup descends along the prefixes of the path, matching children by their full path", gt.loc(), construct="DirDiff.get", message="DirDiff.get does not walk the path's prefixes from the shortest, matching children by full path")
    body = [norm(b) for b in gt.node.body if not (isinstance(b, ast.Expr) and isinstance(b.value, ast.Constant))]
    rep.check("prefixes.pop()" in body and "if self._diff_root is None: return None" in [b.replace("\n", " ").replace("    ", " ").replace("  ", " ") for b in body], "C18.R3", gt.qual, "lookup drops the '.' prefix and returns None for an empty diff", gt.loc(), construct="get preamble", message="DirDiff.get lost its `prefixes.pop()` / empty-diff handling")
    ch = P.func(f"{D}.DiffNode.children")
    rep.check("[self.removed, self.modified, self.added]" in norm(ch.node), "C18.R3", ch.qual, "children() covers all three buckets", ch.loc(), construct="children()", message="children() does not chain removed, modified and added")
    ty = P.func(f"{D}.DiffNode._type")
    rep.check("isinstance(entity, dict)" in norm(ty.node), "C18.R3", ty.qual, "directory type is decided by isinstance(dict) (empty dirs included)", ty.loc(), construct="_type", message="_type does not classify dicts (incl. empty) as directories")
