"""C18 — Directory diffs are exact and safely ordered.

Decided: R1 emission order of DiffNode.nodes (syntax-directed: removed children < modified children < the node itself <
added children, children sorted by path, recursion through nodes(), no shortcut return); R2 the case analysis of
DiffNode.compare is exhaustive over {None, str, dict}^2 and feeds the buckets with the right roles (finite-domain
partial evaluation); R3 status mapping decided by `is None` only, lookup walks prefixes.
Not decided: set equality of reported paths for all tree pairs (runtime).
"""
from __future__ import annotations

import ast
from typing import Dict, List, Optional, Tuple

from mdsa.astutil import call_attr, kwarg, local_calls, norm, store_targets
from mdsa.cfg import walk_local
from mdsa.loader import AnalysisError

from mdsa import match as MM

from .sem import F
from .common import Ctx, local_defs

D = "util.diff"
EXPLANATION = (
    "R1: DiffNode.nodes is abstracted to its sequence of emission events by unrolling loops over literal lists; all events of the "
    "`removed` bucket precede the event for the node itself, all of `added` follow it, `modified` is not after `added`; each bucket is "
    "emitted in sorted path order via the children's own nodes(); every return yields the fully built list. R2: DiffNode.compare is "
    "evaluated for the 3x3 kinds of (prev, curr): in each cell the reachable bucket stores, the roles of the recursive calls "
    "(compare(None, curr[k]) -> added, compare(prev[k], None) -> removed, compare(prev[k], curr[k]) -> modified iff not None) and the "
    "returned value are compared with the table. R3: status() maps prev is None -> added, curr is None -> removed, else modified, using "
    "identity tests only; DirDiff.status(None) is unchanged; get() descends along the path's prefixes matching children by full path."
)
NOT_DECIDED = "reported path set == symmetric difference of the two trees for all snapshot pairs; replaying the order really transforms old into new (runtime)"
KINDS = ("None", "str", "dict")


def run(P, rep, tier):
    rep.explanation = EXPLANATION
    rep.not_decided = NOT_DECIDED
    rep.assumptions = ["directory snapshots are nested dicts with str leaves (DirHashsums)", "sorted() over Path objects is lexicographic by parts"]
    ctx = Ctx(P)
    rep.attempt(r1_emission_order, P, rep, ctx)
    rep.attempt(r2_case_analysis, P, rep, ctx)
    rep.attempt(r3_status, P, rep, ctx)
    rep.attempt(r4_wiring, P, rep, ctx)
    # the snapshots that are compared come from dir_hashsums: every directory (also an empty one) and every entry is in
    # them (structure rule of C19.R4)
    from . import c19

    rep.attempt(c19.r4_structure, P, rep, ctx)
    rep.floor("C18.R1", 5)
    rep.floor("C18.R2", 12)
    rep.floor("C18.R3", 5)
    # refinement against the pinned tree for every function the rules above looked at (rules/pinned.py)
    import os as _os

    if not _os.environ.get("MDSA_PINNED_GEN"):
        from .pinned import refine

        refine(P, rep, ctx, "C18")


# ------------------------------------------------------------------------------------------- R1
def r1_emission_order(P, rep, ctx):
    from mdsa.listbuild import Unrecognised, emission_sequences

    fi = P.func(f"{D}.DiffNode.nodes")
    try:
        seqs, notes = emission_sequences(fi.node, "nodes")
    except Unrecognised as e:
        raise AnalysisError(f"C18.R1: nodes() has an unrecognised shape: {e}")
    loc = fi.loc()
    for ev in seqs:
        order = [t if t == "self" else t[1] for t in ev]
        tag = "" if len(seqs) == 1 else f" [on the path returning {order}]"
        rep.check(order.count("self") == 1, "C18.R1", fi.qual, "the node itself is emitted exactly once", loc, construct="self emitted once" + tag, message=f"nodes() emits the node itself {order.count('self')} times: {order}")
        complete = set(order) >= {"self", "self.removed", "self.modified", "self.added"}
        rep.check(complete, "C18.R1", fi.qual, "nodes() returns the completely built list", loc, construct="complete listing" + tag,
                  message=f"nodes() can return before all buckets were emitted ({order}{'; ' + notes[0] if notes else ''}): e.g. former children of a directory replaced by a file are missing from the listing")
        if "self" in order and complete:
            i = order.index("self")
            rep.check("self.removed" in order[:i] and "self.removed" not in order[i:], "C18.R1", fi.qual, "removed children are emitted before the node itself (a parent is never removed/replaced before its children)", loc,
                      construct="removed before self" + tag, message=f"nodes() emits in the order {order}: removed children do not all precede the node itself, so a parent can be removed or replaced before its children")
            rep.check("self.added" in order[i + 1:] and "self.added" not in order[:i], "C18.R1", fi.qual, "added children are emitted after the node itself (a child is never created before its parent)", loc,
                      construct="added after self" + tag, message=f"nodes() emits in the order {order}: added children do not all follow the node itself, so a child can be created before its parent exists")
            rep.check(order.index("self.modified") < order.index("self.added"), "C18.R1", fi.qual, "modified children are emitted, and not after the added ones", loc,
                      construct="modified placement" + tag, message=f"nodes() order {order}: modified children missing or after added ones")
        for t in ev:
            if t != "self":
                _, name, is_sorted, rec = t
                rep.check(is_sorted and rec, "C18.R1", fi.qual, f"children of {name} are emitted in sorted path order through their own nodes()", loc, construct=f"bucket {name}" + tag, message=f"bucket {name}: sorted={is_sorted}, recursive={rec} (children must be sorted by path and expanded recursively via nodes())")
    an = P.func(f"{D}.DirDiff.annotate")
    af = F(ctx, an)
    comps = [x for x in ast.walk(an.node) if isinstance(x, ast.DictComp) and len(x.generators) == 1 and af.x(x.generators[0].iter) == "self._diff_root.nodes()" and not x.generators[0].ifs and norm(x.key) == norm(x.generators[0].target) + ".path" and norm(x.value) == norm(x.generators[0].target)]
    loops = [n for n in af.g.nodes if n.kind == "for" and af.x(n.stmt.iter) == "self._diff_root.nodes()"]
    # ... and the diff nodes come first in the result: a dict keeps the position of the *first* insertion of a key, so
    # entries put in before (e.g. the directory listing) would dictate the order
    first_ok = False
    for _, rv_ in af.returns():
        if rv_ is None or (isinstance(rv_, ast.Dict) and not rv_.keys):
            continue
        db = af.dict_build(rv_)
        if db is not None and db["families"] and not db["const"]:
            src0 = db["families"][0]["src"]
            first_ok = "self._diff_root.nodes()" in src0
            m0 = MM.match("__d.items()", MM.pat(src0))
            if not first_ok and m0 is not None and isinstance(m0["__d"], ast.Name):
                # the nodes were collected in a dict built by a loop: look at what that dict is filled from
                db2 = af.dict_build(m0["__d"])
                first_ok = db2 is not None and bool(db2["families"]) and "self._diff_root.nodes()" in db2["families"][0]["src"]
    rep.check(first_ok, "C18.R1", an.qual, "the nodes of the diff are the first entries of the annotated listing (their order is the processing order)", an.loc(), construct="annotate: diff nodes first",
              message="annotate inserts other entries (e.g. the directory listing) before the diff nodes: the dict keeps the first insertion position of a key, so changed paths appear in listing order and a replaced directory is listed before its removed children")
    rep.check(bool(comps) or bool(loops), "C18.R1", an.qual, "annotate lists the diff in nodes() order", an.loc(), construct="annotate order", message="annotate does not preserve the nodes() order")


# ------------------------------------------------------------------------------------------- R2
def kind_eval(e: ast.AST, kinds: Dict[str, str]) -> Optional[bool]:
    if isinstance(e, ast.UnaryOp) and isinstance(e.op, ast.Not):
        r = kind_eval(e.operand, kinds)
        return None if r is None else not r
    if isinstance(e, ast.BoolOp):
        vals = [kind_eval(v, kinds) for v in e.values]
        if isinstance(e.op, ast.And):
            return False if False in vals else (True if all(v is True for v in vals) else None)
        return True if True in vals else (False if all(v is False for v in vals) else None)
    if isinstance(e, ast.Call) and norm(e.func) == "isinstance" and norm(e.args[0]) in kinds:
        k = kinds[norm(e.args[0])]
        want = [norm(x) for x in (e.args[1].elts if isinstance(e.args[1], ast.Tuple) else [e.args[1]])]
        return k in want
    if isinstance(e, ast.Compare) and len(e.ops) == 1 and norm(e.left) in kinds and isinstance(e.comparators[0], ast.Constant) and e.comparators[0].value is None:
        k = kinds[norm(e.left)]
        if isinstance(e.ops[0], ast.Is):
            return k == "None"
        if isinstance(e.ops[0], ast.IsNot):
            return k != "None"
    return None


def r2_case_analysis(P, rep, ctx):
    fi = P.func(f"{D}.DiffNode.compare")
    g = ctx.cfg(fi)
    pv, cv = fi.params[1], fi.params[2]
    fx = F(ctx, fi)
    _rn = [v for _, v in fx.returns() if v is not None and isinstance(v, ast.Name)]
    RV = _rn[0].id if _rn else "ret"
    for pk in KINDS:
        for ck in KINDS:
            kinds = {pv: pk, cv: ck}
            block = []
            for t in g.nodes:
                if t.kind == "test":
                    r = kind_eval(fx.xe_at(t.idx, t.exprs[0]), kinds)
                    if r is True:
                        block.append((t.idx, "F"))
                    elif r is False:
                        block.append((t.idx, "T"))
                elif t.kind == "stmt" and isinstance(t.stmt, ast.Assert):
                    r = kind_eval(fx.xe_at(t.idx, t.stmt.test), kinds)
                    if r is False:
                        # assertion fails for this cell -> no normal continuation
                        block += [(t.idx, "")]
            live = g.reach([g.entry], labels_block=block)
            rets = sorted({norm(g.nodes[n].stmt.value) for n in live if isinstance(g.nodes[n].stmt, ast.Return)})
            stores = {}
            for n in live:
                st = g.nodes[n].stmt
                if g.nodes[n].kind == "stmt" and isinstance(st, ast.Assign):
                    for t in st.targets:
                        tt = norm(t)
                        for b in ("added", "removed", "modified"):
                            if tt.startswith(f"{RV}.{b}["):
                                stores.setdefault(b, set()).add(norm(st.value))
            cell = f"(prev={pk}, curr={ck})"
            loc = fi.loc()
            reaches_exit = g.exit in live
            rep.check(reaches_exit, "C18.R2", fi.qual, f"cell {cell} reaches a return", loc, construct=f"cell {cell} returns", message=f"compare has no return for {cell}")
            if pk != "dict" and ck != "dict":
                ok = rets == ["None", RV] and not stores
                rep.check(ok, "C18.R2", fi.qual, f"cell {cell}: leaf comparison, no children", loc, construct=f"cell {cell} effects", message=f"compare for {cell}: returns {rets}, fills {sorted(stores)} (expected: None iff equal else the node, no children)")
                eqt = [t for t in g.nodes if t.idx in live and t.kind == "test" and norm(t.exprs[0]) in (f"{pv} == {cv}", f"{cv} == {pv}")]
                okeq = bool(eqt) and all(all(norm(g.nodes[b].stmt.value) == "None" for b, l in g.succ[t.idx] if l == "T" and isinstance(g.nodes[b].stmt, ast.Return)) for t in eqt)
                eq_edges = [(t.idx, "T") for t in eqt]
                none_rets = [n for n in live if isinstance(g.nodes[n].stmt, ast.Return) and (g.nodes[n].stmt.value is None or norm(g.nodes[n].stmt.value) == "None")]
                okeq = okeq and all(fx.hit_before(n, edges=eq_edges) for n in none_rets)
                rep.check(okeq, "C18.R2", fi.qual, f"cell {cell}: 'no difference' iff prev == curr", loc, construct=f"cell {cell} equality", message=f"compare for {cell} does not return None exactly when prev == curr")
            elif pk != "dict" and ck == "dict":
                ok = set(stores) == {"added"} and rets == [RV]
                rep.check(ok, "C18.R2", fi.qual, f"cell {cell}: everything inside is added", loc, construct=f"cell {cell} effects", message=f"compare for {cell}: returns {rets}, fills {sorted(stores)} (expected: only `added`, returns the node)")
            elif pk == "dict" and ck != "dict":
                ok = set(stores) == {"removed"} and rets == [RV]
                rep.check(ok, "C18.R2", fi.qual, f"cell {cell}: everything inside is removed", loc, construct=f"cell {cell} effects", message=f"compare for {cell}: returns {rets}, fills {sorted(stores)} (expected: only `removed`, returns the node)")
            else:
                ok = set(stores) == {"added", "removed", "modified"} and rets == ["None", RV]
                rep.check(ok, "C18.R2", fi.qual, f"cell {cell}: three-way split of the keys", loc, construct=f"cell {cell} effects", message=f"compare for {cell}: returns {rets}, fills {sorted(stores)}")
    # roles of the recursive calls, per loop
    import re as _re

    f = F(ctx, fi)
    rets_all = [v for _, v in f.returns() if v is not None and isinstance(v, ast.Name)]
    rv = rets_all[0].id if rets_all else "ret"
    parents = {}
    for par in ast.walk(fi.node):
        for ch in ast.iter_child_nodes(par):
            parents[id(ch)] = par

    def enclosing_for(st):
        cur = st
        while id(cur) in parents:
            cur = parents[id(cur)]
            if isinstance(cur, ast.For):
                return cur
        return None

    def canon(t: str) -> str:
        for X in (pv, cv):
            t = t.replace(f"set({X}.keys())", f"K({X})").replace(f"set({X})", f"K({X})").replace(f"{X}.keys()", f"K({X})")
        return t

    roles = set()
    for b_ in ("added", "removed", "modified"):
        for i_, v_, bd in f.stores(f"{rv}.{b_}[__k]"):
            call = f.xe_at(i_, v_)
            m = MM.match("cls.compare(__a, __b, __p)", call)
            loop = enclosing_for(g.nodes[i_].stmt)
            if m is None or loop is None:
                roles.add(("?", (norm(call)[:40],), b_))
                continue
            tg = loop.target
            kv = norm(tg.elts[0]) if isinstance(tg, ast.Tuple) else norm(tg)
            vv = norm(tg.elts[1]) if isinstance(tg, ast.Tuple) and len(tg.elts) > 1 else None

            def ph(e):
                t = norm(e)
                t = _re.sub(rf"\b{_re.escape(kv)}\b", "K", t)
                if vv:
                    t = _re.sub(rf"\b{_re.escape(vv)}\b", "V", t)
                return t

            okp = ph(m["__p"]) == f"{rv}.path / K" and ph(f.xe_at(i_, bd["__k"])) == f"{rv}.path / K"
            it_ = f.xe(loop.iter)
            while isinstance(it_, ast.Call) and isinstance(it_.func, ast.Name) and it_.func.id in ("sorted", "list", "tuple") and len(it_.args) == 1 and not it_.keywords:
                it_ = it_.args[0]  # the order in which the keys are visited does not matter for the buckets
            roles.add((canon(norm(it_)), (ph(m["__a"]), ph(m["__b"])), b_ if okp else b_ + "(wrong path)"))
    A_, R_ = f"K({cv}) - K({pv})", f"K({pv}) - K({cv})"
    common = {f"(K({pv}) | K({cv})) - ({A_}) - ({R_})", f"K({pv}) | K({cv}) - ({A_}) - ({R_})", f"K({pv}) & K({cv})", f"K({cv}) & K({pv})", f"K({pv}).intersection(K({cv}))"}
    want_fixed = {
        (f"{cv}.items()", ("None", "V"), "added"), (f"{pv}.items()", ("V", "None"), "removed"),
        (A_, ("None", f"{cv}[K]"), "added"), (R_, (f"{pv}[K]", "None"), "removed"),
    }
    got_common = {r for r in roles if r[2] == "modified"}
    ok_roles = (roles - got_common) == want_fixed and len(got_common) == 1 and all(r[0].replace("(" + A_ + ")", "(" + A_ + ")") in common and r[1] == (f"{pv}[K]", f"{cv}[K]") for r in got_common)
    rep.check(ok_roles, "C18.R2", fi.qual, "recursive calls carry the right roles into the right buckets (added = curr - prev, removed = prev - curr, common = the rest)", fi.loc(), construct="bucket roles",
              message=f"compare feeds the buckets with wrong roles / key sets: {sorted(roles)}")
    mod_st = [i_ for i_, v_, bd in f.stores(f"{rv}.modified[__k]")]
    differs = f.tests("cls.compare(__a, __b, __p) is not None")
    # only the comparisons of the loop that fills `modified` (the other buckets assert theirs)
    mod_loops = [enclosing_for(g.nodes[i_].stmt) for i_ in mod_st]
    in_mod_loops = {id(x) for lp_ in mod_loops if lp_ is not None for x in ast.walk(lp_)}
    differs = [e for e in differs if id(g.nodes[e[0]].stmt) in in_mod_loops]
    okm = bool(mod_st) and bool(differs) and f.all_hit_before(mod_st, edges=differs)
    for i_ in mod_st:
        loop = enclosing_for(g.nodes[i_].stmt)
        ln = next((n.idx for n in g.nodes if n.kind == "for" and n.stmt is loop), None)
        okm = okm and ln is not None and all(f.hit_before(ln, nodes=mod_st, src_edge=e) for e in differs)
    rep.check(okm, "C18.R2", fi.qual, "a common key is reported as modified iff its recursive comparison found a difference", fi.loc(), construct="modified iff diff", message="common keys are not reported exactly when their comparison is not None")
    t_add, t_rem, t_mod = f.tests(f"{rv}.added"), f.tests(f"{rv}.removed"), f.tests(f"{rv}.modified")
    all_rets = [(i_, v_) for i_, v_ in f.returns()]
    dir_rets = [(i_, v_) for i_, v_ in all_rets if t_add and f.hit_before(i_, nodes=f.test_nodes(t_add))]
    none_r = [i_ for i_, v_ in dir_rets if v_ is None or (isinstance(v_, ast.Constant) and v_.value is None)]
    node_r = [i_ for i_, v_ in dir_rets if isinstance(v_, ast.Name) and v_.id == rv]
    oks = all((t_add, t_rem, t_mod, none_r, node_r)) and all(f.under_all(i_, [f.neg(t_add), f.neg(t_rem), f.neg(t_mod)]) for i_ in none_r) and all(f.hit_before(i_, edges=t_add + t_rem + t_mod) for i_ in node_r) and len(none_r) + len(node_r) == len(dir_rets)
    rep.check(oks, "C18.R2", fi.qual, "'no difference' for directories iff all three buckets are empty", fi.loc(), construct="same_dir definition", message="'no difference' for directories is not decided by the emptiness of all three buckets")
    rep.check(oks, "C18.R2", fi.qual,
              "identical directories give None, different ones the node", fi.loc(), construct="same_dir branch", message="compare returns the node for identical directories / None for different ones")
    from .common import require_total

    for q in (f"{D}.DiffNode.compare", f"{D}.DiffNode.nodes", f"{D}.DiffNode.children", f"{D}.DiffNode.status", f"{D}.DirDiff.get", f"{D}.DirDiff.annotate", f"{D}.DirDiff.status", f"{D}.DirDiff.compare", f"{D}.dir_paths"):
        require_total(rep, ctx, "C18.R2", P.func(q))
    rd = [norm(v) for k, v in local_defs(fi).get(rv, []) if v is not None]
    rep.check(rd == [f"cls(path={fi.params[3]}, prev={pv}, curr={cv})"] and not any("(wrong path)" in r[2] for r in roles), "C18.R2", fi.qual, "child paths extend the node's path; the node records old and new entry", fi.loc(), construct="paths / entries", message="compare does not build child paths as ret.path / k or record prev/curr")


# ------------------------------------------------------------------------------------------- R3
def _nonempty_test(test: ast.AST, name: str) -> bool:
    """`while xs:` / `while len(xs) > 0:` / `while len(xs) != 0:` / `while len(xs) >= 1:`"""
    from mdsa.cfg import polarity

    a, neg = polarity(test)
    return not neg and norm(a) in (name, f"len({name})")


def r4_wiring(P, rep, ctx):
    """The small functions everything else is read through: the diff object holds the comparison of exactly the two given
    trees; the kind of an entry (directory / symlink / file / nothing) is decided by its hashsum-tree value; annotate lists
    every path of the directory that is not in the diff as unchanged."""
    fi = P.func(f"{D}.DirDiff.compare")
    f = F(ctx, fi)
    pv, cv = fi.params[1], fi.params[2]
    rets = [v for _, v in f.returns() if v is not None]
    rv = rets[0].id if len(rets) == 1 and isinstance(rets[0], ast.Name) else None
    st = [i for i, v, b in f.stores(f"{rv}._diff_root") if f.x_at(i, f.g.nodes[i].stmt.value) in (f"DiffNode.compare({pv}, {cv}, Path(''))", f"DiffNode.compare({pv}, {cv}, Path())", f"DiffNode.compare({pv}, {cv}, Path('.'))")] if rv else []
    rebound = sorted({x.id for x in ast.walk(fi.node) if isinstance(x, ast.Name) and isinstance(x.ctx, ast.Store) and x.id in (pv, cv)})
    rep.check(not rebound, "C18.R4", fi.qual, "the two snapshots are compared as given", fi.loc(), construct=f"DirDiff.compare re-binds {rebound}",
              message=f"DirDiff.compare replaces its argument(s) {rebound} by a transformed copy before comparing: two snapshots that differ only in what the transformation erases (e.g. the case of a symlink target or of a file name's hash entry) are reported as equal")
    rep.check(bool(st) and f.hit_before(f.g.exit, nodes=st), "C18.R4", fi.qual, "the diff object stores DiffNode.compare(prev, curr, <root path>) before it is returned", fi.loc(), construct="DirDiff.compare root",
              message="DirDiff.compare does not store the comparison of (prev, curr) as the root of the returned object: every diff is empty / belongs to other trees")
    # kind of an entry
    tfi = P.func(f"{D}.DiffNode._type")
    tf = F(ctx, tfi)
    ev = tfi.params[1]
    try:
        tp = tf.value_paths()
    except ValueError as e:
        raise AnalysisError(f"C18.R4: _type: {e}")
    ok = bool(tp)
    seen = set()
    SYM = (f"{ev}.find('symlink:') == 0", f"{ev}.startswith('symlink:')")
    for lits, v, n_ in tp:
        d = dict(lits)
        is_dir = d.get(f"isinstance({ev}, dict)")
        truthy = d.get(ev)
        sym = next((d[k] for k in SYM if k in d), None)
        t = norm(v)
        if is_dir:
            want = "DiffNode.ObjType.directory"
        elif truthy is False:
            want = "None"
        elif truthy and sym is True:
            want = "DiffNode.ObjType.symlink"
        elif truthy and sym is False:
            want = "DiffNode.ObjType.file"
        else:
            ok = False
            continue
        seen.add(want)
        ok = ok and t == want
    rep.check(ok and len(seen) == 4, "C18.R4", tfi.qual, "dict -> directory, 'symlink:..' -> symlink, other non-empty value -> file, nothing -> None", tfi.loc(), construct="DiffNode._type table",
              message="DiffNode._type does not map hashsum-tree values to (directory | symlink | file | None) as the diff logic assumes: kinds of changed entries are misreported")
    # annotate: everything in the directory that is not in the diff is listed as unchanged (None)
    an = P.func(f"{D}.DirDiff.annotate")
    af = F(ctx, an)
    bd = an.params[1]
    okl = False
    for _, rv_ in af.returns():
        if rv_ is None or (isinstance(rv_, ast.Dict) and not rv_.keys):
            continue
        db = af.dict_build(rv_)
        if db is None:
            continue
        rest = [fm for fm in db["families"][1:] if fm["val"] == "None"]
        okl = len(db["families"]) == 2 and len(rest) == 1 and f"dir_paths({bd})" in rest[0]["src"] and rest[0]["key"] == f"{bd} / str(V0)" and MM.equivalent(rest[0]["kept"], "True") and db["families"][0]["key"] == f"{bd} / str(V0)" and db["families"][0]["val"] == "V1"
    rep.check(okl, "C18.R4", an.qual, "annotate = the diff nodes, then every other path of the directory with None", an.loc(), construct="annotate: unchanged paths", message="annotate does not list every path of the directory that is not part of the diff as unchanged (None) under base_dir / path")
    empty = af.tests("self._diff_root is None")
    e_rets = [i for i, v in af.returns() if isinstance(v, ast.Dict) and not v.keys]
    full = [i for i, v in af.returns() if not (isinstance(v, ast.Dict) and not v.keys)]
    rep.check(bool(empty) and bool(e_rets) and bool(full) and af.all_hit_before(e_rets, edges=empty) and all(af.hit_before(af.g.exit, nodes=e_rets, src_edge=e) for e in empty), "C18.R4", an.qual, "an empty diff annotates nothing; a non-empty one is never cut short", an.loc(), construct="annotate: empty diff",
              message="annotate returns the empty listing for a non-empty diff (or goes on with an empty one)")
    # the snapshot a later diff is taken against is recorded only after the packer has processed the diff completely:
    # `_finalize` (stores the new hashsums as packer info) is reached only when `packer.update` / `packer.pack` returned
    # normally -- never from a `finally:` / `except:` around that call (a packer fault would record the new snapshot, and the
    # retry diff would omit every path that was not processed)
    for q, pc in (("packer.PGPacker.update", "update"), ("packer.PGPacker.pack", "pack")):
        ufi = P.func(q)
        ug = ctx.cfg(ufi)
        # the plugin's method: `<local>.update(Unclosable(container), ..)` / `<local>.pack(Unclosable(container), ..)`
        def _is_packer_call(c):
            return call_attr(c) == pc and isinstance(c.func, ast.Attribute) and isinstance(c.func.value, ast.Name) and c.func.value.id != "self" and bool(c.args) and isinstance(c.args[0], ast.Call) and norm(c.args[0].func) == "Unclosable"
        pcalls = [n.idx for n in ug.nodes if any(_is_packer_call(c) for c in ug.calls(n.idx))]
        fins = [n.idx for n in ug.nodes if any(call_attr(c) == "_finalize" for c in ug.calls(n.idx))]
        if not pcalls or not fins:
            raise AnalysisError(f"C18.R4: {q}: packer.{pc}(..) / self._finalize(..) call not found")
        ok = all(ug.every_path_passes(pcalls, f_) for f_ in fins)
        in_cleanup = []
        for t in walk_local(ufi.node):
            if isinstance(t, ast.Try) and any(_is_packer_call(c) for b in t.body for c in local_calls(b)):
                in_cleanup += [c for b in list(t.finalbody) + [b2 for h in t.handlers for b2 in h.body] for c in local_calls(b) if call_attr(c) == "_finalize"]
        rep.check(ok and not in_cleanup, "C18.R4", ufi.qual, f"the new snapshot is recorded only after packer.{pc} returned normally", ufi.loc(in_cleanup[0]) if in_cleanup else ufi.loc(), construct=f"_finalize after packer.{pc}",
                  message=f"{ufi.qual} records the new directory snapshot (self._finalize) {'in the clean-up of the try around' if in_cleanup else 'without passing'} packer.{pc}: after a packer fault the container claims the new state and the next diff omits the unprocessed paths")


def r3_status(P, rep, ctx):
    fi = P.func(f"{D}.DiffNode.status")
    f = F(ctx, fi)
    g = f.g
    p_none, c_none = f.tests("self.prev is None"), f.tests("self.curr is None")
    others = [norm(t.exprs[0]) for t in g.nodes if t.kind == "test" and t.idx not in f.test_nodes(p_none + c_none)]
    rep.check(bool(p_none) and bool(c_none) and not others, "C18.R3", fi.qual, "status is decided by identity tests on prev / curr only", fi.loc(), construct="status tests",
              message=f"status() decides with {others or 'fewer tests'}: a truthiness test misclassifies an empty directory ({{}}) or an empty entry as removed/added")
    rets = {f.x(v): i for i, v in f.returns() if v is not None}
    A, R, Mo = "DiffNode.Status.added", "DiffNode.Status.removed", "DiffNode.Status.modified"
    ok = all(k in rets for k in (A, R, Mo)) and len(rets) == 3
    if ok:
        ok = (f.hit_before(rets[A], edges=p_none) and all(f.hit_before(g.exit, nodes=[rets[A]], src_edge=e) for e in p_none)
              and f.under_all(rets[R], [f.neg(p_none), c_none]) and f.under_all(rets[Mo], [f.neg(p_none), f.neg(c_none)])
              and bool(f.refuses_when([["self.prev is not None"], ["self.curr is None"]], targets=[rets[A], rets[Mo]])))
    rep.check(ok, "C18.R3", fi.qual, "prev is None -> added, curr is None -> removed, otherwise modified", fi.loc(), construct="status mapping", message=f"status mapping changed: returns {sorted(rets)}")
    dsfi = P.func(f"{D}.DirDiff.status")
    ds = F(ctx, dsfi)
    nd = dsfi.params[1]
    U, DEL = "DiffNode.Status.unchanged", f"{nd}.status()"
    try:
        dpaths = ds.value_paths()
    except ValueError as e:
        raise AnalysisError(f"C18.R3: DirDiff.status: {e}")
    ok = bool(dpaths)
    seen_ = set()
    for lits, v, n_ in dpaths:
        isn = [tv for k, tv in lits if k == f"{nd} is None"]
        ok = ok and len(isn) == 1 and norm(v) == (U if isn[0] else DEL)
        seen_ |= set(isn)
    ok = ok and seen_ == {True, False}
    rep.check(ok, "C18.R3", dsfi.qual, "a path without diff node is unchanged", dsfi.loc(), construct="DirDiff.status", message="DirDiff.status(None) is not `unchanged` / does not delegate to node.status()")
    gtfi = P.func(f"{D}.DirDiff.get")
    gt = F(ctx, gtfi)
    pp = gtfi.params[1]
    # walk: for each proper prefix of the path (shortest first, '.' dropped) descend to the child whose full path equals the prefix
    gens = [x for x in ast.walk(gtfi.node) if isinstance(x, ast.GeneratorExp) and len(x.generators) == 1 and len(x.generators[0].ifs) == 1 and MM.match("__c.children()", x.generators[0].iter) is not None]
    ok = len(gens) == 1
    by_key = False
    if not gens:
        # the same lookup through a (new) keyed accessor of the node: child(path) = the entry registered under `path` in one
        # of the three buckets (children are stored under their own full path: C18.R2 'bucket roles')
        cc = gt.call_sites("__c.child(__q)")
        chm = P.cls(f"{D}.DiffNode").methods.get("child")
        if cc and chm is not None:
            cf = F(ctx, chm)
            cp = chm.params[1]
            bl = [n_ for n_ in cf.g.nodes if n_.kind == "for" and isinstance(n_.stmt.target, ast.Name) and isinstance(n_.stmt.iter, (ast.Tuple, ast.List)) and sorted(norm(e_) for e_ in n_.stmt.iter.elts) == ["self.added", "self.modified", "self.removed"]]
            good_rets = all(v is None or (isinstance(v, ast.Constant) and v.value is None) or (bl and cf.x_at(i, v) == f"{bl[0].stmt.target.id}.get({cp})") for i, v in cf.returns())
            by_key = len(bl) == 1 and good_rets and any(v is not None and not isinstance(v, ast.Constant) for i, v in cf.returns())
            ok = by_key
    if ok and not by_key:
        ge = gens[0]
        xv = norm(ge.generators[0].target)
        m = MM.match(f"{xv}.path == __q", ge.generators[0].ifs[0]) or MM.match(f"__q == {xv}.path", ge.generators[0].ifs[0])
        ok = m is not None and norm(ge.elt) == xv
    if ok:
        lists = {}
        for nm_, ds_ in local_defs(gtfi).items():
            for k_, v_ in ds_:
                if v_ is None:
                    continue
                # the whole prefix list, optionally with its last element ('.') sliced off -- the slice must apply to the whole
                # list: `[p] + list(p.parents)[:-1]` only shortens the parents and keeps '.' for the path '.' itself
                whole, dropped_ = v_, False
                if isinstance(v_, ast.Subscript) and norm(v_.slice) == ":-1":
                    whole, dropped_ = v_.value, True
                if norm(whole) in (f"[{pp}] + list({pp}.parents)", f"[{pp}, *{pp}.parents]", f"[{pp}, *list({pp}.parents)]"):
                    lists[nm_] = dropped_
        shortest_first = False
        for nm_, dropped in lists.items():
            pops = [c_ for c_ in local_calls(gtfi.node) if MM.match(f"{nm_}.pop()", c_) is not None]
            loops_w = [n_ for n_ in gt.g.nodes if n_.kind == "loop" and _nonempty_test(n_.stmt.test, nm_)]
            rev = [n_ for n_ in gt.g.nodes if n_.kind == "for" and norm(n_.stmt.iter) in (f"reversed({nm_})", f"{nm_}[::-1]", f"reversed({nm_}[:-1])")]
            if (loops_w and len(pops) >= (1 if dropped else 2)) or (rev and (dropped or any("[:-1]" in norm(n_.stmt.iter) for n_ in rev) or pops)):
                shortest_first = True
        ok = ok and shortest_first
    empty = gt.tests("self._diff_root is None")
    miss = gt.tests("__n is None")
    miss = [e for e in miss if e not in empty]
    nones = [i for i, v in gt.returns() if v is None or (isinstance(v, ast.Constant) and v.value is None)]
    ok = ok and bool(empty) and bool(miss) and bool(nones) and all(gt.hit_before(gt.g.exit, nodes=nones, src_edge=e) for e in empty + miss)
    rep.check(ok, "C18.R3", gtfi.qual, "lookup descends along the prefixes of the path, matching children by their full path", gtfi.loc(), construct="DirDiff.get", message="DirDiff.get does not walk the path's prefixes from the shortest, matching children by full path")
    rep.check(bool(empty) and gt.refuses_when([["self._diff_root is None"]], targets=[i for i, v in gt.returns() if i not in nones]) is True, "C18.R3", gtfi.qual, "lookup returns None for an empty diff", gtfi.loc(), construct="get preamble", message="DirDiff.get lost its empty-diff handling")
    ch = P.func(f"{D}.DiffNode.children")
    tch = norm(ch.node)
    rep.check(all(f"self.{b}" in tch for b in ("removed", "modified", "added")), "C18.R3", ch.qual, "children() covers all three buckets", ch.loc(), construct="children()", message="children() does not chain removed, modified and added")
    ty = P.func(f"{D}.DiffNode._type")
    rep.check(any(MM.match(f"isinstance({ty.params[-1]}, dict)", x) is not None for x in ast.walk(ty.node)), "C18.R3", ty.qual, "directory type is decided by isinstance(dict) (empty dirs included)", ty.loc(), construct="_type", message="_type does not classify dicts (incl. empty) as directories")


def _re_search(p, t):
    import re

    return re.search(p, t)
