"""C03 — Closing and reopening a record reproduces exactly the same view; open modes follow the h5py contract.

Decided: R1 order independence (sort by patch_index before any index-based access); R2 mode dispatch — the constructor
is partially evaluated for every open mode x {prefix path, file list} x {files found, none} and the reachable effects
are compared with the contract table; R3 file-name discovery is unambiguous for all record names (character-class
reasoning on the repo's regex constants); R4 close commits, discard removes only the newest; R5 user-block codec
agreement between save and load.  Not decided: equality of the reopened view with the previous one (runtime).
"""
from __future__ import annotations

import ast
import itertools
from typing import Dict, List, Optional, Tuple

from mdsa import regexlang as RL
from mdsa.astutil import arg_or_kw, call_attr, call_recv, kwarg, local_calls, norm, store_targets
from mdsa.cfg import walk_local
from mdsa.loader import AnalysisError, NoFold

from mdsa import match as M
from mdsa import match as MM

from .sem import F
from .common import Ctx, fold_str, local_defs, node_of

R = "ih5.record"
REC = f"{R}.IH5Record"
EXPLANATION = (
    "R1 ORDER: in _open the sort of __files__ by patch_index dominates every _ublock(<int>) access and every _check_ublock call. "
    "R2 EXHAUST: OpenMode's members are read from util/types.py; IH5Record.__init__ is partially evaluated (finite abstract domain: "
    "mode string, argument kind, files found, _has_writable) for 6 modes x 2 argument kinds x 2 disk situations (+ an unknown mode), "
    "collecting the reachable calls/raises per cell, which must equal the contract table of the property text. R3: the character after the "
    "record name in find_files' filter is a class disjoint from the record-name alphabet and containing the first characters of the patch "
    "infix and file extension (charset algebra on the parsed regexes), names are validated before any file-system access, list_records "
    "uses the same alphabet. R4: close() commits a pending patch before closing and marks the record closed on every path; discard "
    "deletes only the newest container. R5: save writes MAGIC\\nSIZE\\nJSON(no newline)NUL and the reader splits into exactly three "
    "parts on '\\n', compares the same magic, and cuts at the first NUL."
)
NOT_DECIDED = "the reopened view equals the view before close (runtime equality); behaviour of h5py itself"


def run(P, rep, tier):
    rep.explanation = EXPLANATION
    rep.not_decided = NOT_DECIDED
    rep.assumptions = ["a non-empty file list is passed when a list is given", "pathlib glob returns file names of the directory", "pydantic .json() without indent emits no newline"]
    ctx = Ctx(P)
    rep.attempt(r1_sort_first, P, rep, ctx)
    rep.attempt(r1_paths_as_given, P, rep, ctx)
    rep.attempt(r2_mode_dispatch, P, rep, ctx)
    rep.attempt(r3_name_language, P, rep, ctx)
    rep.attempt(r3b_find_files_filter, P, rep, ctx)
    rep.attempt(r3c_list_records_filter, P, rep, ctx)
    rep.attempt(r4_close_discard, P, rep, ctx)
    rep.attempt(r5_codec, P, rep, ctx)
    rep.attempt(r6_file_list_owners, P, rep, ctx)
    rep.attempt(r7_discard_is_the_users_call, P, rep, ctx)
    # open mode 'r' never writes: commit / discard / create_patch refuse read-only records and act only on a really
    # pending newest container (typestate rules shared with C02, rule ids C02.R3)
    from . import c02

    rep.attempt(c02.r3_typestate, P, rep, ctx)
    # reopening an uncommitted patch ('r+' / 'a' continue it) relies on _open exempting exactly the newest container from
    # the hash requirement
    from . import c04

    rep.attempt(c04.r2_open_coverage, P, rep, ctx)
    # a user block that does not fit its reserved space overwrites the HDF5 signature: the container cannot be reopened
    # (writer shape rule of C11.R2)
    from . import c11

    rep.attempt(c11.r2_save_shape, P, rep, ctx)
    rep.floor("C03.R1", 5)
    rep.floor("C03.R2", 25)
    rep.floor("C03.R3", 9)
    rep.floor("C03.R4", 5)
    rep.floor("C03.R5", 8)
    # refinement against the pinned tree for every function the rules above looked at (rules/pinned.py)
    import os as _os

    if not _os.environ.get("MDSA_PINNED_GEN"):
        from .pinned import refine

        refine(P, rep, ctx, "C03")


# ------------------------------------------------------------------------------------------- R1
CANONICALISERS = {"resolve", "realpath", "absolute", "abspath", "readlink", "expanduser", "normpath", "samefile"}


def r1_paths_as_given(P, rep, ctx):
    """The record works with the container paths as the caller (or the directory listing) spelled them: canonicalising
    them (resolve / realpath / ..) makes 'the record next to this path' mean the link target's directory, so patches created
    through a symlinked container are not found when the record is reopened by name."""
    n = 0
    for fi in P.functions.values():
        if fi.module.name not in ("ih5.record", "ih5.manifest", "ih5.overlay", "ih5.skeleton") or not isinstance(fi.node, (ast.FunctionDef, ast.AsyncFunctionDef)):
            continue
        n += 1
        for c in local_calls(fi.node):
            nm = call_attr(c) or (c.func.id if isinstance(c.func, ast.Name) else None)
            if nm in CANONICALISERS:
                rep.fail("C03.R1", fi.qual, f"path canonicalised: {norm(c)[:70]}", f"{fi.qual} canonicalises a container path ({norm(c)[:70]}): file names derived from it (next patch, manifest) no longer lie next to the path the record was opened by", fi.loc(c))
    rep.ok("C03.R1", "ih5", f"{n} functions of the record layer scanned for path canonicalisation", P.module(R).relpath)
    if n < 60:
        raise AnalysisError(f"C03.R1: only {n} functions scanned")


def r3b_find_files_filter(P, rep, ctx, rule="C03.R3"):
    """find_files reports *every* file of the directory whose name has the record's name pattern: the only filter is the
    name test.  A further condition (is it an HDF5 file? is it readable? is it non-empty?) turns a damaged or foreign
    container into an absent one, and the remaining files then open as an older state instead of failing."""
    fi = P.func(f"{REC}.find_files")
    f = F(ctx, fi)
    rets = [v for _, v in f.returns() if v is not None]
    ok = len(rets) == 1
    detail = ""
    if ok:
        rv = rets[0]
        # (only WHICH files are reported matters here, not their order: `sorted(..)` / `list(..)` around the filter is transparent)
        while isinstance(rv, ast.Call) and isinstance(rv.func, ast.Name) and rv.func.id in ("sorted", "list", "tuple") and len(rv.args) == 1 and not any(k.arg == "key" and False for k in rv.keywords):
            rv = rv.args[0]
        if isinstance(rv, ast.GeneratorExp):
            rv = ast.copy_location(ast.ListComp(elt=rv.elt, generators=rv.generators), rv)
        lf = f.list_filter(rv)
        ok = lf is not None and ".glob(" in lf["src"]
        if ok:
            cj = [norm(c_) for c_ in M.conjuncts(lf["kept"])]
            name_tests = [c_ for c_ in cj if c_.startswith("re.match(") or c_.startswith("re.fullmatch(") or ".match(" in c_]
            other = [c_ for c_ in cj if c_ not in name_tests]
            detail = "; ".join(other)
            ok = len(name_tests) == 1 and not other
    rep.check(ok, rule, fi.qual, "find_files keeps every globbed file whose name matches the record's name pattern (no further filter)", fi.loc(), construct="find_files filter",
              message=f"find_files drops files by a condition other than the name pattern ({detail or 'unrecognised shape'}): a corrupted / foreign newest container is skipped instead of making the open fail, and the record opens showing an older state")


def r3c_list_records_filter(P, rep, ctx, rule="C03.R3"):
    """list_records reports the record name of EVERY container file in the directory: a file is left out only when its name
    does not have the form of a container name (the regular expression).  No other test -- in particular no comparison with
    names seen before -- decides about a file (`foo` must not swallow `foo2` or `foo-bar`)."""
    fi = P.func(f"{REC}.list_records")
    f = F(ctx, fi)
    g = f.g
    loops = [n for n in g.nodes if n.kind == "for" and ".glob(" in f.x(n.stmt.iter)]
    if len(loops) != 1:
        # the same as a comprehension over the globbed files: its conditions are the filter
        comps = [x for x in ast.walk(fi.node) if isinstance(x, (ast.ListComp, ast.SetComp, ast.GeneratorExp, ast.DictComp)) and any(".glob(" in norm(gen.iter) for gen in x.generators)]
        if len(comps) != 1:
            rep.info("C03.R3: list_records neither loops nor comprehends over the globbed files in a way the rule knows (no verdict)")
            return
        conds = [norm(c_) for gen in comps[0].generators for c_ in gen.ifs]
        other = [c_ for c_ in conds if not any(k in c_ for k in ("re.match(", "re.fullmatch(", ".match(", ".fullmatch("))]
        rep.check(not other, rule, fi.qual, "list_records keeps every file whose name has the container-name form (no further filter)", fi.loc(), construct="list_records filter",
                  message=f"list_records decides about a file by `{'; '.join(o[:60] for o in other)}` besides the name pattern: records whose name begins like another record's name disappear from the listing")
        return
    body_nodes = g.reach([b for b, lab in g.succ[loops[0].idx] if lab == "iter"], avoid=[loops[0].idx])
    tests = [n for n in g.nodes if n.idx in body_nodes and n.kind == "test"]
    other = [norm(f.xe_at(t.idx, t.exprs[0])) for t in tests if not any(k in norm(f.xe_at(t.idx, t.exprs[0])) for k in ("re.match(", "re.fullmatch(", ".match(", ".fullmatch("))]
    rep.check(not other, rule, fi.qual, "list_records keeps every file whose name has the container-name form (no further filter)", fi.loc(), construct="list_records filter",
              message=f"list_records decides about a file by `{'; '.join(o[:60] for o in other)}` besides the name pattern: records whose name begins like another record's name (foo / foo2 / foo-bar) disappear from the listing")


def r1_sort_first(P, rep, ctx):
    fi = P.func(f"{REC}._open")
    g = ctx.cfg(fi)
    sorts = []
    for n in g.nodes:
        for c in g.calls(n.idx):
            if call_attr(c) == "sort" and "__files__" in norm(c.func):
                key = kwarg(c, "key")
                ok = key is not None and norm(key).endswith(".patch_index") and "_ublock(" in norm(key)
                rep.check(ok, "C03.R1", fi.qual, "files are sorted by the patch_index of their user block", fi.loc(c), construct=f"sort key {norm(key) if key is not None else None}",
                          message=f"_open sorts the files by `{norm(key) if key is not None else 'default order'}`, not by patch_index: a permuted file list is mis-layered or rejected")
                sorts.append(n.idx)
        if n.kind == "stmt" and isinstance(n.stmt, ast.Assign) and isinstance(n.stmt.value, ast.Call) and norm(n.stmt.value.func) == "sorted" and "__files__" in norm(n.stmt.targets[0]):
            key = kwarg(n.stmt.value, "key")
            ok = key is not None and norm(key).endswith(".patch_index")
            rep.check(ok, "C03.R1", fi.qual, "files are sorted by patch_index", fi.loc(n.stmt), construct=f"sorted key {norm(key) if key is not None else None}", message="_open sorts by something other than patch_index")
            sorts.append(n.idx)
    rep.check(bool(sorts), "C03.R1", fi.qual, "the file list is sorted", fi.loc(), construct="sort of __files__", message="_open does not sort the opened files: the view depends on the order of the given file list")
    uses = []
    for n in g.nodes:
        if n.idx in sorts:
            continue
        for e in n.exprs:
            if e is None:
                continue
            for x in walk_local(e):
                if isinstance(x, ast.Call) and call_attr(x) == "_ublock" and x.args and (isinstance(x.args[0], (ast.Constant, ast.UnaryOp, ast.BinOp)) or norm(x.args[0]) in ("i", "i - 1")):
                    uses.append((n.idx, x))
                elif isinstance(x, ast.Call) and call_attr(x) == "_check_ublock":
                    uses.append((n.idx, x))
                elif isinstance(x, ast.Subscript) and norm(x.value).endswith("__files__") and not isinstance(x.ctx, ast.Store):
                    uses.append((n.idx, x))
    for ni, x in uses:
        rep.check(g.every_path_passes(sorts, ni), "C03.R1", fi.qual, f"sort precedes index-based access `{norm(x)[:50]}`", fi.loc(x), construct=f"sort before {norm(x)[:80]}",
                  message=f"`{norm(x)[:80]}` addresses a container by position before the list is sorted by patch_index")
    # the writable reopen addresses the newest container through the *sorted* list, not the caller's list
    from .common import fs_sinks, slice_roots

    for sk in fs_sinks(P, fi):
        if sk["kind"] == "h5py.File" and sk["mode"] != "r" and sk["path"] is not None:
            roots = " ".join(norm(e) for _, e, _ in slice_roots(fi, sk["path"]) if e is not None)
            rep.check("paths[" not in roots and " paths" not in (" " + roots).replace("paths]", ""), "C03.R1", fi.qual, "the uncommitted patch is reopened through the sorted list, not the caller's list", fi.loc(sk["call"]), construct="writable reopen path source",
                      message=f"the writable reopen takes its path from the caller's (unsorted) `paths` list ({norm(sk['path'])}): with a permuted file list the wrong container is reopened")


# ------------------------------------------------------------------------------------------- R2
class Stop(Exception):
    pass


def open_modes(P) -> List[str]:
    m = P.module("util.types")
    e = m.assigns.get("OpenMode")
    if not (isinstance(e, ast.Subscript) and norm(e.value) == "Literal"):
        raise AnalysisError("OpenMode is not a Literal[...]")
    elts = e.slice.elts if isinstance(e.slice, ast.Tuple) else [e.slice]
    out = [x.value for x in elts if isinstance(x, ast.Constant)]
    om = m.assigns.get("OPEN_MODES")
    if om is None or norm(om) != "list(get_args(OpenMode))":
        raise AnalysisError("OPEN_MODES is not list(get_args(OpenMode))")
    return out


UNKNOWN = object()
NONEMPTY = ("<nonempty list>",)


def ev(e: ast.AST, env: Dict[str, object]):
    """Evaluate over the finite abstract domain; returns a Python value or raises KeyError for 'unknown'."""
    if isinstance(e, ast.Constant):
        return e.value
    if isinstance(e, ast.Name):
        if e.id in env:
            v = env[e.id]
            if v is UNKNOWN:
                raise KeyError(e.id)
            return v
        raise KeyError(e.id)
    if isinstance(e, ast.Attribute) and norm(e) == "self._has_writable":
        v = env.get("self._has_writable", UNKNOWN)
        if v is UNKNOWN:
            raise KeyError("hw")
        return v
    if isinstance(e, ast.Subscript):
        return ev(e.value, env)[ev(e.slice, env)]
    if isinstance(e, (ast.Tuple, ast.List, ast.Set)):
        return [ev(x, env) for x in e.elts]
    if isinstance(e, ast.UnaryOp) and isinstance(e.op, ast.Not):
        return not ev(e.operand, env)
    if isinstance(e, ast.UnaryOp) and isinstance(e.op, ast.USub):
        return -ev(e.operand, env)
    if isinstance(e, ast.BoolOp):
        if isinstance(e.op, ast.And):
            res = True
            unknown = False
            for v in e.values:
                try:
                    r = ev(v, env)
                except KeyError:
                    unknown = True
                    continue
                if not r:
                    return r
                res = r
            if unknown:
                raise KeyError("and")
            return res
        unknown = False
        res = False
        for v in e.values:
            try:
                r = ev(v, env)
            except KeyError:
                unknown = True
                continue
            if r:
                return r
            res = r
        if unknown:
            raise KeyError("or")
        return res
    if isinstance(e, ast.Compare) and len(e.ops) == 1:
        a, b = ev(e.left, env), ev(e.comparators[0], env)
        op = e.ops[0]
        if isinstance(op, ast.Eq):
            return a == b
        if isinstance(op, ast.NotEq):
            return a != b
        if isinstance(op, ast.In):
            return a in b
        if isinstance(op, ast.NotIn):
            return a not in b
        if isinstance(op, ast.Is):
            return a is b
        if isinstance(op, ast.IsNot):
            return a is not b
    if isinstance(e, ast.Call) and norm(e.func) == "isinstance" and norm(e.args[0]) == "record":
        return (env["__kind"] == "list") == (norm(e.args[1]) == "list")
    if isinstance(e, ast.Call) and norm(e.func) == "isinstance" and len(e.args) == 2:
        # a concretely known value against builtin types
        val = ev(e.args[0], env)
        BT = {"str": str, "bytes": bytes, "int": int, "bool": bool, "list": list, "tuple": tuple, "dict": dict, "float": float}
        ts = e.args[1].elts if isinstance(e.args[1], ast.Tuple) else [e.args[1]]
        if val is not UNKNOWN and not (isinstance(val, tuple) and val is NONEMPTY) and all(norm(t) in BT for t in ts):
            return isinstance(val, tuple(BT[norm(t)] for t in ts))
    raise KeyError(norm(e))


def interpret(g, fi, env: Dict[str, object]) -> List[List[str]]:
    """All effect traces of the constructor for one cell of the abstract domain."""
    traces = []

    def walk(node, env, trace, depth):
        if depth > 200:
            raise AnalysisError("C03.R2: evaluation does not terminate")
        n = g.nodes[node]
        if node == g.exit:
            traces.append(trace)
            return
        if node == g.raise_exit:
            traces.append(trace)
            return
        env = dict(env)
        trace = list(trace)
        if n.kind == "test":
            try:
                val = bool(ev(n.exprs[0], env))
                labs = ["T"] if val else ["F"]
            except KeyError:
                if "_has_writable" in norm(n.exprs[0]):
                    for hw in (True, False):
                        e2 = dict(env)
                        e2["self._has_writable"] = hw
                        val = bool(ev(n.exprs[0], e2))
                        for b, lab in g.succ[node]:
                            if lab == ("T" if val else "F"):
                                walk(b, e2, trace + [f"[has_writable={hw}]"], depth + 1)
                    return
                raise AnalysisError(f"C03.R2: cannot evaluate `{norm(n.exprs[0])}` in {sorted(k for k in env if not k.startswith('__'))}")
            for b, lab in g.succ[node]:
                if lab in labs:
                    walk(b, env, trace, depth + 1)
            return
        if n.kind == "stmt":
            st = n.stmt
            if isinstance(st, ast.Raise):
                exc = norm(st.exc.func) if isinstance(st.exc, ast.Call) else norm(st.exc)
                traces.append(trace + [f"raise {exc}"])
                return
            for c in g.calls(node):
                nm = call_attr(c)
                if nm == "_create":
                    tr = kwarg(c, "truncate")
                    trace.append(f"_create(truncate={ev(tr, env) if tr is not None else False})")
                elif nm == "_open":
                    ro = kwarg(c, "reopen_incomplete_patch")
                    trace.append(f"_open(reopen_incomplete_patch={ev(ro, env) if ro is not None else False})")
                elif nm == "create_patch":
                    trace.append("create_patch()")
                elif nm == "find_files":
                    trace.append("find_files()")
                elif nm in ("delete_files", "commit_patch", "discard_patch", "unlink", "_new_container"):
                    trace.append(f"{nm}()")
            if isinstance(st, (ast.Assign, ast.AnnAssign)) and st.value is not None:
                tgts = st.targets if isinstance(st, ast.Assign) else [st.target]
                for t in tgts:
                    tn = norm(t)
                    if isinstance(t, ast.Name) and (norm(st.value) == fi.params[1] or any(isinstance(c_, ast.Call) and call_attr(c_) == "find_files" for c_ in ast.walk(st.value))):
                        # the file list: the caller's list, or what find_files returns
                        if norm(st.value) == fi.params[1]:
                            env[tn] = NONEMPTY if env["__kind"] == "list" else "<path argument>"
                        else:
                            env[tn] = NONEMPTY if env["__found"] else []
                    elif tn == "self._allow_patching":
                        trace.append(f"_allow_patching={ev(st.value, env)}")
                    elif isinstance(t, ast.Name):
                        try:
                            env[tn] = ev(st.value, env)
                        except KeyError:
                            env[tn] = UNKNOWN
            if isinstance(st, ast.Return):
                traces.append(trace)
                return
        for b, lab in g.succ[node]:
            if lab in ("exc", "assert"):
                continue
            walk(b, env, trace, depth + 1)

    walk(g.entry, env, [], 0)
    return traces


def contract(mode: str, kind: str, found: bool, modes: List[str]) -> List[List[str]]:
    """Expected effect traces (one per value of _has_writable where it matters)."""
    if mode not in modes:
        return [["raise ValueError"]]
    if mode in ("w", "w-", "x"):
        if kind == "list":
            return [["raise ValueError"]]
        return [[f"_create(truncate={mode == 'w'})"]]
    pre = [] if kind == "list" else ["find_files()"]
    if not found and kind == "path":
        if mode == "a":
            return [pre + ["_create(truncate=False)"]]
        return [pre + ["raise FileNotFoundError"]]
    rw = mode != "r"
    base = pre + [f"_open(reopen_incomplete_patch={rw})", f"_allow_patching={rw}"]
    if not rw:
        return [base]
    return [base + ["[has_writable=True]"], base + ["[has_writable=False]", "create_patch()"]]


FILE_LIST_SHRINKERS = {
    "ih5.record.IH5Record._delete_latest_container": "discarding the writable container (the only one that may be dropped)",
    "ih5.record.IH5Record.close": "closing the record",
    "ih5.record.IH5Record._create": "fresh record object",
    "ih5.record.IH5Record._open": "fresh record object (the list is built once, from the given paths)",
    "ih5.record.IH5Record.__init__": "fresh record object",
    "ih5.record.IH5Record.__new__": "fresh record object",
}


def r6_file_list_owners(P, rep, ctx, rule="C03.R6"):
    """The view of a record is the overlay of ALL its containers.  Opening builds the container list once from the files it was
    given; afterwards a container leaves the list only when the writable one is discarded or the record is closed.  Nothing
    else drops, pops or re-slices it (a record opened read-only shows an uncommitted patch as it is -- recognisably uncommitted --,
    it does not hide it)."""
    n = 0
    for fi in P.functions.values():
        if not fi.module.name.startswith("ih5."):
            continue
        top = fi
        while getattr(top, "parent", None) is not None:
            top = top.parent
        for x in walk_local(fi.node):
            bad = None
            if isinstance(x, ast.Call) and isinstance(x.func, ast.Attribute) and x.func.attr in ("pop", "remove", "clear") and norm(x.func.value).endswith(".__files__"):
                bad = x
            if isinstance(x, ast.Delete) and any(isinstance(t, ast.Subscript) and norm(t.value).endswith(".__files__") for t in x.targets):
                bad = x
            if isinstance(x, (ast.Assign, ast.AugAssign)) and any(isinstance(t, ast.Attribute) and t.attr == "__files__" for t in (x.targets if isinstance(x, ast.Assign) else [x.target])):
                v = x.value
                fresh = isinstance(v, (ast.List, ast.ListComp)) and not any(isinstance(y, ast.Attribute) and y.attr == "__files__" for y in ast.walk(v))
                # a re-ordering of the same list (sorted(x.__files__, key=..)) keeps every container
                perm = isinstance(v, ast.Call) and isinstance(v.func, ast.Name) and v.func.id == "sorted" and len(v.args) == 1 and isinstance(v.args[0], ast.Attribute) and v.args[0].attr == "__files__"
                if perm:
                    continue
                if not fresh:
                    bad = x
                else:
                    n += 1
                    rep.check(top.qual in FILE_LIST_SHRINKERS, rule, fi.qual, f"container list (re)built in {top.name}", fi.loc(x), construct=f"{top.name}: {norm(x)[:60]}", message=f"{fi.qual} replaces the container list of a record (`{norm(x)[:70]}`): only construction and close() may")
                    continue
            if bad is None:
                continue
            n += 1
            allowed = top.qual in ("ih5.record.IH5Record._delete_latest_container", "ih5.record.IH5Record.close", "ih5.record.IH5Record.discard_patch")
            rep.check(allowed, rule, fi.qual, f"a container leaves the list only on discard / close ({top.name})", fi.loc(bad), construct=f"{top.name}: {norm(bad)[:60]}",
                      message=f"{fi.qual} removes a container from the record's list (`{norm(bad)[:70]}`): the view no longer contains what that container holds -- e.g. a record reopened read-only silently loses the not yet committed changes that reopening in r+ would show")
    rep.check(n >= 3, rule, "ih5.record", "container list mutation sites found", P.module("ih5.record").relpath, construct="__files__ mutation sites", message="the container list is no longer built / shrunk where the rule expects it: nothing to check")


def r7_discard_is_the_users_call(P, rep, ctx, rule="C03.R7"):
    """discard_patch throws away everything written since the last commit.  It is offered to the user; nothing in the library
    decides on its own to discard (leaving a `with` block by an exception closes -- and thereby commits -- like h5py.File
    closes: what was written before the exception stays written, as on a plain HDF5 file)."""
    n = 0
    for fi in P.functions.values():
        for c in local_calls(fi.node):
            if isinstance(c.func, ast.Attribute) and c.func.attr in ("discard_patch", "_delete_latest_container"):
                top = fi
                while getattr(top, "parent", None) is not None:
                    top = top.parent
                n += 1
                ok = c.func.attr == "_delete_latest_container" and top.qual == "ih5.record.IH5Record.discard_patch"
                if not ok and c.func.attr == "discard_patch":
                    # a NEW public function that offers discarding under another name / with extras is still the user's call;
                    # the rule is about existing operations (and private / protocol code) starting to discard on their own
                    from .pinned import table as _pinned_table

                    known_names = {q_.rsplit(".", 1)[-1] for q_ in _pinned_table()}
                    if top.qual not in _pinned_table() and not top.name.startswith("_") and top.name not in known_names:
                        rep.info(f"C03.R7: new public function {top.qual} delegates to discard_patch (the user's call under another name): not judged")
                        continue
                rep.check(ok, rule, fi.qual, f"{c.func.attr} is reached from discard_patch only", fi.loc(c), construct=f"{top.name}: {norm(c)[:60]}",
                          message=f"{fi.qual} calls `{norm(c)[:60]}`: the library discards the user's uncommitted changes on its own (successful operations of the session are rolled back where the same session on a plain HDF5 file keeps them)")
    rep.check(n >= 1, rule, "ih5.record", "discard sites found", P.module("ih5.record").relpath, construct="discard call sites", message="discard_patch no longer goes through _delete_latest_container: nothing to check")


def r2_mode_dispatch(P, rep, ctx):
    modes = open_modes(P)
    rep.check(sorted(modes) == sorted(["r", "r+", "a", "w", "w-", "x"]), "C03.R2", "util.types", "OpenMode has the six h5py modes", P.module("util.types").relpath, construct=f"OpenMode={modes}", message=f"OpenMode members are {modes}")
    fi = P.func(f"{REC}.__init__")
    g = ctx.cfg(fi)
    cells = 0
    for mode in modes + ["q"]:
        for kind in ("path", "list"):
            for found in (True, False):
                if kind == "list" and not found:
                    continue
                env = {"mode": mode, "__kind": kind, "__found": found, "OPEN_MODES": modes}
                got = interpret(g, fi, env)
                want = contract(mode, kind, found, modes)
                # an unknown mode with a list may be refused at either test
                cells += 1
                gs = sorted(" ; ".join(t) for t in got)
                ws = sorted(" ; ".join(t) for t in want)
                what = f"mode={mode!r} argument={kind} files_found={found}"
                rep.check(gs == ws, "C03.R2", fi.qual, f"{what}: effects == contract {ws}", fi.loc(), construct=f"dispatch cell {what}",
                          message=f"open-mode contract violated for {what}: constructor does {gs}, contract says {ws}")
    # effects happen only after the mode was validated
    f = F(ctx, fi)
    bad_mode = f.tests(f"{fi.params[2]} not in OPEN_MODES")
    eff = [n.idx for n in g.nodes if any(call_attr(c) in ("_create", "_open", "find_files", "create_patch") for c in g.calls(n.idx))]
    rep.check(f.refuses(bad_mode) and f.all_hit_before(eff, nodes=f.test_nodes(bad_mode)), "C03.R2", fi.qual, "the mode is validated before any effect", fi.loc(), construct="mode validation first", message="IH5Record.__init__ touches the file system before validating the open mode")
    ce = F(ctx, P.func(f"{REC}.create_patch"))
    guards = ce.calls("self._expect_not_ro()")
    effs = ce.calls("self._new_container(___)", "__.append(___)")
    rep.check(bool(guards) and ce.all_hit_before(effs, nodes=guards), "C03.R2", ce.fi.qual, "mode 'r' cannot create patches", ce.fi.loc(), construct="create_patch not-ro", message="create_patch does not refuse records opened 'r'")
    md = F(ctx, P.func(f"{REC}.mode"))
    # decision table, however the two answers are spelled (conditional expression, if/else, through a local)
    try:
        bad = md.decision_mismatches(lambda d: "'r+'" if d.get("self._allow_patching") is True else "'r'" if d.get("self._allow_patching") is False else None)
        ok = not bad and md.undecided_paths == 0 and len(md.value_paths()) >= 2
    except ValueError:
        ok = False
    rep.check(ok, "C03.R2", md.fi.qual, "reported mode reflects _allow_patching", md.fi.loc(), construct="mode property", message="mode property does not reflect _allow_patching")
    cr = F(ctx, P.func(f"{REC}._create"))
    trunc = cr.tests("truncate")
    dl = cr.calls("__.delete_files(___)")
    rep.check(bool(trunc) and bool(dl) and cr.all_hit_before(dl, edges=trunc), "C03.R2", cr.fi.qual, "an existing record is deleted only when truncation was requested", cr.fi.loc(), construct="truncate guard", message="_create deletes existing files without `truncate`")
    # mode 'w' replaces the *whole* record: delete_files removes every file find_files reports (the same set _open would load)
    dfi = P.func(f"{REC}.delete_files")
    df_ = F(ctx, dfi)
    rp = dfi.params[1]
    lps = [n for n in df_.g.nodes if n.kind == "for" and isinstance(n.stmt.target, ast.Name) and M.match(f"cls.find_files({rp})", M.canon_collections(df_.xe(n.stmt.iter))) is not None]
    okd = False
    for n in lps:
        un = df_.calls(f"{n.stmt.target.id}.unlink()", f"{n.stmt.target.id}.unlink(missing_ok=True)", f"os.remove({n.stmt.target.id})", f"os.unlink({n.stmt.target.id})")
        okd = bool(un) and df_.hit_before(n.idx, nodes=un, src_edge=(n.idx, "iter")) and df_.hit_before(df_.g.exit, nodes=[n.idx])
    rep.check(okd, "C03.R2", dfi.qual, "delete_files unlinks every container file that find_files reports for the record", dfi.loc(), construct="delete_files covers find_files",
              message="delete_files does not remove exactly the files find_files(record) reports (e.g. it walks the canonical names and stops at a gap): mode 'w' leaves old patch containers behind, which a later open picks up again")
    nc = F(ctx, P.func(f"{REC}._new_container"))
    mk = [c for _, c, b in nc.call_sites("h5py.File(___)")]
    ok = bool(mk) and all(fold_str(P, nc.fi, arg_or_kw(c, 1, "mode")) in ("x", "r+") for c in mk) and any(fold_str(P, nc.fi, arg_or_kw(c, 1, "mode")) == "x" and norm(c.args[0]) == nc.fi.params[1] and kwarg(c, "userblock_size") is not None and nc.x(kwarg(c, "userblock_size")) == "USER_BLOCK_SIZE" for c in mk)
    rep.check(ok, "C03.R2", nc.fi.qual, "new containers are created exclusively ('x'): x / w- / a-when-absent refuse an existing file", nc.fi.loc(), construct="exclusive create", message="_new_container does not create the file with mode 'x'")


# ------------------------------------------------------------------------------------------- R3
def _class_set(spec: str):
    items = list(RL.sre_parse.parse(spec))
    if len(items) != 1:
        raise AnalysisError(f"not a single character class: {spec}")
    return RL._charset(items[0])


def r3_name_language(P, rep, ctx):
    c = P.cls(REC)
    try:
        A = P.fold(c.attrs["_ALLOWED_NAME_CHARS"], c.module)
        infix = P.fold(c.attrs["_PATCH_INFIX"], c.module)
        ext = P.fold(c.attrs["_FILE_EXT"], c.module)
    except (KeyError, NoFold):
        raise AnalysisError("record name constants not foldable")
    name_cls = _class_set(f"[{A}]")
    loc = c.module.relpath
    for nm, s in (("_PATCH_INFIX", infix), ("_FILE_EXT", ext)):
        rep.check(bool(s) and s[0] not in name_cls, "C03.R3", REC, f"first character of {nm} ({s[:1]!r}) is outside the record-name alphabet", loc, construct=f"{nm}={s!r}",
                  message=f"{nm}={s!r} starts with a character that may occur in record names: files of record 'foo' and 'foo{s[:1]}x' cannot be told apart")
    ff = P.func(f"{REC}.find_files")
    pats = [x.args[0] for x in local_calls(ff.node) if norm(x.func) == "re.match"]
    if not pats:
        rep.fail("C03.R3", ff.qual, "post-filter of find_files missing", "find_files does not post-filter the glob result with an anchored `^<name><separator class>` pattern: files of records whose name merely starts with this record's name (foo2, foo-bar) are attributed to it", ff.loc())
        return
    if len(pats) != 1 or not isinstance(pats[0], ast.JoinedStr):
        raise AnalysisError("find_files: post-filter regex has an unrecognised shape")
    parts = [("lit", v.value) if isinstance(v, ast.Constant) else ("expr", norm(v.value)) for v in pats[0].values]
    # shape: '^' <name> <sep-class...>
    ok_shape = len(parts) >= 3 and parts[0] == ("lit", "^") and parts[1][0] == "expr" and parts[1][1] in ("record.name", "re.escape(record.name)")
    rep.check(ok_shape, "C03.R3", ff.qual, "file filter is anchored: ^<record name><separator class>", ff.loc(pats[0]), construct=f"filter {norm(pats[0])}", message=f"find_files' filter {norm(pats[0])} is not anchored at the record name")
    if ok_shape:
        tail = ""
        for k, v in parts[2:]:
            if k == "lit":
                tail += v
            elif v == "cls._ALLOWED_NAME_CHARS":
                tail += A
            else:
                raise AnalysisError(f"find_files filter uses unknown expression {v}")
        try:
            first = list(RL.sre_parse.parse(tail))[0]
            sep = RL._charset(first)
        except Exception as e:
            raise AnalysisError(f"find_files filter tail not understood: {tail!r}: {e}")
        common = sorted(set(sep) & set(name_cls))
        rep.check(not common, "C03.R3", ff.qual, "the character after the record name is never a record-name character (prefix-related records are separated)", ff.loc(pats[0]), construct=f"separator class {tail!r}",
                  message=f"the separator class {tail!r} of find_files' filter admits {common[:6]}, which may occur in record names: files of record 'foo{(common or ['?'])[0]}bar' are attributed to record 'foo' (mode 'w' on 'foo' deletes them)")
        rep.check(infix[0] in sep and ext[0] in sep, "C03.R3", ff.qual, "the separator class admits the patch infix and the file extension", ff.loc(pats[0]), construct=f"separator admits {infix[0]!r},{ext[0]!r}", message="find_files' filter rejects the record's own files")
    f = F(ctx, ff)
    g = f.g
    invalid = f.tests("not cls._is_valid_record_name(record.name)", "not cls._is_valid_record_name(__n)")
    fs = [n.idx for n in g.nodes if any(call_attr(x) in ("glob", "rglob", "iterdir") for e in n.exprs if e is not None for x in walk_local(e) if isinstance(x, ast.Call))]
    rep.check(f.refuses(invalid) and bool(fs) and f.all_hit_before(fs, nodes=f.test_nodes(invalid)), "C03.R3", ff.qual, "record name is validated before the directory is scanned", ff.loc(), construct="name validation in find_files", message="find_files scans the directory before validating the record name (regex/glob metacharacters in the name)")
    gs = sorted({f.x(c.args[0]) for _, c, b in f.call_sites("__.glob(__g)")})
    rep.check(gs == ["f'{record.name}*{cls._FILE_EXT}'"], "C03.R3", ff.qual, "candidates are <name>*<ext> in the record's directory", ff.loc(), construct=f"globstr={gs}", message=f"glob pattern is {gs}")
    cr = F(ctx, P.func(f"{REC}._create"))
    invalid = cr.tests("not cls._is_valid_record_name(record.name)", "not cls._is_valid_record_name(__n)")
    eff = cr.calls("__.delete_files(___)", "__._new_container(___)", "__.is_file()")
    rep.check(cr.refuses(invalid) and cr.all_hit_before(eff, nodes=cr.test_nodes(invalid)), "C03.R3", cr.fi.qual, "record name is validated before anything is created or deleted", cr.fi.loc(), construct="name validation in _create", message="_create touches the file system before validating the record name")
    iv = F(ctx, P.func(f"{REC}._is_valid_record_name"))
    rets = [v for _, v in iv.returns() if v is not None]
    ok = len(rets) >= 1 and all(M.equivalent(iv.xe(v), f"re.match(f'^[{{cls._ALLOWED_NAME_CHARS}}]+$', {iv.fi.params[1]}) is not None") or iv.x(v) == f"bool(re.match(f'^[{{cls._ALLOWED_NAME_CHARS}}]+$', {iv.fi.params[1]}))" or iv.x(v) == f"re.fullmatch(f'[{{cls._ALLOWED_NAME_CHARS}}]+', {iv.fi.params[1]}) is not None" for v in rets)
    rep.check(ok, "C03.R3", iv.fi.qual, "valid names are non-empty strings over the name alphabet", iv.fi.loc(), construct="_is_valid_record_name", message="_is_valid_record_name is not ^[alphabet]+$")
    lr = F(ctx, P.func(f"{REC}.list_records"))
    npat = sorted({lr.x(c.args[0]) for _, c, b in lr.call_sites("re.match(__p, ___)")})
    rep.check(npat == ["f'[{cls._ALLOWED_NAME_CHARS}]+(?=[^{cls._ALLOWED_NAME_CHARS}])'"], "C03.R3", lr.fi.qual, "list_records extracts names with the same alphabet and separator class", lr.fi.loc(), construct=f"namepat={npat}", message=f"list_records uses {npat}")
    nf = F(ctx, P.func(f"{REC}._next_patch_filepath"))
    rets = [nf.x(v) for _, v in nf.returns() if v is not None]
    want = "Path(f'{Path(self.__files__[0].filename).parent}/{self._infer_name(Path(self.__files__[0].filename))}{self._PATCH_INFIX}{self._ublock(-1).patch_index + 1}{self._FILE_EXT}')"
    rep.check(rets == [want], "C03.R3", nf.fi.qual, "patch files are named <name><infix><next index><ext>", nf.fi.loc(), construct="patch file name", message="_next_patch_filepath does not build <name><infix><index><ext> from the newest patch index")
    inf = F(ctx, P.func(f"{REC}._infer_name"))
    rp = inf.fi.params[1]
    rets = [inf.x(v) for _, v in inf.returns() if v is not None]
    rep.check(rets == [f"{rp}.name.split(cls._FILE_EXT)[0].split(cls._PATCH_INFIX)[0]"], "C03.R3", inf.fi.qual, "the record name is recovered by cutting at extension and infix", inf.fi.loc(), construct="_infer_name", message="_infer_name does not cut at _FILE_EXT / _PATCH_INFIX")


# ------------------------------------------------------------------------------------------- R4
def r4_close_discard(P, rep, ctx):
    fi = P.func(f"{REC}.close")
    f = F(ctx, fi)
    g = f.g
    pending = f.tests("self._has_writable")
    wanted = f.tests(fi.params[1])
    cm = f.calls("self.commit_patch()")
    loops = [n.idx for n in g.nodes if n.kind == "for" and "__files__" in f.x(n.stmt.iter)]
    closes = [n.idx for n in g.nodes if any(call_attr(c) == "close" and isinstance(c.func, ast.Attribute) and isinstance(c.func.value, ast.Name) and c.func.value.id not in ("self",) for c in g.calls(n.idx))]
    # the handles are closed only after: commit, or no pending patch, or commit=False
    ok = bool(pending) and bool(wanted) and bool(cm) and bool(closes) and f.all_hit_before(closes, nodes=cm, edges=f.neg(pending) + f.neg(wanted)) and f.all_hit_before(cm, edges=pending) and f.all_hit_before(cm, edges=wanted)
    rep.check(ok, "C03.R4", fi.qual, "a pending patch is committed before the files are closed (unless commit=False)", fi.loc(), construct="commit before close", message="close() closes the files without committing a pending patch first")
    closed = [i for i, v, b in f.stores("self._closed") if norm(v) == "True"]
    already = f.tests("self._closed")
    ok = bool(closed) and bool(already) and f.hit_before(g.exit, nodes=closed, edges=already)
    rep.check(ok, "C03.R4", fi.qual, "the record is marked closed on every path", fi.loc(), construct="_closed = True", message="close() can return without marking the record closed")
    cleared = [i for i, v, b in f.stores("self.__files__") if norm(v) in ("[]", "list()")] + f.calls("self.__files__.clear()")
    rep.check(bool(cleared) and bool(loops) and bool(closes) and f.hit_before(g.exit, nodes=cleared, edges=already), "C03.R4", fi.qual, "all container handles are closed and dropped", fi.loc(), construct="handles closed", message="close() does not close every container handle / clear the list")
    dfl = {a.arg: norm(d) for a, d in zip(fi.node.args.args[-len(fi.node.args.defaults):], fi.node.args.defaults)}
    rep.check(dfl.get("commit") == "True", "C03.R4", fi.qual, "close commits by default", fi.loc(), construct="commit default", message=f"close(commit=...) defaults to {dfl.get('commit')}")
    ex = F(ctx, P.func(f"{REC}.__exit__"))
    cl = ex.calls("self.close()", "self.close(commit=True)", "self.close(True)")
    rep.check(bool(cl) and ex.hit_before(ex.g.exit, nodes=cl), "C03.R4", ex.fi.qual, "leaving the context manager closes (and commits)", ex.fi.loc(), construct="__exit__", message="__exit__ does not call close()")
    dp = F(ctx, P.func(f"{REC}.discard_patch"))
    only_base = dp.tests("len(self.__files__) == 1", "not len(self.__files__) > 1", "self._has_patches is False")
    dl = dp.calls("self._delete_latest_container()")
    ok = bool(dl) and dp.refuses(only_base) and dp.all_hit_before(dl, edges=dp.neg(only_base))
    rep.check(ok, "C03.R4", dp.fi.qual, "discard never removes the base container", dp.fi.loc(), construct="base protected in discard_patch", message="discard_patch can delete the base container")
    r_delete_latest(P, rep, ctx, "C03.R4")


def r_delete_latest(P, rep, ctx, rule):
    """the container that is unlinked is the very handle popped from the list (not a path recomputed from naming rules)"""
    dc = F(ctx, P.func(f"{REC}._delete_latest_container"))
    pops = dc.call_sites("self.__files__.pop()") + dc.call_sites("self.__files__.pop(-1)")
    closes = dc.calls("self.__files__.pop().close()", "self.__files__.pop(-1).close()")
    unl = dc.calls("Path(self.__files__.pop().filename).unlink()", "Path(self.__files__.pop(-1).filename).unlink()")
    ubs = dc.deletes("self._ublocks[Path(self.__files__.pop().filename)]") + dc.deletes("self._ublocks[Path(self.__files__.pop(-1).filename)]") + dc.calls("self._ublocks.pop(Path(self.__files__.pop().filename), ___)")
    pop_nodes = [c for c in local_calls(dc.fi.node) if M.match("self.__files__.pop()", c) is not None or M.match("self.__files__.pop(-1)", c) is not None]
    ok = len(pop_nodes) == 1 and bool(closes) and bool(unl) and bool(ubs) and all(dc.hit_before(dc.g.exit, nodes=x) for x in (closes, unl, ubs))
    other_unlinks = [c for c in local_calls(dc.fi.node) if call_attr(c) in ("unlink", "remove", "rmtree", "rename", "replace") and M.match("Path(self.__files__.pop().filename).unlink()", dc.xe(c)) is None and M.match("Path(self.__files__.pop(-1).filename).unlink()", dc.xe(c)) is None]
    ok = ok and not other_unlinks
    rep.check(ok, rule, dc.fi.qual, "exactly the newest container is closed, forgotten and unlinked", dc.fi.loc(), construct="_delete_latest_container", message="_delete_latest_container does not pop/close/unlink exactly the last container and drop its user block")


# ------------------------------------------------------------------------------------------- R5
def r5_codec(P, rep, ctx, rule="C03.R5"):
    UB = f"{R}.IH5UserBlock"
    svfi = P.func(f"{UB}.save")
    sv = F(ctx, svfi)
    g = sv.g
    writes = sv.call_sites("__f.write(__d)")
    data_w = [(i, c, b) for i, c, b in writes if not (isinstance(b["__d"], ast.Constant) and b["__d"].value == b"\x00")]
    nul_w = [i for i, c, b in writes if isinstance(b["__d"], ast.Constant) and b["__d"].value == b"\x00"]
    payload = sorted({norm(MM.canon_strings(sv.xe_at(i, b["__d"]))) for i, c, b in data_w})
    want = "f'{FORMAT_MAGIC_STR}\\n{self._userblock_size}\\n{self.json()}'.encode('utf-8')"
    rep.check(payload == [want], rule, svfi.qual, "writer: MAGIC, newline, size, newline, JSON without indent", svfi.loc(), construct="save format", message=f"IH5UserBlock.save does not write `{{MAGIC}}\\n{{size}}\\n{{self.json()}}` (json without indent => no newline inside): {payload}")
    wd = [i for i, c, b in data_w]
    ok = bool(wd) and bool(nul_w) and sv.all_hit_before(nul_w, nodes=wd) and sv.hit_before(g.exit, nodes=nul_w)
    rep.check(ok, rule, svfi.qual, "writer terminates the data with a NUL byte (the reader cuts at the first NUL)", svfi.loc(), construct="NUL terminator", message="IH5UserBlock.save does not terminate the JSON with NUL: a shorter block written over a longer one (merge, recommit) leaves trailing garbage that the reader parses")
    rep.check(payload == [want], rule, svfi.qual, "writer encodes UTF-8", svfi.loc(), construct="encoding", message="save does not encode the block as UTF-8")
    rdfi = P.func(f"{UB}._read_head_raw")
    rd = F(ctx, rdfi)
    st, sz = rdfi.params[1], rdfi.params[2]
    PROBE = f"{st}.read({sz})"
    PARTS = f"{PROBE}.decode('utf-8').split('\\n')"
    real = [(i, v) for i, v in rd.returns() if v is not None and not (isinstance(v, ast.Constant) and v.value is None)]
    rep.check(bool(real) and all(PARTS in rd.x_at(i, v) for i, v in real), rule, rdfi.qual, "reader decodes UTF-8 and splits on newline", rdfi.loc(), construct="reader split", message="_read_head_raw does not decode UTF-8 / split on '\\n'")
    parts_t = rd.tests(f"len({PARTS}) != 3")
    magic_t = rd.tests(f"{PARTS}[0] != FORMAT_MAGIC_STR", f"FORMAT_MAGIC_STR != {PARTS}[0]")
    ok = bool(parts_t) and bool(magic_t) and not rd.reaches(parts_t, [i for i, v in real]) and not rd.reaches(magic_t, [i for i, v in real]) and rd.all_hit_before([i for i, v in real], nodes=rd.test_nodes(parts_t)) and rd.all_hit_before([i for i, v in real], nodes=rd.test_nodes(magic_t))
    rep.check(ok, rule, rdfi.qual, "reader expects exactly three parts and the same magic constant", rdfi.loc(), construct="reader parts", message="_read_head_raw does not require exactly 3 parts with FORMAT_MAGIC_STR first")
    want_r = f"(int({PARTS}[1]), {PARTS}[2][:{PARTS}[2].find('\\x00')])"
    rep.check(bool(real) and all(rd.x_at(i, v) == want_r for i, v in real), rule, rdfi.qual, "reader takes the size from part 1 and the JSON up to the first NUL from part 2", rdfi.loc(), construct="reader result", message="_read_head_raw does not return (int(part1), part2 up to first NUL)")
    seek0 = rd.calls(f"{st}.seek(0)")
    reads = rd.calls(f"{st}.read({sz})")
    rep.check(bool(seek0) and bool(reads) and rd.all_hit_before(reads, nodes=seek0), rule, rdfi.qual, "reader reads from offset 0", rdfi.loc(), construct="reader offset", message="_read_head_raw does not read from offset 0")
    ldfi = P.func(f"{UB}.load")
    ld = F(ctx, ldfi)
    g = ld.g
    first = ld.call_sites("cls._read_head_raw(__f, 512)")
    again = ld.call_sites("cls._read_head_raw(__f, __h[0])")
    rr = [i for i, c, b in again]
    big = ld.tests("__h[0] > 512", "512 < __h[0]")
    other_size_tests = [t for t in g.nodes if t.kind == "test" and "512" in norm(t.exprs[0]) and t.idx not in ld.test_nodes(big)]
    rep.check(bool(first) and bool(rr), rule, ldfi.qual, "reader probes 512 bytes and can re-read with the stored size", ldfi.loc(), construct="probe + re-read", message="load does not probe 512 bytes / re-read with the stored block size")
    if other_size_tests and not big:
        rep.fail(rule, ldfi.qual, f"re-read condition {norm(other_size_tests[0].exprs[0])}", f"the full user block is re-read only under `{norm(other_size_tests[0].exprs[0])}` instead of whenever the stored size exceeds the 512-byte probe: longer user blocks are parsed from a truncated probe", ldfi.loc(other_size_tests[0].stmt))
    else:
        ok = bool(big) and bool(rr) and all(ld.hit_before(g.exit, nodes=rr, src_edge=e) for e in big) and ld.hit_before(g.exit, nodes=ld.test_nodes(big)) and not other_size_tests
        rep.check(ok, rule, ldfi.qual, "whenever the stored size exceeds the probe the block is re-read in full", ldfi.loc(), construct="re-read condition", message="load does not re-read the full user block whenever the stored size exceeds the probe")
    kept = [(i, v) for i, v, b in ld.stores("__r._userblock_size")]
    rep.check(bool(kept) and all(MM.match("__h[0]", v) is not None for i, v in kept) and ld.hit_before(g.exit, nodes=[i for i, v in kept]), rule, ldfi.qual, "the stored size is kept for the next save", ldfi.loc(), construct="size kept", message="load does not keep the stored user block size")
    magic = P.const(R, "FORMAT_MAGIC_STR")
    rep.check(isinstance(magic, str) and "\n" not in magic and "\x00" not in magic, rule, R, "magic contains no newline / NUL", P.module(R).relpath, construct=f"magic={magic!r}", message="magic string contains a separator character")
