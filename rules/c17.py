"""C17 — Embedded file bytes and their file metadata are exact.

Decided: R1 the deletion-marker value guard dominates every store of a caller-supplied value in the overlay;
R2 file bytes flow untransformed from read_bytes() through the two-case wrapper into create_dataset, copies transfer
full values; R3 harvested size / hash come from the file itself (binary mode, no memoisation) and metadata is attached
after the dataset exists and refused unless it is file metadata.
Not decided: byte fidelity through numpy / HDF5 for all byte strings (third-party, runtime).
"""
from __future__ import annotations

import ast

from mdsa.astutil import call_attr, call_recv, kwarg, local_calls, norm, store_targets
from mdsa.cfg import walk_local
from mdsa.loader import AnalysisError

from . import c02
from mdsa import match as MM

from .sem import F
from .common import Ctx, fs_sinks, local_defs, node_of, slice_roots

O = "ih5.overlay"
EXPLANATION = (
    "R1 DOM: for every raw store in overlay.py whose stored value derives from a parameter of the public method (value/val/data), "
    "_guard_value(<that parameter>) dominates the store; _guard_value raises for exactly the marker _is_del_mark recognises. "
    "R2 def-use: pack_file's dataset payload is _h5_wrap_bytes(file_path.read_bytes()) with nothing in between; _h5_wrap_bytes is the "
    "two-case function `numpy.void(bs) if len(bs) else h5py.Empty('b')` decided by the *length of the bytes*, never by the truthiness "
    "of the wrapped value; h5_copy_from_to transfers values with [()]. R3: FileMetaHarvester.run takes size from stat().st_size and "
    "the hash from hashsum(open(path,'rb'),'sha256') of args.filepath on every call (no memoisation anywhere on the chain); pack_file "
    "attaches the metadata after create_dataset and refuses non-FileMeta objects."
)
NOT_DECIDED = "bytes read back == bytes embedded for all byte strings through numpy/HDF5, both drivers, after patches/merge/reopen (runtime)"
MEMO = {"lru_cache", "cache", "cached_property", "memoize"}


def run(P, rep, tier):
    rep.explanation = EXPLANATION
    rep.not_decided = NOT_DECIDED
    rep.assumptions = ["numpy.void(bs) stores bs opaquely for len(bs) > 0; h5py.Empty('b') represents the empty byte string", "Path.read_bytes returns the exact file content"]
    ctx = Ctx(P)
    rep.attempt(r1_value_guard, P, rep, ctx)
    rep.attempt(r2_bytes_untransformed, P, rep, ctx)
    rep.attempt(r3_harvested_facts, P, rep, ctx)
    # the reserved value is exactly the one value the reader treats as deletion marker (writer guard == reader
    # predicate, dataset values read with [()]): rule ids C01.R4
    from . import c01

    rep.attempt(c01.r4_markers, P, rep, ctx)
    # "after patches, copies, moves, merge": the IH5 copy must place every copied file at its own relative path and must not
    # drop a child silently (copy coverage rules of C05.R4)
    from . import c05

    rep.attempt(c05.r4_copy_coverage, P, rep, ctx)
    # the attached SHA-256 is computed by util.hashsums.hashsum: every chunk of the file reaches the digest (C19.R1)
    from . import c19

    rep.attempt(c19.r1_chunk_loop, P, rep, ctx)
    # "after patches ... and reopen": reopening by name finds every container the writer side names (C03.R3)
    from . import c03

    rep.attempt(c03.r3_name_language, P, rep, ctx)
    # "after patches, copies, moves": deleting / moving an embedded file addresses exactly that node (C01.R2, C01.R6, C01.R8)
    rep.attempt(c01.r2_delete_marker, P, rep, ctx)
    rep.attempt(c01.r6_move_copy, P, rep, ctx)
    rep.attempt(c01.r8_resolution_owner, P, rep, ctx)
    rep.floor("C17.R1", 4)
    rep.floor("C17.R2", 5)
    rep.floor("C17.R3", 7)
    # refinement against the pinned tree for every function the rules above looked at (rules/pinned.py)
    import os as _os

    if not _os.environ.get("MDSA_PINNED_GEN"):
        from .pinned import refine

        refine(P, rep, ctx, "C17")


def r1_value_guard(P, rep, ctx):
    n = 0
    for fi, node, desc, k in c02.overlay_raw_writes(P, ctx, modules=("ih5.overlay",)):
        g = ctx.cfg(fi)
        st = g.nodes[node].stmt
        vals = []
        if isinstance(st, ast.Assign):
            vals.append(st.value)
        for c in g.calls(node):
            if call_attr(c) in ("create_dataset", "__setitem__", "create"):
                d = kwarg(c, "data")
                vals += [d] if d is not None else []
                vals += c.args[1:]
        user_params = [p for p in fi.params if p in ("value", "val", "data", "obj")]
        for v in vals:
            srcs = {x.id for kind, e, via in slice_roots(fi, v) if e is not None for x in walk_local(e) if isinstance(x, ast.Name) and x.id in user_params}
            for p in sorted(srcs):
                n += 1
                guards = [m.idx for m in g.nodes if any(call_attr(c) == "_guard_value" and c.args and norm(c.args[0]) == p for c in g.calls(m.idx))]
                ok = g.every_path_passes(guards, node)
                rep.check(ok, "C17.R1", fi.qual, f"_guard_value({p}) precedes the store {desc[:60]}", fi.loc(st), construct=f"_guard_value before {desc}",
                          message=f"{fi.qual} stores the caller's value without _guard_value: the reserved deletion-marker value is stored silently and the node then reads as deleted",
                          path=g.path_text(g.find_path(node, avoid=guards)))
    if n < 3:
        raise AnalysisError(f"C17.R1: only {n} user-value stores found in overlay.py")
    gvfi = P.func(f"{O}.IH5Node._guard_value")
    gv = F(ctx, gvfi)
    marker = gv.tests(f"_is_del_mark({gvfi.params[1]})")
    rep.check(gv.refuses(marker) and gv.hit_before(gv.g.exit, nodes=gv.test_nodes(marker)), "C17.R1", gvfi.qual, "_guard_value raises for the deletion marker", gvfi.loc(), construct="_guard_value", message="_guard_value does not reject the deletion-marker value loudly")
    sifi = P.func(f"{O}.IH5Group.__setitem__")
    si = F(ctx, sifi)
    rets = [si.x(v) for _, v in si.returns() if v is not None] + [si.x(c) for i, c, b in si.call_sites("self.create_dataset(___)")]
    rep.check(bool(rets) and set(rets) == {f"self.create_dataset({sifi.params[1]}, data={sifi.params[2]})"}, "C17.R1", sifi.qual, "group item assignment goes through the guarded create_dataset", sifi.loc(), construct="IH5Group.__setitem__", message="IH5Group.__setitem__ bypasses create_dataset")


def r2_bytes_untransformed(P, rep, ctx):
    U = "packer.utils"
    w = P.func(f"{U}._h5_wrap_bytes")
    wf = F(ctx, w)
    p = w.params[0]
    ok = True
    why = []
    VOID = (f"numpy.void({p})", f"np.void({p})")
    rets = [(i, v) for i, v in wf.returns() if v is not None]
    nonempty_pats = [f"len({p})", p]
    # evaluate the result for both cases (non-empty / empty), whether written as a conditional expression or as branches
    for nonempty, wants in ((True, VOID), (False, ("h5py.Empty('b')",))):
        blocked = []
        te = wf.tests(f"len({p})", p)
        blocked = wf.neg(te) if nonempty else te
        reach = wf.g.reach_consistent([wf.g.entry], labels_block=blocked)
        vals = set()
        for i, v in rets:
            if i not in reach:
                continue
            e = wf.xe_at(i, v)
            while isinstance(e, ast.IfExp):
                a, neg = MM.polarity(e.test)
                t = norm(a)
                if t in (f"len({p})", p):
                    e = e.body if (nonempty != neg) else e.orelse
                else:
                    break
            vals.add(norm(e))
        why.append(f"{'non-empty' if nonempty else 'empty'} -> {sorted(vals)}")
        ok = ok and bool(vals) and vals <= set(wants)
    truthy_val = any(isinstance(x, ast.BoolOp) and any("void(" in norm(v) for v in x.values) for x in walk_local(w.node)) or any(MM.polarity(t.exprs[0])[0] is not None and "void(" in norm(t.exprs[0]) for t in wf.g.nodes if t.kind == "test")
    truthy_bytes = bool(wf.tests(p)) and not bool(wf.tests(f"len({p})"))
    rep.check(ok and not truthy_val, "C17.R2", w.qual, "bytes are wrapped opaquely: numpy.void(bs) for non-empty, h5py.Empty('b') for empty, decided by len(bs)", w.loc(), construct="_h5_wrap_bytes cases",
              message=f"_h5_wrap_bytes is not the two-case function decided by the length of the bytes ({'; '.join(why)}): e.g. truthiness of numpy.void is False for all-NUL content, which would then be stored as empty")
    pffi = P.func(f"{U}.pack_file")
    pf = F(ctx, pffi)
    nd, fp, tg = pffi.params[0], pffi.params[1], pffi.params[2]
    cds = pf.call_sites(f"{nd}.create_dataset(__t, data=__d)")
    dd = sorted({pf.x_at(i, b["__d"]) for i, c, b in cds})
    rep.check(len(dd) == 1 and dd[0] in (f"_h5_wrap_bytes({fp}.read_bytes())", f"_h5_wrap_bytes(Path({fp}).read_bytes())"), "C17.R2", pffi.qual, "payload = _h5_wrap_bytes(file_path.read_bytes()), nothing in between", pffi.loc(), construct=f"data = {dd}", message=f"the embedded payload is computed as {dd}: bytes are transformed before wrapping")
    allcd = [c for c in local_calls(pffi.node) if call_attr(c) == "create_dataset"]
    # (the target is the caller's target -- possibly defaulted -- whatever the local is called)
    ok = len(allcd) == 1 and bool(cds) and all(norm(b["__t"]) == tg or any(isinstance(x, ast.Name) and x.id == tg for x in ast.walk(pf.xe_at(i, b["__t"]))) for i, c, b in cds)
    rep.check(ok, "C17.R2", pffi.qual, "the wrapped bytes are stored as the dataset at the target path", pffi.loc(), construct="create_dataset in pack_file", message="pack_file does not store `data` with node.create_dataset(target, data=data)")
    fpd = [norm(v) for k, v in local_defs(pffi).get(fp, []) if v is not None]
    rep.check(fpd in ([f"Path({fp})"], []), "C17.R2", pffi.qual, "the file read is the one the caller named", pffi.loc(), construct=f"file_path = {fpd}", message=f"file_path is rebound to {fpd}")
    h = P.func(f"{O}.h5_copy_from_to")
    srcs = []
    for f_ in [h] + list(h.nested.values()):
        names = set(f_.params) | {n.id for x in walk_local(f_.node) if isinstance(x, ast.For) for n in ast.walk(x.target) if isinstance(n, ast.Name)}
        for x in walk_local(f_.node):
            if isinstance(x, ast.Subscript) and isinstance(x.ctx, ast.Load) and isinstance(x.value, ast.Name) and x.value.id in names and ("src" in x.value.id or "source" in x.value.id):
                srcs.append(norm(x.slice))
    rep.check(len(srcs) >= 2 and set(srcs) == {"()"}, "C17.R2", h.qual, "copies transfer dataset values with the full selection [()]", h.loc(), construct="value reads of the copy", message=f"h5_copy_from_to reads dataset values with {srcs} (must be [()] in both branches)")
    cipfi = P.func(f"{O}.IH5Dataset.copy_into_patch")
    cip = F(ctx, cipfi)
    st = [(i, v) for p_ in ("self._files[-1][self._gpath]", "self._files[self._last_idx][self._gpath]") for i, v, b in cip.stores(p_)]
    rep.check(bool(st) and all(cip.x(v) == "self[()]" for i, v in st), "C17.R2", cipfi.qual, "copy_into_patch transfers the full value", cipfi.loc(), construct="copy_into_patch", message="copy_into_patch does not copy self[()]")
    # a dataset value is read from the resolved container on every call: no memo between the record and the caller (a cached
    # value outlives `del` of an enclosing group / discard_patch and is served for the bytes embedded at the same path later)
    gi = P.func(f"{O}.IH5Dataset.__getitem__")
    gf = F(ctx, gi)
    k_ = gi.params[1]
    rv = sorted({gf.x_at(i, v) for i, v in gf.returns() if v is not None})
    want = (f"self._files[self._cidx][self._gpath][{k_}]",)
    rep.check(bool(rv) and all(r in want for r in rv), "C17.R2", gi.qual, "IH5Dataset.__getitem__ returns the value read from the resolved container, on every path", gi.loc(), construct=f"returns {rv}"[:120],
              message=f"IH5Dataset.__getitem__ returns {rv}: a value that does not come from reading the container on this call (memoised per path / container index) survives deletion of an enclosing group or a discarded patch and is served for different bytes stored at the same path later")


def _facts_stored_as_given(P, rep, ctx):
    """FileMeta / its schema.org bases: the attached facts (sha256, contentSize, filename, encodingFormat) are stored as
    given.  A pydantic validator on one of them may refuse a value but returns its argument unchanged on every path (a
    'canonicalising' validator -- int(digest, 16) round trip, case folding, prefix stripping -- changes the digest that
    readers compare with the hash of the embedded bytes)."""
    FACTS = {"sha256", "contentSize", "filename", "encodingFormat"}
    n = 0
    for cq in ("schema.common.rocrate.FileMeta", "schema.common.schemaorg.MediaObject", "schema.common.schemaorg.CreativeWork", "schema.common.schemaorg.Thing"):
        try:
            c = P.cls(cq)
        except Exception:
            if cq.endswith("FileMeta"):
                raise AnalysisError(f"C17.R3: class {cq} not found")
            continue
        n += 1
        for name, m in c.methods.items():
            for d in getattr(m.node, "decorator_list", []):
                dn = norm(d.func) if isinstance(d, ast.Call) else norm(d)
                if dn.split(".")[-1] not in ("validator", "root_validator"):
                    continue
                fields = {a.value for a in getattr(d, "args", []) if isinstance(a, ast.Constant) and isinstance(a.value, str)}
                root = dn.split(".")[-1] == "root_validator"
                if not root and not (fields & FACTS or "*" in fields):
                    continue
                if len(m.params) < 2:
                    continue
                vp = m.params[1]
                rets = [norm(x.value) if x.value is not None else "None" for x in walk_local(m.node) if isinstance(x, ast.Return)]
                rebinds = [norm(x) for x in walk_local(m.node) if isinstance(x, (ast.Assign, ast.AugAssign, ast.AnnAssign)) and any(isinstance(t, ast.Name) and t.id == vp or (root and isinstance(t, ast.Subscript) and norm(t.value) == vp) for _, t in store_targets(x))]
                rep.check(bool(rets) and all(r == vp for r in rets) and not rebinds, "C17.R3", m.qual, "a validator on the attached file facts returns its argument unchanged", m.loc(), construct=f"{name} returns {sorted(set(rets))}"[:120],
                          message=f"validator {m.qual} on {sorted(fields & FACTS) or 'the whole model'} returns {sorted(set(rets))}{' after ' + rebinds[0] if rebinds else ''}: the stored sha256 / size is no longer the value that was attached (e.g. a digest re-formatted through int() loses its leading zeros)")
    rep.check(n >= 1, "C17.R3", "schema.common.rocrate.FileMeta", "file-fact validators inspected", "", construct="FileMeta class chain", message="FileMeta not found")


def r3_harvested_facts(P, rep, ctx):
    _facts_stored_as_given(P, rep, ctx)
    fi = P.func("harvester.common.FileMetaHarvester.run")
    f = F(ctx, fi)
    PATH = "self.args.filepath"
    rets = [(i, v) for i, v in f.returns() if v is not None]
    ok = len(rets) >= 1
    got = {}
    for i, v in rets:
        x = f.xe_at(i, v)
        if isinstance(x, ast.Call):
            got = {k.arg: norm(k.value) for k in x.keywords}
            hv = next((k.value for k in x.keywords if k.arg == "sha256"), None)
            if hv is not None and MM.match(f"hashsum(open({PATH}, 'rb'), 'sha256')", hv) is not None:
                got["sha256"] = f"hashsum(open({PATH}, 'rb'), 'sha256')"  # keyword / positional spelling of the same call
    rep.check(got.get("filename") == f"{PATH}.name", "C17.R3", fi.qual, "harvested file is the harvester's filepath argument", fi.loc(), construct="harvested path", message=f"harvester reads {got.get('filename')}")
    rep.check(got.get("contentSize") == f"{PATH}.stat().st_size", "C17.R3", fi.qual, "size is the file's st_size", fi.loc(), construct="contentSize source", message=f"contentSize is computed as {got.get('contentSize')}")
    rep.check(got.get("sha256") == f"hashsum(open({PATH}, 'rb'), 'sha256')", "C17.R3", fi.qual, "hash is SHA-256 over the file's bytes, read on this call", fi.loc(), construct="sha256 source", message=f"sha256 is computed as {got.get('sha256')}: not the digest of the file as it is now (e.g. memoised per path/size)")
    rep.check(ok and {"contentSize", "sha256", "filename"} <= set(got), "C17.R3", fi.qual, "harvested values are returned as contentSize / sha256 / filename", fi.loc(), construct="harvester result", message="harvester result does not carry contentSize=sz, sha256=hs, filename=path.name")
    for fn in [x for x in P.functions.values() if x.module.name in ("harvester.common", "util.hashsums", "packer.utils")]:
        decos = [norm(d.func) if isinstance(d, ast.Call) else norm(d) for d in getattr(fn.node, "decorator_list", [])]
        memo = [d for d in decos if d.split(".")[-1] in MEMO]
        reads_file = any(call_attr(c) in ("open", "read_bytes", "hashsum", "file_hashsum", "stat") for c in local_calls(fn.node))
        if reads_file or memo:
            rep.check(not memo, "C17.R3", fn.qual, "file-reading helper is not memoised", fn.loc(), construct=f"decorators {decos}", message=f"{fn.qual} is memoised ({memo}): facts about a file rewritten in place come from the cache, not from the file")
    pffi = P.func("packer.utils.pack_file")
    pf = F(ctx, pffi)
    g = pf.g
    nd, fp, md = pffi.params[0], pffi.params[1], pffi.params[3]
    cd = pf.calls(f"{nd}.create_dataset(___)")
    atts = [(i, v, b) for i, v, b in pf.stores("__r.meta[__k]")]
    d_ = local_defs(pffi)
    att = [i for i, v, b in atts if pf.x_at(i, b["__r"]).startswith(f"{nd}.create_dataset(") or (isinstance(b["__r"], ast.Name) and any(v_ is not None and norm(v_).startswith(f"{nd}.create_dataset(") for k_, v_ in d_.get(b["__r"].id, [])))]
    rep.check(bool(cd) and bool(att) and pf.all_hit_before(att, nodes=cd) and pf.hit_before(g.exit, nodes=att), "C17.R3", pffi.qual, "metadata is attached to the new dataset on every successful path", pffi.loc(), construct="metadata attach after create_dataset", message="pack_file can return without attaching the file metadata (or attaches it before the dataset exists)")
    # the object that gets attached (the parameter, re-bound, or a fresh local holding its copy / the harvested default)
    subj = sorted({v.id for i, v, b in atts if isinstance(v, ast.Name)} | {md})
    notfm = pf.tests(*[f"not isinstance({x}, FileMeta)" for x in subj])
    ok = pf.refuses(notfm) and pf.all_hit_before(cd, nodes=pf.test_nodes(notfm))
    rep.check(ok, "C17.R3", pffi.qual, "metadata that is not file metadata is refused before anything is stored", pffi.loc(), construct="FileMeta refusal", message="pack_file does not refuse non-FileMeta metadata before creating the dataset")
    hv = pf.call_sites("harvest(FileMeta, __l)")
    ok = len({norm(c) for i, c, b in hv}) == 1 and all(isinstance(pf.xe_at(i, b["__l"]), ast.List) and len(pf.xe_at(i, b["__l"]).elts) == 1 and (lambda m_: m_ is not None and norm(m_["__p"]) in (fp, f"Path({fp})"))(MM.match("__h(filepath=__p)", pf.xe_at(i, b["__l"]).elts[0])) for i, c, b in hv)
    rep.check(ok, "C17.R3", pffi.qual, "default metadata is harvested from the same file that is embedded", pffi.loc(), construct="harvest call", message="default metadata is not harvested from file_path with the core.file harvester")
