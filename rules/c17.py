"""C17 — Embedded file bytes and their file metadata are exact.

Decided: R1 the deletion-marker value guard dominates every store of a caller-supplied value in the overlay;
R2 file bytes flow untransformed from read_bytes() through the two-case wrapper into create_dataset, copies transfer
full values; R3 harvested size / hash come from the file itself (binary mode, no memoisation) and metadata is attached
after the dataset exists and refused unless it is file metadata.
Not decided: byte fidelity through numpy / HDF5 for all byte strings (third-party, runtime).
"""
from __future__ import annotations

import ast

from mdsa.astutil import call_attr, call_recv, kwarg, local_calls, norm, store_targets
from mdsa.cfg import walk_local
from mdsa.loader import AnalysisError

from . import c02
from .common import Ctx, fs_sinks, local_defs, node_of, slice_roots

O = "ih5.overlay"
EXPLANATION = (
    "R1 DOM: for every raw store in overlay.py whose stored value derives from a parameter of the public method (value/val/data), "
    "_guard_value(<that parameter>) dominates the store; _guard_value raises for exactly the marker _is_del_mark recognises. "
    "R2 def-use: pack_file's dataset payload is _h5_wrap_bytes(file_path.read_bytes()) with nothing in between; _h5_wrap_bytes is the "
    "two-case function `numpy.void(bs) if len(bs) else h5py.Empty('b')` decided by the *length of the bytes*, never by the truthiness "
    "of the wrapped value; h5_copy_from_to transfers values with [()]. R3: FileMetaHarvester.run takes size from stat().st_size and "
    "the hash from hashsum(open(path,'rb'),'sha256') of args.filepath on every call (no memoisation anywhere on the chain); pack_file "
    "attaches the metadata after create_dataset and refuses non-FileMeta objects."
)
NOT_DECIDED = "bytes read back == bytes embedded for all byte strings through numpy/HDF5, both drivers, after patches/merge/reopen (runtime)"
MEMO = {"lru_cache", "cache", "cached_property", "memoize"}


def run(P, rep, tier):
    rep.explanation = EXPLANATION
    rep.not_decided = NOT_DECIDED
    rep.assumptions = ["numpy.void(bs) stores bs opaquely for len(bs) > 0; h5py.Empty('b') represents the empty byte string", "Path.read_bytes returns the exact file content"]
    ctx = Ctx(P)
    rep.attempt(r1_value_guard, P, rep, ctx)
    rep.attempt(r2_bytes_untransformed, P, rep, ctx)
    rep.attempt(r3_harvested_facts, P, rep, ctx)
    rep.floor("C17.R1", 4)
    rep.floor("C17.R2", 5)
    rep.floor("C17.R3", 7)


def r1_value_guard(P, rep, ctx):
    n = 0
    for fi, node, desc, k in c02.overlay_raw_writes(P, ctx, modules=("ih5.overlay",)):
        g = ctx.cfg(fi)
        st = g.nodes[node].stmt
        vals = []
        if isinstance(st, ast.Assign):
            vals.append(st.value)
        for c in g.calls(node):
            if call_attr(c) in ("create_dataset", "__setitem__", "create"):
                d = kwarg(c, "data")
                vals += [d] if d is not None else []
                vals += c.args[1:]
        user_params = [p for p in fi.params if p in ("value", "val", "data", "obj")]
        for v in vals:
            srcs = {x.id for kind, e, via in slice_roots(fi, v) if e is not None for x in walk_local(e) if isinstance(x, ast.Name) and x.id in user_params}
            for p in sorted(srcs):
                n += 1
                guards = [m.idx for m in g.nodes if any(call_attr(c) == "_guard_value" and c.args and norm(c.args[0]) == p for c in g.calls(m.idx))]
                ok = g.every_path_passes(guards, node)
                rep.check(ok, "C17.R1", fi.qual, f"_guard_value({p}) precedes the store {desc[:60]}", fi.loc(st), construct=f"_guard_value before {desc}",
                          message=f"{fi.qual} stores the caller's value without _guard_value: the reserved deletion-marker value is stored silently and the node then reads as deleted",
                          path=g.path_text(g.find_path(node, avoid=guards)))
    if n < 3:
        raise AnalysisError(f"C17.R1: only {n} user-value stores found in overlay.py")
    gv = P.func(f"{O}.IH5Node._guard_value")
    g = ctx.cfg(gv)
    tests = [t for t in g.nodes if t.kind == "test" and norm(t.exprs[0]) == f"_is_del_mark({gv.params[1]})"]
    ok = bool(tests) and all(g.exit not in g.reach([b for b, l in g.succ[t.idx] if l == "T"]) for t in tests) and g.every_path_passes([t.idx for t in tests], g.exit)
    rep.check(ok, "C17.R1", gv.qual, "_guard_value raises for the deletion marker", gv.loc(), construct="_guard_value", message="_guard_value does not reject the deletion-marker value loudly")
    si = P.func(f"{O}.IH5Group.__setitem__")
    rep.check("return self.create_dataset(path, data=value)" in norm(si.node), "C17.R1", si.qual, "group item assignment goes through the guarded create_dataset", si.loc(), construct="IH5Group.__setitem__", message="IH5Group.__setitem__ bypasses create_dataset")


def r2_bytes_untransformed(P, rep, ctx):
    U = "packer.utils"
    w = P.func(f"{U}._h5_wrap_bytes")
    rets = [x.value for x in walk_local(w.node) if isinstance(x, ast.Return)]
    p = w.params[0]
    ok = False
    why = ""
    if len(rets) == 1 and isinstance(rets[0], ast.IfExp):
        r = rets[0]
        t = norm(r.test)
        pos = t in (f"len({p})", p, f"len({p}) > 0", f"len({p}) != 0")
        neg = t in (f"not {p}", f"len({p}) == 0", f"not len({p})")
        a, b = (r.body, r.orelse) if pos else (r.orelse, r.body)
        ok = (pos or neg) and norm(a) in (f"numpy.void({p})", f"np.void({p})") and norm(b) in ("h5py.Empty('b')",)
        why = f"test `{t}`, results {norm(r.body)} / {norm(r.orelse)}"
    elif len(rets) == 1:
        why = norm(rets[0])
    truthy_val = any(isinstance(x, ast.BoolOp) and any("void(" in norm(v) for v in x.values) for x in walk_local(w.node))
    rep.check(ok and not truthy_val, "C17.R2", w.qual, "bytes are wrapped opaquely: numpy.void(bs) for non-empty, h5py.Empty('b') for empty, decided by len(bs)", w.loc(), construct=f"_h5_wrap_bytes: {why}",
              message=f"_h5_wrap_bytes is not the two-case function decided by the length of the bytes ({why}): e.g. truthiness of numpy.void is False for all-NUL content, which would then be stored as empty")
    pf = P.func(f"{U}.pack_file")
    defs = local_defs(pf)
    dd = [norm(v) for k, v in defs.get("data", []) if v is not None]
    rep.check(dd == ["_h5_wrap_bytes(file_path.read_bytes())"], "C17.R2", pf.qual, "payload = _h5_wrap_bytes(file_path.read_bytes()), nothing in between", pf.loc(), construct=f"data = {dd}", message=f"the embedded payload is computed as {dd}: bytes are transformed before wrapping")
    cd = [c for c in local_calls(pf.node) if call_attr(c) == "create_dataset"]
    ok = len(cd) == 1 and norm(kwarg(cd[0], "data") or ast.Constant(value=None)) == "data" and norm(cd[0].args[0]) == "target"
    rep.check(ok, "C17.R2", pf.qual, "the wrapped bytes are stored as the dataset at the target path", pf.loc(), construct="create_dataset in pack_file", message="pack_file does not store `data` with node.create_dataset(target, data=data)")
    fp = [norm(v) for k, v in defs.get("file_path", []) if v is not None]
    rep.check(fp == ["Path(file_path)"], "C17.R2", pf.qual, "the file read is the one the caller named", pf.loc(), construct=f"file_path = {fp}", message=f"file_path is rebound to {fp}")
    h = P.func(f"{O}.h5_copy_from_to")
    srcs = [norm(x) for f_ in [h] + list(h.nested.values()) for x in walk_local(f_.node) if isinstance(x, ast.Subscript) and norm(x.value) in ("source_node", "src_child") and isinstance(x.ctx, ast.Load)]
    rep.check(sorted(srcs) == ["source_node[()]", "src_child[()]"], "C17.R2", h.qual, "copies transfer dataset values with the full selection [()]", h.loc(), construct=f"value reads {srcs}", message=f"h5_copy_from_to reads dataset values as {srcs} (must be [()] in both branches)")
    cip = P.func(f"{O}.IH5Dataset.copy_into_patch")
    rep.check("self._files[-1][self._gpath] = self[()]" in norm(cip.node), "C17.R2", cip.qual, "copy_into_patch transfers the full value", cip.loc(), construct="copy_into_patch", message="copy_into_patch does not copy self[()]")


def r3_harvested_facts(P, rep, ctx):
    fi = P.func("harvester.common.FileMetaHarvester.run")
    defs = local_defs(fi)
    pd = [norm(v) for k, v in defs.get("path", []) if v is not None]
    rep.check(pd == ["self.args.filepath"], "C17.R3", fi.qual, "harvested file is the harvester's filepath argument", fi.loc(), construct=f"path = {pd}", message=f"harvester reads {pd}")
    sz = [norm(v) for k, v in defs.get("sz", []) if v is not None]
    hs = [norm(v) for k, v in defs.get("hs", []) if v is not None]
    rep.check(sz == ["path.stat().st_size"], "C17.R3", fi.qual, "size is the file's st_size", fi.loc(), construct=f"sz = {sz}", message=f"contentSize is computed as {sz}")
    rep.check(hs == ["hashsum(open(path, 'rb'), 'sha256')"], "C17.R3", fi.qual, "hash is SHA-256 over the file's bytes, read on this call", fi.loc(), construct=f"hs = {hs}", message=f"sha256 is computed as {hs}: not the digest of the file as it is now (e.g. memoised per path/size)")
    rets = [x.value for x in walk_local(fi.node) if isinstance(x, ast.Return)]
    ok = len(rets) == 1 and isinstance(rets[0], ast.Call) and {k.arg: norm(k.value) for k in rets[0].keywords}.items() >= {"contentSize": "sz", "sha256": "hs", "filename": "path.name"}.items()
    rep.check(ok, "C17.R3", fi.qual, "harvested values are returned as contentSize / sha256 / filename", fi.loc(), construct="harvester result", message="harvester result does not carry contentSize=sz, sha256=hs, filename=path.name")
    for f in [x for x in P.functions.values() if x.module.name in ("harvester.common", "util.hashsums", "packer.utils")]:
        decos = [norm(d.func) if isinstance(d, ast.Call) else norm(d) for d in getattr(f.node, "decorator_list", [])]
        memo = [d for d in decos if d.split(".")[-1] in MEMO]
        reads_file = any(call_attr(c) in ("open", "read_bytes", "hashsum", "file_hashsum", "stat") for c in local_calls(f.node))
        if reads_file or memo:
            rep.check(not memo, "C17.R3", f.qual, "file-reading helper is not memoised", f.loc(), construct=f"decorators {decos}", message=f"{f.qual} is memoised ({memo}): facts about a file rewritten in place come from the cache, not from the file")
    pf = P.func("packer.utils.pack_file")
    g = ctx.cfg(pf)
    cd = [n.idx for n in g.nodes if any(call_attr(c) == "create_dataset" for c in g.calls(n.idx))]
    att = [n.idx for n in g.nodes if n.kind == "stmt" and isinstance(n.stmt, ast.Assign) and any(norm(t).startswith("ret.meta[") for t in n.stmt.targets)]
    rep.check(bool(cd) and bool(att) and all(g.every_path_passes(cd, a) for a in att) and g.every_path_passes(att, g.exit), "C17.R3", pf.qual, "metadata is attached to the new dataset on every successful path", pf.loc(), construct="metadata attach after create_dataset", message="pack_file can return without attaching the file metadata (or attaches it before the dataset exists)")
    tests = [t for t in g.nodes if t.kind == "test" and norm(t.exprs[0]) == "not isinstance(metadata, FileMeta)"]
    ok = bool(tests) and all(g.exit not in g.reach([b for b, l in g.succ[t.idx] if l == "T"]) for t in tests) and all(g.every_path_passes([t.idx for t in tests], c) for c in cd)
    rep.check(ok, "C17.R3", pf.qual, "metadata that is not file metadata is refused before anything is stored", pf.loc(), construct="FileMeta refusal", message="pack_file does not refuse non-FileMeta metadata before creating the dataset")
    hv = [c for c in local_calls(pf.node) if norm(c.func) == "harvest"]
    ok = len(hv) == 1 and "hv_file(filepath=file_path)" in norm(hv[0]) and norm(hv[0].args[0]) == "FileMeta"
    rep.check(ok, "C17.R3", pf.qual, "default metadata is harvested from the same file that is embedded", pf.loc(), construct="harvest call", message="default metadata is not harvested from file_path with the core.file harvester")
