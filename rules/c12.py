"""C12 — Schema instances survive serialisation unchanged.

Decided: R1 the metaclass chain of the schema models is cooperative (every __init__/__new__ in it calls super on
every normal path) so the dynamic JSON-encoder lookup is installed for every schema, and the lookup has the
registered shape; R2 every custom value type (ParserMixin on a non-model base) has a registered encoder and a parser
accepting the encoder's output type and its own instances; R3 dump defaults / parse order / bytes form; R4 constants
are overridden on input, copied (not shared) from *all* bases, and recorded by the decorator.
Not decided: round-trip equality for all instances (runtime).
"""
from __future__ import annotations

import ast
from typing import List, Optional

from mdsa.astutil import call_attr, call_recv, kwarg, local_calls, norm, store_targets
from mdsa.cfg import walk_local
from mdsa.loader import AnalysisError

from mdsa import match as MM

from .sem import F
from .common import Ctx, local_defs

EXPLANATION = (
    "R1: the metaclass of MetadataSchema / BaseModelPlus is read from the class statements and linearised; each repo class of that MRO "
    "that defines __init__ or __new__ must pass a super().__init__/__new__ call on every normal-exit path (CFG must-pass), and "
    "DynJsonEncoderMetaMixin.__init__ must wrap the model's __json_encoder__ with the registry lookup. R2: classes that mix ParserMixin "
    "into a non-model base are enumerated; each needs @json_encoder(..), a Parser whose parse accepts str and instances of the target, "
    "and schema_info type 'string'. R3: dict/json route through _mod_def_dump_args (by_alias, exclude_none defaults), __bytes__ is "
    "json()+newline in UTF-8, parse_raw tries JSON first and YAML only on ValidationError. R4: override_consts is a pre root validator "
    "overwriting the input with cls.__constants__; SchemaMagic.__init__ builds a fresh dict from all bases; add_const_fields records every constant."
)
NOT_DECIDED = "parse(serialise(x)) == x for all valid instances of all schemas (runtime equality; third-party pydantic/isodate/pint behaviour)"


def run(P, rep, tier):
    rep.explanation = EXPLANATION
    rep.not_decided = NOT_DECIDED
    rep.assumptions = ["pydantic v1 ModelMetaclass computes __json_encoder__ per class in __new__", "Python calls metaclass __init__ via the cooperative super() chain only"]
    ctx = Ctx(P)
    rep.attempt(r1_metaclass_chain, P, rep, ctx)
    rep.attempt(r2_value_types, P, rep, ctx, tier)
    rep.attempt(r3_dump_defaults, P, rep, ctx)
    rep.attempt(r4_constants, P, rep, ctx)
    rep.attempt(r5_parse_config, P, rep, ctx)
    rep.floor("C12.R1", 6)
    rep.floor("C12.R2", 9)
    rep.floor("C12.R3", 6)
    rep.floor("C12.R4", 5)
    # refinement against the pinned tree for every function the rules above looked at (rules/pinned.py)
    import os as _os

    if not _os.environ.get("MDSA_PINNED_GEN"):
        from .pinned import refine

        refine(P, rep, ctx, "C12")


def metaclass_of(P, cq: str) -> Optional[str]:
    for q in P.mro(cq):
        c = P.classes.get(q)
        if c is not None and "metaclass" in c.keywords:
            r = P._resolve_expr_name(c.module, c.keywords["metaclass"])
            return r
    return None


def _super_calls(g, name):
    out = []
    for n in g.nodes:
        for c in g.calls(n.idx):
            if call_attr(c) == name and isinstance(c.func, ast.Attribute) and isinstance(c.func.value, ast.Call) and norm(c.func.value.func) == "super":
                out.append(n.idx)
    return out


def r1_metaclass_chain(P, rep, ctx):
    seen = set()
    for model in ("schema.core.MetadataSchema", "schema.base.BaseModelPlus"):
        mc = metaclass_of(P, model)
        if mc is None or mc not in P.classes:
            raise AnalysisError(f"C12.R1: metaclass of {model} not found")
        chain = [q for q in P.mro(mc) if q in P.classes]
        rep.info(f"metaclass MRO of {model}: {chain}")
        for q in chain:
            c = P.classes[q]
            for m in ("__init__", "__new__"):
                fi = c.methods.get(m)
                if fi is None or (q, m) in seen:
                    continue
                seen.add((q, m))
                g = ctx.cfg(fi)
                sup = _super_calls(g, m)
                ok = bool(sup) and g.every_path_passes(sup, g.exit)
                rep.check(ok, "C12.R1", fi.qual, f"{q.rsplit('.', 1)[-1]}.{m} calls super().{m} on every normal path (cooperative metaclass chain)", fi.loc(),
                          construct=f"super().{m} in {q.rsplit('.', 1)[-1]}.{m}",
                          message=f"{fi.qual} does not call super().{m} on every path: the metaclass hooks behind it in the MRO ({[x.rsplit('.', 1)[-1] for x in chain[chain.index(q) + 1:]]}) never run "
                                  "— e.g. the dynamic JSON encoder lookup is not installed and Duration/PintUnit fields cannot be serialised",
                          path=g.path_text(g.find_path(g.exit, avoid=sup)))
                if m == "__new__":
                    rets = [n for n in g.nodes if isinstance(n.stmt, ast.Return) and n.stmt.value is not None]
                    defs = local_defs(fi)
                    okr = all(isinstance(r.stmt.value, ast.Name) and any(v is not None and "super().__new__" in norm(v) for k, v in defs.get(r.stmt.value.id, [])) or "super().__new__" in norm(r.stmt.value) for r in rets)
                    rep.check(okr and bool(rets), "C12.R1", fi.qual, "__new__ returns the class created by super().__new__", fi.loc(), construct=f"return of {q.rsplit('.', 1)[-1]}.__new__", message=f"{fi.qual} returns something other than the super().__new__ result")
    enc = "schema.encoder"
    mro = P.mro("schema.core.SchemaMetaclass")
    rep.check(f"{enc}.DynJsonEncoderMetaMixin" in mro, "C12.R1", "schema.core.SchemaMetaclass", "the encoder mixin is part of the schema metaclass MRO", P.module("schema.core").relpath,
              construct="DynJsonEncoderMetaMixin in MRO", message="DynJsonEncoderMetaMixin is no longer in the metaclass MRO of MetadataSchema")
    fi = P.func(f"{enc}.DynJsonEncoderMetaMixin.__init__")
    stores = [st for st in walk_local(fi.node) if isinstance(st, ast.Assign) and any(norm(t) == "self.__json_encoder__" for t in st.targets)]
    fsem = F(ctx, fi)
    sts = fsem.stores("self.__json_encoder__")  # the stored value with single-definition locals expanded
    ok = len(stores) == 1 and len(sts) == 1 and fsem.x_at(sts[0][0], sts[0][1]) == "staticmethod(_dynamize_encoder(self.__json_encoder__))"
    rep.check(ok, "C12.R1", fi.qual, "metaclass wraps the model's JSON encoder with the dynamic registry lookup", fi.loc(), construct="__json_encoder__ wrapping", message="DynJsonEncoderMetaMixin.__init__ does not install staticmethod(_dynamize_encoder(self.__json_encoder__))")
    dz = P.func(f"{enc}._dynamize_encoder")
    we = dz.nested.get("wrapped_encoder")
    if we is None:
        raise AnalysisError("_dynamize_encoder.wrapped_encoder not found")
    wf = F(ctx, we)
    ob, ef = we.params[0], dz.params[0]
    rets = [(i, wf.x_at(i, v)) for i, v in wf.returns() if v is not None]
    first = [i for i, t_ in rets if t_ == f"{ef}({ob})"]
    found = wf.tests(f"_reg_json_encoders.get(type({ob}))", f"_reg_json_encoders.get(type({ob})) is not None", f"type({ob}) in _reg_json_encoders")
    second = [i for i, t_ in rets if t_ in (f"_reg_json_encoders.get(type({ob}))({ob})", f"_reg_json_encoders[type({ob})]({ob})")]
    handlers = [n for n in wf.g.nodes if n.kind == "except"]
    ok = (bool(first) and bool(found) and bool(second) and len(handlers) == 1 and norm(handlers[0].stmt.type) == "TypeError" and all(i in wf.g.reach([handlers[0].idx]) for i in second)
          and wf.all_hit_before(second, edges=found) and all(wf.hit_before(wf.g.exit, nodes=second, src_edge=e) for e in found) and wf.refuses(wf.neg(found)) and set(i for i, t_ in rets) == set(first) | set(second))
    rep.check(ok, "C12.R1", we.qual, "dynamic encoder: default first, on TypeError the registered encoder of type(obj), else re-raise", we.loc(), construct="wrapped_encoder", message="wrapped_encoder does not fall back to _reg_json_encoders.get(type(obj)) on TypeError")
    rets = [norm(x.value) for x in walk_local(dz.node) if isinstance(x, ast.Return)]
    rep.check(rets == ["wrapped_encoder"], "C12.R1", dz.qual, "_dynamize_encoder returns the wrapper", dz.loc(), construct="_dynamize_encoder return", message=f"_dynamize_encoder returns {rets}")
    je = P.func(f"{enc}.json_encoder")
    re_ = je.nested.get("reg_encoder")
    t = norm(re_.node) if re_ else ""
    rep.check("_reg_json_encoders[cls] = func" in t and "return cls" in t and norm(je.node).endswith("return reg_encoder"), "C12.R1", je.qual, "@json_encoder(f) registers f for the decorated class and returns the class", je.loc(),
              construct="json_encoder", message="json_encoder does not register `_reg_json_encoders[cls] = func` / return the class")


def _is_model_class(P, cq: str) -> bool:
    return any(b.endswith("BaseModel") or b.endswith("BaseModelPlus") for b in P.mro(cq))


def value_types(P, whole: bool):
    out = []
    for c in P.classes.values():
        if not whole and c.module.name != "schema.types":
            continue
        mro = P.mro(c.qual)
        if "schema.parser.ParserMixin" in mro[1:] and not _is_model_class(P, c.qual) and c.qual != "schema.parser.ParserMixin":
            out.append(c)
    return out


def _parser_parse(P, c):
    """FuncInfo of Parser.parse for a value-type class (through the Parser's MRO)."""
    pc = c.inner.get("Parser")
    if pc is None:
        return None, None
    hit = P.lookup_method(pc.qual, "parse")
    return pc, (hit[1] if hit else None)


def r2_value_types(P, rep, ctx, tier):
    vts = value_types(P, tier == "thorough")
    names = sorted(c.name for c in vts)
    for need in ("Duration", "PintUnit", "PintQuantity"):
        if need not in names:
            raise AnalysisError(f"C12.R2: value type {need} not found (found {names})")
    for c in vts:
        loc = f"{c.module.relpath}:{c.node.lineno}"
        decos = [d for d in c.node.decorator_list if isinstance(d, ast.Call) and norm(d.func) == "json_encoder" and d.args]
        added = [x for x in ast.walk(c.module.tree) if isinstance(x, ast.Call) and norm(x.func) == "add_json_encoder" and x.args and norm(x.args[0]) == c.name]
        rep.check(bool(decos) or bool(added), "C12.R2", c.qual, f"{c.name} has a registered JSON encoder", loc, construct=f"@json_encoder on {c.name}",
                  message=f"custom value type {c.name} has no @json_encoder: schemas holding it cannot be serialised to JSON/bytes")
        pc, parse = _parser_parse(P, c)
        rep.check(pc is not None and parse is not None and "schema.parser.BaseParser" in P.mro(pc.qual), "C12.R2", c.qual, f"{c.name} has a Parser deriving from BaseParser", loc, construct=f"{c.name}.Parser",
                  message=f"{c.name} has no inner Parser class deriving from BaseParser")
        if parse is None:
            continue
        # all parse methods along the Parser MRO that are actually reached: the parse of pc and those it calls via super()
        chain = [parse]
        pq = parse.cls.qual
        while any(call_attr(x) == "parse" and isinstance(x.func.value, ast.Call) and norm(x.func.value.func) == "super" for x in local_calls(chain[-1].node)):
            nxt = P.lookup_method(pc.qual, "parse", after=chain[-1].cls.qual)
            if not nxt:
                break
            chain.append(nxt[1])
        def feasible_exit(assume: str) -> bool:
            """Is a normal return reachable in every parse method of the chain when v is a `str` / an instance
            of the target class?  isinstance tests on v are evaluated under that assumption, other tests are free."""
            for pf in chain:
                tcls, v = pf.params[1], pf.params[2]

                def ev(e):
                    if isinstance(e, ast.UnaryOp) and isinstance(e.op, ast.Not):
                        r = ev(e.operand)
                        return None if r is None else not r
                    if isinstance(e, ast.Call) and norm(e.func) == "isinstance" and norm(e.args[0]) == v:
                        kinds = [norm(k) for k in (e.args[1].elts if isinstance(e.args[1], ast.Tuple) else [e.args[1]])]
                        return ("str" in kinds) if assume == "str" else (tcls in kinds)
                    if isinstance(e, ast.BoolOp):
                        vals = [ev(x) for x in e.values]
                        if isinstance(e.op, ast.And):
                            return False if False in vals else (True if all(x is True for x in vals) else None)
                        return True if True in vals else (False if all(x is False for x in vals) else None)
                    return None

                g = ctx.cfg(pf)
                block = []
                for t in g.nodes:
                    if t.kind == "test":
                        r = ev(t.exprs[0])
                        if r is True:
                            block.append((t.idx, "F"))
                        elif r is False:
                            block.append((t.idx, "T"))
                if g.exit not in g.reach([g.entry], labels_block=block):
                    return False
            return True

        accepts_str = feasible_exit("str")
        accepts_own = feasible_exit("own")
        rejects_str = False
        rep.check(accepts_str and not rejects_str, "C12.R2", parse.qual, f"parser of {c.name} accepts str (the encoder's output type)", parse.loc(), construct=f"{c.name}.Parser.parse accepts str",
                  message=f"the parser of {c.name} does not accept str although its JSON encoder emits strings: the serialised form cannot be parsed back")
        rep.check(accepts_own, "C12.R2", parse.qual, f"parser of {c.name} accepts instances of the target class", parse.loc(), construct=f"{c.name}.Parser.parse accepts own instances",
                  message=f"the parser of {c.name} rejects instances of {c.name} itself")
        si = pc.attrs.get("schema_info")
        ty = None
        if isinstance(si, ast.Call) and norm(si.func) == "dict":
            ty = kwarg(si, "type")
        elif isinstance(si, ast.Dict):
            ty = next((v for k, v in zip(si.keys, si.values) if isinstance(k, ast.Constant) and k.value == "type"), None)
        rep.check(isinstance(ty, ast.Constant) and ty.value == "string", "C12.R2", pc.qual, f"schema_info of {c.name} declares type 'string'", loc, construct=f"{c.name}.Parser.schema_info", message=f"{c.name}.Parser.schema_info does not declare JSON type 'string'")
    # pint units / quantities: the encoder is the full `str()` form, the one spelling the pint parser maps back to the same
    # unit for every unit (abbreviated forms such as "{:~}" print dimensionless as "" and share symbols between units)
    for cn in ("PintUnit", "PintQuantity"):
        c_ = P.cls(f"schema.types.{cn}")
        encs = [norm(x.args[0]) for x in c_.node.decorator_list if isinstance(x, ast.Call) and norm(x.func) == "json_encoder" and x.args]
        encs += [norm(x.args[1]) for x in ast.walk(c_.module.tree) if isinstance(x, ast.Call) and norm(x.func) == "add_json_encoder" and len(x.args) >= 2 and norm(x.args[0]) == cn]
        rep.check(encs == ["str"], "C12.R2", c_.qual, f"{cn} is encoded with str()", f"{c_.module.relpath}:{c_.node.lineno}", construct=f"{cn} encoder {encs}",
                  message=f"{cn} is encoded with {encs} instead of `str`: the written form is not the one the pint parser reads back as the same value for every unit (e.g. abbreviated symbols: dimensionless becomes the empty string, femtometer / petayear / milliinch collide with other units)")
    # Duration: encoder/parser are the isodate pair
    d = P.cls("schema.types.Duration")
    enc = [norm(x.args[0]) for x in d.node.decorator_list if isinstance(x, ast.Call) and norm(x.func) == "json_encoder"]
    _, parse = _parser_parse(P, d)
    canon, uses_isodate, rets = False, False, []
    if parse is not None:
        pf_ = F(ctx, parse)
        tc, vv = parse.params[1], parse.params[2]
        try:
            vp = pf_.value_paths()
        except ValueError:
            vp = []
        rets = [norm(val) for lits, val, node in vp]
        canon = bool(vp)
        for lits, val, node in vp:
            dd = dict(lits)
            is_str = dd.get(f"isinstance({vv}, str)")
            want = f"{tc}(seconds=isodate.parse_duration({vv}).total_seconds())" if is_str else f"{tc}(seconds={vv}.total_seconds())"
            canon = canon and is_str is not None and norm(val) == want
            uses_isodate = uses_isodate or (is_str is True and norm(val) == want)
    ok = enc == ["isodate.duration_isoformat"] and parse is not None and uses_isodate
    rep.check(canon, "C12.R2", d.qual, "every accepted Duration input (string or instance) is normalised to the same seconds-only form", parse.loc() if parse else "", construct="Duration parse normal form",
              message=f"Duration.Parser.parse does not normalise every input to tcls(seconds=total_seconds()) (returns {rets}): an instance given with years/months keeps its calendar part while its serialised form parses back without it")
    rep.check(ok, "C12.R2", d.qual, "Duration is encoded with isodate.duration_isoformat and parsed with isodate.parse_duration", f"{d.module.relpath}:{d.node.lineno}", construct="Duration codec pair", message=f"Duration encoder/parser are not the isodate format/parse pair: encoder {enc}")


def r3_dump_defaults(P, rep, ctx):
    B = "schema.base"
    fi = P.func(f"{B}._mod_def_dump_args")
    g = ctx.cfg(fi)
    for key in ("by_alias", "exclude_none"):
        f = F(ctx, fi)
        kw = fi.params[0]
        absent = f.tests(f"'{key}' not in {kw}")
        sets = [i for i, v, b in f.stores(f"{kw}['{key}']") if norm(v) == "True"] + f.calls(f"{kw}.setdefault('{key}', True)")
        ok = bool(sets) and (bool(f.calls(f"{kw}.setdefault('{key}', True)")) and f.hit_before(g.exit, nodes=sets) or (bool(absent) and f.all_hit_before(sets, edges=absent) and all(f.hit_before(g.exit, nodes=sets, src_edge=e) for e in absent)))
        rep.check(ok, "C12.R3", fi.qual, f"dump default {key}=True unless given explicitly", fi.loc(), construct=f"default {key}", message=f"_mod_def_dump_args does not default {key} to True (only when the caller did not pass it)")
    rets = [norm(x.value) for x in walk_local(fi.node) if isinstance(x, ast.Return)]
    rep.check(rets == ["kwargs"], "C12.R3", fi.qual, "returns the adjusted kwargs", fi.loc(), construct="_mod_def_dump_args return", message=f"_mod_def_dump_args returns {rets}")
    # no other dump option gets a default here: every further exclude_* / include option drops fields from EVERY dump
    f = F(ctx, fi)
    kw = fi.params[0]
    keys = set()
    for i, v, b in f.stores(f"{kw}[__k]"):
        keys.add(norm(b["__k"]))
    for i, c, b in f.call_sites(f"{kw}.setdefault(__k, __v)"):
        keys.add(norm(b["__k"]))
    for i, c, b in f.call_sites(f"{kw}.update(___)"):
        keys |= {repr(k.arg) for k in c.keywords if k.arg} | {norm(k_) for a in c.args if isinstance(a, ast.Dict) for k_ in a.keys if k_ is not None}
    extra = sorted(k for k in keys if k not in ("'by_alias'", "'exclude_none'"))
    rep.check(not extra, "C12.R3", fi.qual, "only by_alias and exclude_none get a default", fi.loc(), construct=f"_mod_def_dump_args defaults {sorted(keys)}",
              message=f"_mod_def_dump_args also sets {extra}: every dict()/json()/yaml()/bytes dump of every schema now applies it (e.g. exclude_unset / exclude_defaults drop values that were never assigned explicitly, such as constants and defaults of nested objects), so the parsed dump is not equal to the instance")
    for m in ("dict", "json"):
        f = P.func(f"{B}.BaseModelPlus.{m}")
        rets = [norm(x.value) for x in walk_local(f.node) if isinstance(x, ast.Return)]
        rep.check(rets == [f"super().{m}(*args, **_mod_def_dump_args(kwargs))"], "C12.R3", f.qual, f"{m}() routes through the dump defaults", f.loc(), construct=f"BaseModelPlus.{m}",
                  message=f"BaseModelPlus.{m} does not call super().{m}(*args, **_mod_def_dump_args(kwargs)): dict() and json() disagree on aliases / None handling")
    f = P.func(f"{B}.BaseModelPlus.__bytes__")
    rets = [norm(x.value) for x in walk_local(f.node) if isinstance(x, ast.Return)]
    rep.check(rets == ["(self.json() + '\\n').encode(encoding='utf-8')"], "C12.R3", f.qual, "bytes form is json() + newline in UTF-8", f.loc(), construct="__bytes__", message=f"__bytes__ is {rets}")
    f = P.func(f"{B}.BaseModelPlus.parse_raw")
    tries = [x for x in walk_local(f.node) if isinstance(x, ast.Try)]
    ok = len(tries) == 1
    if ok:
        t = tries[0]
        body_calls = [norm(c.func) for b in t.body for c in ast.walk(b) if isinstance(c, ast.Call)]
        h = t.handlers
        ok = "super().parse_raw" in body_calls and "parse_yaml_raw_as" not in body_calls and len(h) == 1 and norm(h[0].type) == "ValidationError" and any("parse_yaml_raw_as(cls, dat)" in norm(b) for b in h[0].body)
    rep.check(ok, "C12.R3", f.qual, "parse_raw tries JSON (pydantic) first and YAML only on ValidationError", f.loc(), construct="parse_raw order", message="parse_raw does not try the JSON parser first with YAML as ValidationError fallback")
    from .common import require_total

    for q in ("parse_raw", "dict", "json", "json_dict", "yaml", "__bytes__", "parse_file"):
        require_total(rep, ctx, "C12.R3", P.func(f"{B}.BaseModelPlus.{q}"))
    for q in ("schema.parser.run_parser", "schema.encoder._dynamize_encoder", "schema.encoder.json_encoder", "schema.core.SchemaBase.override_consts"):
        require_total(rep, ctx, "C12.R3", P.func(q))
    f = P.func(f"{B}.BaseModelPlus.yaml")
    rets = [norm(x.value) for x in walk_local(f.node) if isinstance(x, ast.Return)]
    rep.check(rets == ["to_yaml_str(self)"], "C12.R3", f.qual, "yaml() serialises the model itself", f.loc(), construct="yaml()", message=f"yaml() returns {rets}")


# pydantic Config keys that decide how values are mapped on input / output, with the values the round-trip rules were
# checked against (absent = pydantic default)
PARSE_CONFIG = {
    "extra": "Extra.allow", "underscore_attrs_are_private": "True", "use_enum_values": "True", "allow_population_by_field_name": "True",
    "validate_assignment": "True", "validate_all": "True", "allow_inf_nan": "False", "anystr_strip_whitespace": "True", "min_anystr_length": "1",
    "smart_union": None, "anystr_lower": None, "anystr_upper": None, "max_anystr_length": None, "json_encoders": None, "json_dumps": None, "json_loads": None,
    "alias_generator": None, "fields": None,
}


def r5_parse_config(P, rep, ctx):
    """The model configuration all schemas inherit decides how values are coerced on input and dumped on output.  The
    round-trip argument (R1-R3) was made for this configuration; a changed or added value-mapping key is re-opened."""
    cfgs = [c for q, c in P.classes.items() if q.startswith("schema.base.BaseModelPlus") and c.name == "Config"]
    if len(cfgs) != 1:
        raise AnalysisError("C12.R5: BaseModelPlus.Config not found")
    cfg = cfgs[0]
    got = {k: norm(v) for k, v in cfg.attrs.items()}
    # Config classes of the schema base classes further down inherit from this one: a value-mapping key set there overrides it
    chain = {m_ + ".Config" for m_ in P.mro("schema.core.MetadataSchema")}
    for q, c in sorted(P.classes.items()):
        if c.name != "Config" or c is cfg or q not in chain:
            continue
        for k, v in c.attrs.items():
            if k in PARSE_CONFIG:
                want = PARSE_CONFIG[k]
                rep.check(want is not None and norm(v) == want, "C12.R5", c.qual, f"{q}.{k} does not override the base configuration", c.module.relpath + f":{c.node.lineno}", construct=f"{q}.{k} = {norm(v)}",
                          message=f"{q}.{k} = {norm(v)} overrides BaseModelPlus.Config ({want if want is not None else 'pydantic default'}) for every schema below it: values are coerced / validated / dumped differently than the round-trip argument assumes (e.g. validate_all=False leaves string defaults unparsed)")
    for k, want in sorted(PARSE_CONFIG.items()):
        have = got.get(k)
        if want is None and have is None:
            continue
        rep.check(have == want, "C12.R5", cfg.qual, f"Config.{k} = {want}", cfg.module.relpath + f":{cfg.node.lineno}", construct=f"Config.{k} = {have}",
                  message=f"BaseModelPlus.Config.{k} is {have} (the serialisation round trip was established for {want if want is not None else 'the pydantic default'}): this key changes how values are coerced when parsed or how they are dumped"
                          + (" — with smart_union an instance of a later Union member is kept as it is, but its dump parses back as the first member that accepts it" if k == "smart_union" else ""))


def r4_constants(P, rep, ctx):
    C = "schema.core"
    fi = P.func(f"{C}.SchemaBase.override_consts")
    decos = [norm(d) for d in fi.node.decorator_list]
    rep.check(decos == ["root_validator(pre=True)"], "C12.R4", fi.qual, "override_consts is a pre root validator", fi.loc(), construct=f"decorators {decos}", message=f"override_consts is decorated with {decos}, not root_validator(pre=True): constants are not forced before field validation")
    of = F(ctx, fi)
    vp = fi.params[1]
    upd_ = of.calls(f"{vp}.update(cls.__constants__)")
    rets_ = [of.x_at(i, v) for i, v in of.returns() if v is not None]
    in_place = bool(upd_) and of.hit_before(of.g.exit, nodes=upd_) and bool(rets_) and all(r == vp for r in rets_)
    fresh_ = bool(rets_) and all(r in (f"{{**{vp}, **cls.__constants__}}", f"dict({vp}, **cls.__constants__)", f"{vp} | cls.__constants__") for r in rets_)
    # copy-then-update: `ret = dict(values)` / `values.copy()` / `{**values}`; `ret.update(cls.__constants__)`; `return ret`
    copied_ = False
    cs_ = of.call_sites("__r.update(cls.__constants__)")
    rnames = {norm(b["__r"]) for _, _, b in cs_ if isinstance(b.get("__r"), ast.Name)} - {vp}
    if len(rnames) == 1:
        rn = next(iter(rnames))
        dfs_ = [norm(v) for k, v in local_defs(fi).get(rn, []) if v is not None]
        upd_r = [i for i, _, b in cs_ if norm(b["__r"]) == rn]
        raw_rets = [norm(v) for _, v in of.returns() if v is not None]
        copied_ = len(dfs_) == 1 and dfs_[0] in (f"dict({vp})", f"{vp}.copy()", f"{{**{vp}}}") and of.hit_before(of.g.exit, nodes=upd_r) and bool(raw_rets) and all(r == rn for r in raw_rets)
    fresh_ = fresh_ or copied_
    # nothing may make the update conditional (e.g. "all constant keys already present")
    cond_ = [t for t in of.g.nodes if t.kind == "test"]
    body = [norm(b) for b in fi.node.body if not (isinstance(b, ast.Expr) and isinstance(b.value, ast.Constant))]
    rep.check((in_place or fresh_) and not cond_, "C12.R4", fi.qual, "override_consts overwrites the input with the declared constants", fi.loc(), construct="override_consts body", message=f"override_consts body is {body}")
    # JSON-LD presets: every declared value except None becomes a constant (0, False, "" and empty collections included)
    wk = P.func("schema.ld.with_key_prefix")
    wf = F(ctx, wk)
    okw = False
    for _, v in wf.returns():
        dfl = wf.dict_filter(v) if v is not None else None
        if dfl is None and isinstance(v, ast.DictComp) and len(v.generators) == 1 and isinstance(v.generators[0].target, ast.Tuple):
            # keys are rewritten (prefix): look at the filter of the comprehension directly
            gen = v.generators[0]
            vv = norm(gen.target.elts[1])
            conds = [c for i in gen.ifs for c in MM.conjuncts(i)]
            kept = ast.BoolOp(op=ast.And(), values=conds) if len(conds) > 1 else conds[0] if conds else ast.Constant(value=True)
            okw = wf.x(gen.iter) == f"{wk.params[1]}.items()" and MM.equivalent(kept, f"{vv} is not None") and norm(v.value) == vv
    rep.check(okw, "C12.R4", wk.qual, "every preset except None is declared as constant (falsy values are kept)", wk.loc(), construct="with_key_prefix filter",
              message="with_key_prefix drops presets by truthiness (or by another test than `is not None`): JSON-LD constants such as 0, False or [] are never declared and are missing from every serialised form")
    fi = P.func(f"{C}.SchemaMagic.__init__")
    g = ctx.cfg(fi)
    fresh = [n.idx for n in g.nodes if n.kind == "stmt" and norm(n.stmt) in ("self.__constants__ = {}", "self.__constants__ = dict()")]
    loops = [n for n in g.nodes if n.kind == "for" and norm(n.stmt.iter) in ("bases", "reversed(bases)", "self.__bases__")]
    upd = [n.idx for n in g.nodes if n.kind == "stmt" and norm(n.stmt).startswith("self.__constants__.update(getattr(") and "'__constants__', {})" in norm(n.stmt)]
    ok = bool(fresh) and bool(loops) and bool(upd) and g.every_path_passes(fresh, g.exit) and all(g.every_path_passes(fresh, u) for u in upd)
    if ok:
        lv = norm(loops[0].stmt.target)
        ok = all(f"getattr({lv}, '__constants__', {{}})" in norm(g.nodes[u].stmt) for u in upd) and all(any(g.nodes[u].stmt is s or any(x is g.nodes[u].stmt for x in ast.walk(s)) for s in l.stmt.body) for u in upd for l in loops[:1])
    rep.check(ok, "C12.R4", fi.qual, "inherited constants are copied into a fresh dict from all bases", fi.loc(), construct="constants inheritance in SchemaMagic.__init__",
              message="SchemaMagic.__init__ does not build self.__constants__ as a fresh dict updated from every base (shared dict, or only one base: marked (version-less) schema classes lose their constants)")
    shares = [st for st in walk_local(fi.node) if isinstance(st, ast.Assign) and any(norm(t) == "self.__constants__" for t in st.targets) and norm(st.value) not in ("{}", "dict()")]
    rep.check(not shares, "C12.R4", fi.qual, "constants dict is not shared with a base class", fi.loc(), construct="constants aliasing", message=f"self.__constants__ aliases another object: {[norm(s) for s in shares]}")
    fi = P.func("schema.decorators.add_const_fields")
    af = fi.nested.get("add_fields")
    ok = False
    if af is not None:
        f = F(ctx, af)
        g = f.g
        cs, mc = fi.params[0], af.params[0]
        loops = [n for n in g.nodes if n.kind == "for" and f.x(n.stmt.iter) == f"{cs}.items()" and isinstance(n.stmt.target, ast.Tuple) and len(n.stmt.target.elts) == 2]
        ok_iter = ok_val = False
        if len(loops) == 1:
            L = loops[0].idx
            nm, val = [norm(e) for e in loops[0].stmt.target.elts]
            stores = [(i, v) for i, v, b in f.stores(f"{mc}.__fields__[{nm}]")]
            ok_iter = bool(stores) and f.hit_before(L, nodes=[i for i, v in stores], src_edge=(L, "iter")) and f.hit_before(g.exit, nodes=[L])
            infers = [f.xe_at(i, v) for i, v in stores]
            ok_val = bool(infers) and all(isinstance(x, ast.Call) and norm(x.func) == "ModelField.infer" and norm(kwarg(x, "value") or ast.Constant(value=None)) == val and norm(kwarg(x, "name") or ast.Constant(value=None)) == nm for x in infers)
        rep.check(ok_iter, "C12.R4", af.qual, "for every constant the pydantic field is (re)built with the constant as default (no skipped iteration)", af.loc(), construct="field rebuild on every iteration",
                  message="add_const_fields can skip rebuilding the field for a constant (e.g. when it re-declares an inherited constant): the field default keeps the parent's value, so objects built without validation serialise the wrong constant")
        rep.check(ok_val, "C12.R4", af.qual, "the field default is the constant's value", af.loc(), construct="ModelField.infer(value=value)", message="the constant field's default is not the declared constant value")
        rec = f.call_sites(f"__r.__constants__.update({cs})")
        ok = ok_iter and bool(rec) and all(f.alias_root(i, b["__r"]) == mc for i, c, b in rec) and f.hit_before(g.exit, nodes=[i for i, c, b in rec])
    rep.check(ok, "C12.R4", fi.qual, "add_const_fields defines a field for and records every constant", fi.loc(), construct="add_const_fields", message="add_const_fields does not record every constant in __constants__ / define its field")
