"""Helpers shared by the property rule files."""
from __future__ import annotations

import ast
from typing import Callable, Dict, Iterable, List, Optional, Set, Tuple

from mdsa.astutil import (
    arg_or_kw,
    call_attr,
    call_recv,
    chain,
    const_int,
    is_neg_one,
    kwarg,
    local_calls,
    norm,
    store_targets,
)
from mdsa.cfg import CFG, Node, walk_local
from mdsa.loader import AnalysisError, ClassInfo, FuncInfo, NoFold, Program, dotted
from mdsa.resolve import CallGraph, enclosing_class, resolve_call

# ---------------------------------------------------------------------------------------------
# CFG cache with "noreturn" summaries


class Ctx:
    """Per-run analysis context: program, cached CFGs, call graph."""

    def __init__(self, P: Program):
        self.P = P
        P.activate()
        self._cfg: Dict[str, CFG] = {}
        self._cg: Optional[CallGraph] = None
        self._noret: Dict[str, bool] = {}

    def noreturn_call(self, fi: FuncInfo) -> Callable[[ast.Call], bool]:
        def pred(call: ast.Call) -> bool:
            for c in resolve_call(self.P, fi, call, overrides=False):
                if self.never_returns(c):
                    return True
            return False

        return pred

    def never_returns(self, fi: FuncInfo, _depth=0) -> bool:
        """Function raises on every path (e.g. _raise_illegal_op)."""
        if fi.qual in self._noret:
            return self._noret[fi.qual]
        self._noret[fi.qual] = False  # recursion guard
        if _depth > 4 or not isinstance(fi.node, (ast.FunctionDef, ast.AsyncFunctionDef)):
            return False
        if any(isinstance(x, (ast.Yield, ast.YieldFrom)) for x in walk_local(fi.node)):
            return False
        g = CFG(fi.node)
        res = g.exit not in g.reach([g.entry])
        self._noret[fi.qual] = res
        return res

    def cfg(self, fi: FuncInfo) -> CFG:
        g = self._cfg.get(fi.qual)
        if g is None:
            g = CFG(fi.node, noreturn=self.noreturn_call(fi))
            self._cfg[fi.qual] = g
        return g

    def tests(self, fi: FuncInfo, pattern, binds=None) -> List[Tuple[int, str]]:
        """(test node, out-edge label on which `pattern` holds) for every atomic condition of fi matching the
        pattern; locals are expanded, polarity and and/or/not structure are normalised by the CFG."""
        from mdsa.match import find_tests

        return find_tests(self.cfg(fi), fi.node, pattern, binds)

    def tests_any(self, fi: FuncInfo, *patterns) -> List[Tuple[int, str]]:
        out: List[Tuple[int, str]] = []
        for p in patterns:
            for x in self.tests(fi, p):
                if x not in out:
                    out.append(x)
        return out

    def branch(self, fi: FuncInfo, edges: List[Tuple[int, str]]) -> List[int]:
        """First nodes of the branches entered through the given (test, label) out-edges."""
        g = self.cfg(fi)
        return [b for t, lab in edges for b, l in g.succ[t] if l == lab]

    def raises_on(self, fi: FuncInfo, edges: List[Tuple[int, str]]) -> bool:
        """Taking any one of the given out-edges never reaches the normal exit (refusal branch)."""
        g = self.cfg(fi)
        starts = self.branch(fi, edges)
        return bool(edges) and g.exit not in g.reach(starts) and g.exit not in starts

    @property
    def cg(self) -> CallGraph:
        if self._cg is None:
            self._cg = CallGraph(self.P)
        return self._cg


# ---------------------------------------------------------------------------------------------
# generic predicates


def is_self_call(call: ast.Call, name: str, recv_names=("self", "cls", "ret", "obj")) -> bool:
    f = call.func
    return isinstance(f, ast.Attribute) and f.attr == name and isinstance(f.value, ast.Name) and f.value.id in recv_names


def calls_named(g: CFG, name: str, recv_pred: Optional[Callable[[ast.AST], bool]] = None) -> List[int]:
    """CFG nodes containing a call whose method/function name is `name`."""
    out = []
    for n in g.nodes:
        for c in g.calls(n.idx):
            if call_attr(c) == name and (recv_pred is None or recv_pred(call_recv(c))):
                out.append(n.idx)
                break
    return out


def node_of(g: CFG, astnode: ast.AST) -> Optional[int]:
    """CFG node whose evaluated expressions contain the given ast node (by identity)."""
    for n in g.nodes:
        for e in n.exprs:
            if e is None:
                continue
            for x in walk_local(e):
                if x is astnode:
                    return n.idx
    return None


def guard_nodes(ctx: Ctx, fi: FuncInfo, guard_names: Set[str], _depth=0) -> List[int]:
    """Nodes of fi that establish the guard: a direct call of one of guard_names, or a call to a repo
    helper every normal-exit path of which passes such a call (hoisted guards)."""
    g = ctx.cfg(fi)
    out = []
    for n in g.nodes:
        for c in g.calls(n.idx):
            nm = call_attr(c)
            if nm in guard_names:
                out.append(n.idx)
                break
            if _depth < 3 and nm and nm.startswith("_"):
                for callee in resolve_call(ctx.P, fi, c, overrides=False):
                    if callee.qual == fi.qual:
                        continue
                    if helper_establishes(ctx, callee, guard_names, _depth + 1):
                        out.append(n.idx)
                        break
                else:
                    continue
                break
    return out


def helper_establishes(ctx: Ctx, fi: FuncInfo, guard_names: Set[str], _depth=0) -> bool:
    if not isinstance(fi.node, (ast.FunctionDef, ast.AsyncFunctionDef)):
        return False
    g = ctx.cfg(fi)
    gn = guard_nodes(ctx, fi, guard_names, _depth)
    if not gn:
        return False
    return g.every_path_passes(gn, g.exit)


def guarded_interproc(
    ctx: Ctx,
    fi: FuncInfo,
    node_idx: int,
    guard_names: Set[str],
    depth: int = 6,
    _stack: Tuple[str, ...] = (),
) -> Tuple[bool, List[str]]:
    """Is the effect at node_idx of fi preceded by a guard on every path from every public entry?
    Returns (ok, chain describing an unguarded entry path)."""
    g = ctx.cfg(fi)
    gn = guard_nodes(ctx, fi, guard_names)
    if g.every_path_passes(gn, node_idx):
        return True, []
    here = f"{fi.qual} (L{g.nodes[node_idx].lineno}: {g.nodes[node_idx].text()[:70]})"
    if depth == 0 or fi.qual in _stack:
        return False, [here + " [depth bound]"]
    callers = [c for c in ctx.cg.callers(fi.qual) if c != fi.qual]
    # a nested function counts as called where it is *used* in its definer
    if not callers or not _is_private(fi):
        return False, [here + " [reachable from a public entry without guard]"]
    for cq in callers:
        cfi = ctx.P.functions[cq]
        cg = ctx.cfg(cfi)
        sites = ctx.cg.sites.get((cq, fi.qual), [])
        site_nodes = [node_of(cg, s) for s in sites]
        if fi.parent is not None and fi.parent.qual == cq:
            # nested function: guard must dominate its definition and every use in the definer
            site_nodes = [n.idx for n in cg.nodes if n.kind == "def" and n.stmt is fi.node]
        for sn in site_nodes:
            if sn is None:
                return False, [here, f"{cq} [call site not found in CFG]"]
            ok, ch = guarded_interproc(ctx, cfi, sn, guard_names, depth - 1, _stack + (fi.qual,))
            if not ok:
                return False, [here] + ch
    return True, []


def require_total(rep, ctx: "Ctx", rule: str, fi: FuncInfo, what: str = "") -> bool:
    """TOTAL: a value-returning function hands its value back on every normal path (no fall-through / bare return)."""
    g = ctx.cfg(fi)
    bad = []
    for p in g.pred.get(g.exit, []):
        n = g.nodes[p]
        if isinstance(n.stmt, ast.Return) and n.kind == "stmt":
            if n.stmt.value is None:
                bad.append(f"L{n.lineno}: bare return")
        else:
            bad.append(f"falls off the end after L{n.lineno}: {n.text()[:50]}")
    return rep.check(not bad, rule, fi.qual, f"{fi.name} returns its result on every normal path{(' (' + what + ')') if what else ''}", fi.loc(), construct=f"{fi.name} result on all paths",
                     message=f"{fi.qual} can end without returning its result ({'; '.join(bad)}): callers receive None", path=bad)


def _is_private(fi: FuncInfo) -> bool:
    n = fi.name
    return (n.startswith("_") and not (n.startswith("__") and n.endswith("__"))) or fi.parent is not None


# ---------------------------------------------------------------------------------------------
# backward slice of a value inside one function


def local_defs(fi: FuncInfo) -> Dict[str, List[Tuple[str, ast.AST]]]:
    """name -> [(kind, expr)] for all local bindings: ('assign', value) | ('iter', iterable) |
    ('with', ctxexpr) | ('param', None) | ('aug', value)."""
    out: Dict[str, List[Tuple[str, ast.AST]]] = {}
    for p in fi.params:
        out.setdefault(p, []).append(("param", None))
    func_level = set(fi.params)
    for st in walk_local(fi.node):
        if isinstance(st, (ast.Assign, ast.AnnAssign, ast.AugAssign)):
            tg = st.targets if isinstance(st, ast.Assign) else [st.target]
            for t in tg:
                func_level |= {x.id for x in ast.walk(t) if isinstance(x, ast.Name)}
        elif isinstance(st, (ast.For, ast.AsyncFor)):
            func_level |= {x.id for x in ast.walk(st.target) if isinstance(x, ast.Name)}
    for st in walk_local(fi.node):
        if isinstance(st, ast.Assign):
            for t in st.targets:
                _bind(out, t, "assign", st.value)
        elif isinstance(st, ast.AnnAssign) and st.value is not None:
            _bind(out, st.target, "assign", st.value)
        elif isinstance(st, ast.AugAssign):
            _bind(out, st.target, "aug", st.value)
        elif isinstance(st, (ast.For, ast.AsyncFor)):
            _bind(out, st.target, "iter", st.iter)
        elif isinstance(st, ast.comprehension):
            # comprehension variables are scoped to the comprehension: only bind names that are not
            # also function-level locals / parameters (otherwise the two scopes would be conflated)
            comp_names = {x.id for x in ast.walk(st.target) if isinstance(x, ast.Name)}
            if not (comp_names & func_level):
                _bind(out, st.target, "iter", st.iter)
        elif isinstance(st, (ast.With, ast.AsyncWith)):
            for i in st.items:
                if i.optional_vars is not None:
                    _bind(out, i.optional_vars, "with", i.context_expr)
        elif isinstance(st, ast.NamedExpr):
            _bind(out, st.target, "assign", st.value)
    return out


def _bind(out, target, kind, value):
    if isinstance(target, ast.Name):
        out.setdefault(target.id, []).append((kind, value))
    elif isinstance(target, (ast.Tuple, ast.List)):
        for e in target.elts:
            _bind(out, e, kind + "-unpack" if not kind.endswith("unpack") else kind, value)


def slice_roots(fi: FuncInfo, expr: ast.AST, _seen=None, defs=None, stop=None) -> List[Tuple[str, ast.AST, str]]:
    """Expand local names in expr transitively; returns leaves as (kind, expr, via) where kind is
    'expr' (an expression with no further local names to expand), 'param', 'iter', 'with'."""
    defs = defs if defs is not None else local_defs(fi)
    _seen = _seen if _seen is not None else set()
    leaves: List[Tuple[str, ast.AST, str]] = []
    if stop is not None and stop(expr):
        return [("expr", expr, "")]
    names = [x for x in walk_local(expr) if isinstance(x, ast.Name) and isinstance(x.ctx, ast.Load)]
    expandable = [n for n in names if n.id in defs and n.id not in ("self", "cls")]
    if not expandable:
        return [("expr", expr, "")]
    leaves.append(("expr", expr, ""))
    for n in expandable:
        if n.id in _seen:
            continue
        _seen.add(n.id)
        for kind, val in defs[n.id]:
            if kind == "param":
                leaves.append(("param", n, n.id))
            elif kind.startswith("iter"):
                leaves.append(("iter", val, n.id))
                leaves += slice_roots(fi, val, _seen, defs, stop)
            elif kind.startswith("with"):
                leaves.append(("with", val, n.id))
            else:
                leaves += slice_roots(fi, val, _seen, defs, stop)
    return leaves


# ---------------------------------------------------------------------------------------------
# file-list index idioms (IH5)

FILES_ATTRS = ("_files", "__files__", "ih5_files", "ih5_meta")


def index_kind(e: ast.AST) -> str:
    """Classify an index into the container list: 'newest' | 'const:<n>' | 'var:<text>'."""
    if is_neg_one(e):
        return "newest"
    t = norm(e)
    if t in ("self._last_idx", "len(self._files) - 1", "len(self.__files__) - 1", "len(ret.__files__) - 1"):
        return "newest"
    ci = const_int(e)
    if ci is not None:
        return f"const:{ci}"
    return f"var:{t}"


def files_subscripts(node: ast.AST) -> List[Tuple[ast.Subscript, str, str]]:
    """All subscripts X.<files-attr>[i] inside node: (subscript, root text, index kind)."""
    out = []
    for x in walk_local(node):
        if isinstance(x, ast.Subscript) and isinstance(x.value, ast.Attribute) and x.value.attr in FILES_ATTRS:
            out.append((x, norm(x.value), index_kind(x.slice)))
    return out


# ---------------------------------------------------------------------------------------------
# file-system sinks

FS_WRITE_METHODS = {"unlink", "rename", "replace", "write_bytes", "write_text", "touch", "mkdir", "rmdir", "symlink_to", "chmod", "truncate"}
OS_WRITE_FUNCS = {"os.remove", "os.unlink", "os.rename", "os.replace", "os.truncate", "os.rmdir", "os.mkdir", "os.makedirs"}


def fold_str(P: Program, fi: FuncInfo, e: Optional[ast.AST]) -> Optional[str]:
    if e is None:
        return None
    try:
        v = P.fold(e, fi.module)
    except NoFold:
        return None
    return v if isinstance(v, str) else None


def fs_sinks(P: Program, fi: FuncInfo) -> List[dict]:
    """File-system effects in one function: h5py.File / open constructions with their mode,
    Path mutators, shutil.*, os.* mutators."""
    out = []
    for c in local_calls(fi.node):
        d = dotted(c.func) or ""
        ref = P.resolve_name(fi.module, d) if d else None
        if ref == "ext:h5py.File" or d == "h5py.File":
            mode_e = arg_or_kw(c, 1, "mode")
            mode = fold_str(P, fi, mode_e) if mode_e is not None else "r"
            out.append({"kind": "h5py.File", "mode": mode, "call": c, "path": c.args[0] if c.args else kwarg(c, "name")})
        elif d == "open" and "open" not in fi.module.functions and "open" not in fi.module.imports:
            mode_e = arg_or_kw(c, 1, "mode")
            mode = fold_str(P, fi, mode_e) if mode_e is not None else "r"
            out.append({"kind": "open", "mode": mode, "call": c, "path": c.args[0] if c.args else kwarg(c, "file")})
        elif isinstance(c.func, ast.Attribute) and c.func.attr == "open" and not d.startswith(("Image.", "tarfile.", "zipfile.")) and d not in ("os.open",):
            # Path.open(mode)
            mode_e = arg_or_kw(c, 0, "mode")
            mode = fold_str(P, fi, mode_e) if mode_e is not None else "r"
            out.append({"kind": "Path.open", "mode": mode, "call": c, "path": c.func.value})
        elif isinstance(c.func, ast.Attribute) and c.func.attr in FS_WRITE_METHODS and not (ref or "").startswith("repo:") and not (c.func.attr == "replace" and len(c.args) + len(c.keywords) != 1):
            # (str.replace(old, new[, count]) is not a file operation; Path.replace(target) takes exactly one argument)
            out.append({"kind": "Path." + c.func.attr, "mode": "w", "call": c, "path": c.func.value})
        elif (ref or "").startswith("ext:shutil.") or d.startswith("shutil."):
            out.append({"kind": d, "mode": "w", "call": c, "path": c.args[0] if c.args else None})
        elif d in OS_WRITE_FUNCS:
            out.append({"kind": d, "mode": "w", "call": c, "path": c.args[0] if c.args else None})
    return out


def mode_is_writable(kind: str, mode: Optional[str]) -> bool:
    if mode is None:
        return True  # non-constant mode: must be treated as writable
    if kind == "h5py.File":
        return mode != "r"
    if kind in ("open", "Path.open"):
        return any(ch in mode for ch in "wax+")
    return True


# ---------------------------------------------------------------------------------------------
# rules shared by several properties

PATHISH = ("_abs_path(", "_gpath", ".name", "_base_dir", "to_meta_base_path(", "to_data_node_path(")
PATH_PARAMS = {"path", "source", "dest", "src", "dst", "target", "target_path", "name", "key", "gpath", "prefix_path"}
# confirmed exceptions (one line of reason each)
PREFIX_TEST_OK = {
    "ih5.overlay.IH5Node._rel_path": "internal usage check (RuntimeError 'Invalid usage'): callers pass paths resolved from this very node; a sibling-prefix path cannot arrive here",
}


def r_path_prefix_tests(P, rep, ctx, rule: str, modules):
    """Whether one node path lies below another is a question about path SEGMENTS.  `a.startswith(b)` on two paths is true
    for siblings whose names merely begin alike (`/exp/run` vs `/exp/run2`, `/run1` vs `/run10`): a containment test between
    two path expressions must compare with a trailing '/' (`b.rstrip('/') + '/'`), go through parents / parts, or be an
    equality."""
    from .sem import F

    n = 0
    for fi in P.functions.values():
        if fi.module.name not in modules:
            continue
        f = None
        for c in local_calls(fi.node):
            if not (isinstance(c.func, ast.Attribute) and c.func.attr == "startswith" and len(c.args) == 1):
                continue
            f = f or F(ctx, fi)
            site = node_of(f.g, c)
            recv = f.x_at(site, c.func.value) if site is not None else norm(c.func.value)
            arg_e = f.xe_at(site, c.args[0]) if site is not None else c.args[0]
            arg = norm(arg_e)
            if isinstance(arg_e, (ast.Constant, ast.JoinedStr)) or arg.isupper() or "METADOR_" in arg or "PREF" in arg:
                continue  # constant prefixes (reserved-name tests) are C08.R4's business

            def pathish(t, e):
                return any(k in t for k in PATHISH) or (isinstance(e, ast.Name) and e.id in PATH_PARAMS and e.id in fi.params)

            if not (pathish(recv, c.func.value) and pathish(arg, c.args[0])):
                continue
            if fi.qual in PREFIX_TEST_OK:
                rep.info(f"{rule}: prefix test in {fi.qual} is a listed exception: {PREFIX_TEST_OK[fi.qual]}")
                continue
            n += 1
            closed = arg.endswith("+ '/'") or arg.endswith("/'") or "rstrip('/') + '/'" in arg or arg.endswith(".parent") or "+ '/'" in arg
            rep.check(closed, rule, fi.qual, f"path containment test is segment-aware: {norm(c)[:60]}", fi.loc(c), construct=f"{fi.name}: {norm(c)[:80]}",
                      message=f"`{norm(c)[:100]}` in {fi.qual} tests whether one node path lies below another with a plain string prefix: sibling nodes whose names begin alike (`/exp/run` and `/exp/run2`) are treated as nested, so an operation on one is refused for / applied to the other")
    if n == 0:
        rep.ok(rule, "+".join(sorted(modules)), "no path-in-path prefix tests (nothing to check)", "")
    return n


def r_raw_argument_after_normalisation(P, rep, ctx, rule: str, modules):
    """`name, vers = plugin_args(schema, version)` turns the caller's (schema, version) -- a name, a (name, version) pair, a
    plugin class or reference -- into the normal form.  The version of the request is `vers`; the raw `version` parameter is
    only the explicitly passed one (None when the version came with the class / reference / pair) and must not be consulted
    again after the normalisation."""
    from .sem import F

    n = 0
    for fi in P.functions.values():
        if fi.module.name not in modules or not isinstance(fi.node, (ast.FunctionDef, ast.AsyncFunctionDef)):
            continue
        g = None
        for st in walk_local(fi.node):
            if not (isinstance(st, ast.Assign) and len(st.targets) == 1 and isinstance(st.targets[0], ast.Tuple) and len(st.targets[0].elts) == 2 and isinstance(st.value, ast.Call)):
                continue
            fn = st.value.func
            if not ((isinstance(fn, ast.Name) and fn.id == "plugin_args") or (isinstance(fn, ast.Attribute) and fn.attr == "plugin_args")) or len(st.value.args) < 2:
                continue
            raw = st.value.args[1]
            tgt = st.targets[0].elts[1]
            if not (isinstance(raw, ast.Name) and raw.id in fi.params and isinstance(tgt, ast.Name) and tgt.id != raw.id):
                continue
            g = g or ctx.cfg(fi)
            site = node_of(g, st.value)
            if site is None:
                continue
            n += 1
            after = g.reach([b for b, lab in g.succ[site]])
            bad = []
            for m in after:
                nd = g.nodes[m]
                if nd.kind == "stmt" and isinstance(nd.stmt, ast.Raise):
                    continue  # naming the raw argument in an error message is not consulting it
                for e in nd.exprs:
                    if e is None or m == site:
                        continue
                    for x in ast.walk(e):
                        if isinstance(x, ast.Name) and x.id == raw.id and isinstance(x.ctx, ast.Load):
                            bad.append((m, nd))
            rep.check(not bad, rule, fi.qual, f"after plugin_args the request's version is `{tgt.id}`, not the raw parameter `{raw.id}`", fi.loc(st), construct=f"{fi.name}: raw `{raw.id}` after plugin_args",
                      message=f"{fi.qual} reads the raw parameter `{raw.id}` again after `{norm(st)[:70]}` ({'; '.join(sorted({nd.text()[:50] for m, nd in bad}))[:140]}): when the version comes with the schema class / reference / (name, version) pair the parameter is None, so the request is treated as version-less (e.g. a versioned query also returns incompatible releases)")
    return n
