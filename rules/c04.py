"""C04 — Only coherent, untampered file sets open as a record.

Decided: the validation the property relies on is present, raising, un-bypassable and on every path to a successful
open: R1 the six predicates of _check_ublock (table, DNF-normalised) and that no path leaves the function without
having evaluated them; R2 coverage of _open (base, every middle index with hash, newest, distinct uuids, after the
sort); R3 the manifest subclass keeps the parent's checks and verifies the manifest's raw bytes; R4 magic / parse;
R5 both sides hash the payload behind the user block.  Not decided: the completeness half ("valid sets open") and
the cryptographic half (collision resistance).
"""
from __future__ import annotations

import ast
import re as _re
import itertools
from typing import Dict, FrozenSet, List, Optional, Set, Tuple

from mdsa.astutil import call_attr, kwarg, local_calls, norm
from mdsa.cfg import walk_local
from mdsa.loader import AnalysisError

from mdsa import match as M

from .common import Ctx, local_defs, node_of
from .sem import F

R = "ih5.record"
EXPLANATION = (
    "R1: every `raise` of IH5Record._check_ublock is normalised to the DNF of the tests guarding it (local names expanded); the six "
    "required predicates must each appear, and for each the guarding test must lie on every path from the function entry (resp. from the "
    "true-branch of `prev is not None`) to the normal exit — an early return that skips a check is a violation. R2: in _open every normal "
    "return is preceded by the base test, _check_ublock for index 0 with check_hashsum = (more than one file), for every middle index "
    "range(1, len-1) with predecessor i-1 and hash required, for the newest with predecessor -2, and the distinct-uuid test, all after "
    "the sort by patch_index. R3: IH5MFRecord._check_ublock/_open call super() first on every path and compare the recorded manifest "
    "hash with the hash of the manifest *file bytes*. R4: wrong magic / not three parts -> None -> ValueError; the block is parsed through "
    "the typed pydantic model. R5: commit and check both hash with skip_bytes=USER_BLOCK_SIZE."
)
NOT_DECIDED = "'accepted exactly when': that every valid set opens (completeness) and collision resistance of the digest; behaviour for each single corrupted byte at run time"

H = "hashsum_file(__f, skip_bytes=USER_BLOCK_SIZE)"
# predicate -> literals (each with alternative spellings); the function must not return normally when all hold
REQUIRED = {
    "record uuid differs": [["ub.record_uuid != self.ih5_uuid", "self.ih5_uuid != ub.record_uuid"]],
    "hash required but missing": [["check_hashsum"], ["ub.hdf5_hashsum is None", "not ub.hdf5_hashsum"]],
    "stored hash differs from payload hash": [["ub.hdf5_hashsum is not None", "ub.hdf5_hashsum"], [f"ub.hdf5_hashsum != {H}", f"{H} != ub.hdf5_hashsum"]],
    "patch index not increasing": [["prev is not None", "prev"], ["ub.patch_index <= prev.patch_index", "not ub.patch_index > prev.patch_index"]],
    "patch without prev_patch": [["prev is not None", "prev"], ["ub.prev_patch is None", "not ub.prev_patch"]],
    "prev_patch is not the predecessor": [["prev is not None", "prev"], ["ub.prev_patch != prev.patch_uuid", "prev.patch_uuid != ub.prev_patch"]],
}


def run(P, rep, tier):
    rep.explanation = EXPLANATION
    rep.not_decided = NOT_DECIDED
    rep.assumptions = ["pydantic validates UUID / int(ge=0) / hash-pattern fields of IH5UserBlock on parse_obj", "hashsum_file hashes the bytes after skip_bytes (C19.R1)"]
    ctx = Ctx(P)
    rep.attempt(r1_check_table, P, rep, ctx)
    rep.attempt(r2_open_coverage, P, rep, ctx)
    # a damaged container must make the open fail, not vanish from the set: the directory listing has no content filter
    from . import c03

    rep.attempt(c03.r3b_find_files_filter, P, rep, ctx, "C04.R2")
    # a merged container keeps the predecessor link of the oldest merged container: a merged *baseless* chain stays baseless
    # (and is refused without its base), a merged complete chain is a base (identity rule of C05.R3)
    from . import c05

    rep.attempt(c05.r3_identity, P, rep, ctx)
    rep.attempt(r3_subclass, P, rep, ctx)
    rep.attempt(r4_magic_parse, P, rep, ctx)
    rep.attempt(r5_payload_hash, P, rep, ctx)
    rep.attempt(r6_fresh_container_uuid, P, rep, ctx)
    # the payload hash that is compared is computed by util.hashsums.hashsum: every chunk of the file reaches the digest (C19.R1)
    from . import c19 as _c19

    rep.attempt(_c19.r1_chunk_loop, P, rep, ctx)
    rep.floor("C04.R1", 12)
    rep.floor("C04.R2", 8)
    rep.floor("C04.R3", 6)
    rep.floor("C04.R4", 5)
    # refinement against the pinned tree for every function the rules above looked at (rules/pinned.py)
    import os as _os

    if not _os.environ.get("MDSA_PINNED_GEN"):
        from .pinned import refine

        refine(P, rep, ctx, "C04")


def r1_check_table(P, rep, ctx):
    fi = P.func(f"{R}.IH5Record._check_ublock")
    f = F(ctx, fi)
    if len(f.raises()) < 4 and len([n for n in f.g.nodes if n.kind == "test"]) < 4:
        raise AnalysisError(f"C04.R1: only {len(f.raises())} raise statements recognised in _check_ublock")
    for name, lits in REQUIRED.items():
        r = f.refuses_when(lits)
        shown = [a[0] for a in lits]
        rep.check(r is not None, "C04.R1", fi.qual, f"check present: {shown} is tested ({name})", fi.loc(), construct=f"predicate {name}: {shown}",
                  message=f"_check_ublock has no check that raises exactly when {shown} ({name}): such file sets open as a record")
        if r is None:
            continue
        rep.check(r, "C04.R1", fi.qual, f"check cannot be bypassed: no normal return while {shown} ({name})", fi.loc(), construct=f"bypass of {name}",
                  message=f"_check_ublock can return normally although {shown} holds ('{name}': the check is missing, weakened by an extra condition, or skipped by an earlier return)")
    pvals = [norm(d) for d in fi.node.args.defaults]
    rep.check(pvals[-1:] == ["True"], "C04.R1", fi.qual, "check_hashsum defaults to True", fi.loc(), construct="check_hashsum default", message=f"check_hashsum defaults to {pvals[-1:]}")


def r2_open_coverage(P, rep, ctx):
    fi = P.func(f"{R}.IH5Record._open")
    f = F(ctx, fi)
    g = f.g
    rets = [i for i, v in f.returns() if v is not None]
    if not rets:
        raise AnalysisError("C04.R2: no return in _open")
    rv = norm(g.nodes[rets[0]].stmt.value)

    def must(nodes, what, construct, msg):
        ok = bool(nodes) and all(f.hit_before(r, nodes=nodes) for r in rets)
        rep.check(ok, "C04.R2", fi.qual, what, f.loc(nodes[0]) if nodes else fi.loc(), construct=construct, message=msg, path=f.witness(rets[0], nodes) if not ok else None)
        return ok

    sort = f.calls(f"{rv}.__files__.sort(key=___)") + [i for i, v, b in f.stores(f"{rv}.__files__") if isinstance(v, ast.Call) and norm(v.func) == "sorted" and kwarg(v, "key") is not None]
    keyed = [c for _, c, b in f.call_sites(f"{rv}.__files__.sort(___)") + f.call_sites("sorted(___)") if kwarg(c, "key") is not None and "patch_index" in norm(kwarg(c, "key"))]
    must(sort if keyed else [], "files are sorted by patch index", "sort of __files__", "_open does not sort the files by patch_index before checking them")
    calls = f.call_sites(f"{rv}._check_ublock(___)")
    # one loop over all patches 1..n-1 whose hash requirement depends on the index (instead of loop + separate newest check)
    N = f"len({rv}.__files__)"
    uni = [n for n in g.nodes if n.kind == "for" and isinstance(n.stmt.target, ast.Name) and f.x(n.stmt.iter) == f"range(1, {N})"]
    if uni and len(calls) == 2:
        return _unified_patch_loop(rep, f, fi, g, rv, uni[0], calls, rets, N)
    if len(calls) < 2:
        raise AnalysisError(f"C04.R2: only {len(calls)} _check_ublock calls in _open")
    # (with two direct calls the base / newest checks are judged below and the missing middle check is reported there)

    elem_of: Dict[str, str] = {}  # loop element variable -> the indexed expression it stands for

    def args(c):
        pos = M.positional(c)
        out = [f.x(a) for a in c.args] + [f"{k.arg}={f.x(k.value)}" for k in c.keywords] if pos is None else [f.x(a) for a in pos]
        for ev, ix in elem_of.items():
            out = [_re.sub(rf"\b{_re.escape(ev)}\b", ix, t) for t in out]
        return out

    many = (f"len({rv}.__files__) > 1", f"len({rv}.__files__) >= 2", f"1 < len({rv}.__files__)")
    base = [n for n, c, b in calls if args(c)[:3] == [f"{rv}.__files__[0].filename", f"{rv}._ublock(0)", "None"]]
    must(base, "the first container is checked as base (no predecessor)", "_check_ublock for index 0", "_open does not check the first container with _check_ublock(files[0], ublock(0), None, ...)")
    for n, c, b in calls:
        if n in base:
            a3 = args(c)[3] if len(args(c)) > 3 else None
            rep.check(a3 in many, "C04.R2", fi.qual, "the base must carry a verified hash as soon as there are patches", fi.loc(c), construct="check_hashsum of base", message=f"base container is checked with check_hashsum={a3} (must be 'more than one file')")
    # base must not have a predecessor
    lits = [["not allow_baseless", "not kwargs.pop('allow_baseless', False)"], [f"{rv}._ublock(0).prev_patch is not None", f"{rv}._ublock(0).prev_patch"]]
    r = f.refuses_when(lits)
    rep.check(bool(r), "C04.R2", fi.qual, "a first container with a predecessor link is refused (missing base)", fi.loc(), construct="missing-base test", message="_open does not refuse a first container whose prev_patch is set (missing base)")
    ab = sorted({f.x(c) for _, c, b in f.call_sites("kwargs.pop('allow_baseless', ___)")})
    rep.check(ab == ["kwargs.pop('allow_baseless', False)"], "C04.R2", fi.qual, "baseless sets are only accepted on explicit request (default False)", fi.loc(), construct=f"allow_baseless = {ab}", message=f"allow_baseless is {ab}")
    # middle containers
    loops = [n for n in g.nodes if n.kind == "for" and f.x(n.stmt.iter) == f"range(1, len({rv}.__files__) - 1)"]
    lv = None
    if loops:
        lv = norm(loops[0].stmt.target)
    else:
        # the same index range as `for i, f in enumerate(files[1:-1], start=1)`: f is files[i]
        for n in g.nodes:
            if n.kind == "for" and isinstance(n.stmt.target, ast.Tuple) and len(n.stmt.target.elts) == 2 and all(isinstance(x, ast.Name) for x in n.stmt.target.elts):
                it = f.x(n.stmt.iter)
                if it in (f"enumerate({rv}.__files__[1:-1], start=1)", f"enumerate({rv}.__files__[1:-1], 1)"):
                    loops = [n]
                    lv = n.stmt.target.elts[0].id
                    elem_of[n.stmt.target.elts[1].id] = f"{rv}.__files__[{lv}]"
    okm = False
    if loops:
        body_nodes = set()
        for st in loops[0].stmt.body:
            body_nodes |= {id(x) for x in ast.walk(st)}
        for n, c, b in calls:
            a = args(c)
            in_loop = g.nodes[n].stmt is not None and id(g.nodes[n].stmt) in body_nodes
            if in_loop and a[:4] == [f"{rv}.__files__[{lv}].filename", f"{rv}._ublock({lv})", f"{rv}._ublock({lv} - 1)", "True"]:
                okm = True
        must([loops[0].idx], "every middle container is visited", "middle loop", "the loop over the middle containers is not on every path")
    rep.check(okm, "C04.R2", fi.qual, "every middle container i in [1, n-2] is checked against its predecessor i-1 with its hash required", fi.loc(loops[0].stmt) if loops else fi.loc(), construct="middle containers check",
              message="_open does not check every middle container with _check_ublock(files[i], ublock(i), ublock(i-1), True) for i in range(1, len-1): a gap, fork or tampered middle patch is accepted")
    last = [n for n, c, b in calls if args(c)[:4] == [f"{rv}.__files__[-1].filename", f"{rv}._ublock(-1)", f"{rv}._ublock(-2)", "False"]]
    patched = f.tests(*many)
    ok = bool(last) and bool(patched) and all(f.hit_before(r, nodes=last, edges=f.neg(patched)) for r in rets)
    rep.check(ok, "C04.R2", fi.qual, "the newest container of a patched set is checked against its predecessor (hash optional, but verified when present)", fi.loc(), construct="newest container check", message="_open does not check the newest patch against its predecessor -2")
    dup = [[f"len({{{rv}._ublock(__f).patch_uuid for __f in {rv}.__files__}}) != len({rv}.__files__)", f"len({rv}.__files__) != len({{{rv}._ublock(__f).patch_uuid for __f in {rv}.__files__}})"]]
    r = f.refuses_when(dup)
    if not r:
        # the same test with the projection spelled differently: len(<set of patch uuids over all files>) != len(<one
        # element per file>), e.g. uuids = [..for f in files]; len(set(uuids)) != len(uuids)
        FILES = f"{rv}.__files__"

        def coll(e):
            """-> ('set' | 'seq', element text with the loop variable as V, iterated text) or None"""
            kind = None
            if isinstance(e, ast.Call) and isinstance(e.func, ast.Name) and e.func.id in ("set", "frozenset") and len(e.args) == 1:
                kind, e = "set", e.args[0]
            if isinstance(e, ast.Call) and isinstance(e.func, ast.Name) and e.func.id in ("list", "tuple", "sorted") and len(e.args) == 1:
                e = e.args[0]
            if isinstance(e, (ast.SetComp, ast.ListComp, ast.GeneratorExp)):
                if len(e.generators) != 1 or e.generators[0].ifs or not isinstance(e.generators[0].target, ast.Name):
                    return None
                kind = kind or ("set" if isinstance(e, ast.SetComp) else "seq")
                v_ = e.generators[0].target.id
                return kind, _re.sub(rf"\b{_re.escape(v_)}\b", "V", norm(e.elt)), norm(e.generators[0].iter)
            if norm(e) == FILES:
                return kind or "seq", "V", FILES
            return None

        for t in g.nodes:
            if t.kind != "test":
                continue
            x = f.xe_at(t.idx, t.exprs[0])
            m = M.match("len(__a) == len(__b)", x)
            if m is None:
                continue
            ca, cb = coll(m["__a"]), coll(m["__b"])
            if ca is None or cb is None or {ca[0], cb[0]} != {"set", "seq"}:
                continue
            st_, sq_ = (ca, cb) if ca[0] == "set" else (cb, ca)
            if st_[1] == f"{rv}._ublock(V).patch_uuid" and st_[2] == FILES and sq_[2] == FILES:
                # polarity-normalised atom is `==`: the function must not return normally on its false edge
                r = f.refuses([(t.idx, "F")])
    rep.check(bool(r), "C04.R2", fi.qual, "patch uuids must be pairwise distinct (taken over all containers; a duplicate raises)", fi.loc(), construct="distinct uuid test", message="_open does not refuse file sets with a duplicated patch_uuid")
    lb = [v for i, v, b in f.stores(f"{rv}._ublocks")]
    ok = bool(lb) and all(isinstance(v, ast.DictComp) and f.x(v.generators[0].iter) == fi.params[1] and not v.generators[0].ifs and M.match("IH5UserBlock.load(__p)", v.value) is not None for v in lb)
    rep.check(ok, "C04.R2", fi.qual, "every given file's user block is loaded (and parsed)", fi.loc(), construct="user block loading", message="_open does not load the user block of every given path")
    opened = [(i, v) for i, v, b in f.stores(f"{rv}.__files__") if not (isinstance(v, ast.Call) and norm(v.func) == "sorted")]
    ok = bool(opened) and all(isinstance(v, ast.ListComp) and f.x(v.generators[0].iter) == fi.params[1] and not v.generators[0].ifs and "h5py.File(" in norm(v.elt) for i, v in opened)
    if not ok:
        # the same as a loop: `for p in paths: ret.__files__.append(h5py.File(p, "r"))` over all given paths, unconditionally
        # (other stores of the list may only empty it: clean-up on the error path)
        loops = [n for n in f.g.nodes if n.kind == "for" and f.x(n.stmt.iter) == fi.params[1] and isinstance(n.stmt.target, ast.Name) and len(n.stmt.body) == 1
                 and isinstance(n.stmt.body[0], ast.Expr) and M.match(f"{rv}.__files__.append(h5py.File({n.stmt.target.id}, __m))", n.stmt.body[0].value) is not None]
        ok = len(loops) == 1 and all(isinstance(v, ast.List) and not v.elts for i, v in opened)
    rep.check(ok, "C04.R2", fi.qual, "every given file is opened and takes part in the checks (one handle per element of `paths`)", f.loc(opened[0][0]) if opened else fi.loc(), construct="file list = one handle per given path",
              message="_open does not open one container per given path (e.g. files are keyed by patch_index first): a duplicated / forked container is silently dropped instead of making the open fail")
    emp = f.tests(f"not {fi.params[1]}", f"len({fi.params[1]}) == 0")
    rep.check(f.refuses(emp), "C04.R2", fi.qual, "an empty file list is refused", fi.loc(), construct="empty list", message="_open accepts an empty list of containers")


def _unified_patch_loop(rep, f, fi, g, rv, loop, calls, rets, N):
    """_open checks base + `for i in range(1, n): _check_ublock(files[i], ub(i), ub(i-1), H(i))`: H must demand the hash
    exactly for the patches below the newest one."""
    lv = loop.stmt.target.id
    body_nodes = {id(x) for st in loop.stmt.body for x in ast.walk(st)}
    base = [n for n, c, b in calls if [f.x(a) for a in (M.positional(c) or c.args)][:3] == [f"{rv}.__files__[0].filename", f"{rv}._ublock(0)", "None"]]
    inl = [(n, c) for n, c, b in calls if g.nodes[n].stmt is not None and id(g.nodes[n].stmt) in body_nodes]
    ok_shape = bool(base) and len(inl) == 1 and all(f.hit_before(r, nodes=base) for r in rets) and all(f.hit_before(r, nodes=[loop.idx]) for r in rets)
    rep.check(ok_shape, "C04.R2", fi.qual, "base container and every patch are checked on every path", fi.loc(), construct="_check_ublock for index 0", message="_open does not check the first container / every patch with _check_ublock")
    if not inl:
        return
    n, c = inl[0]
    a = [f.x_at(n, x) for x in (M.positional(c) or c.args)]
    ok_args = a[:3] == [f"{rv}.__files__[{lv}].filename", f"{rv}._ublock({lv})", f"{rv}._ublock({lv} - 1)"]
    rep.check(ok_args and f.hit_before(loop.idx, nodes=[n], src_edge=(loop.idx, "iter")), "C04.R2", fi.qual, "every patch i is checked against its predecessor i-1", fi.loc(c), construct="middle containers check",
              message="_open does not check every patch with _check_ublock(files[i], ublock(i), ublock(i-1), ..)")
    h = a[3] if len(a) > 3 else "True"
    below_newest = {f"{lv} < {N} - 1", f"{lv} != {N} - 1", f"{lv} + 1 < {N}", f"{lv} <= {N} - 2", f"{lv} + 1 != {N}", f"{N} - 1 > {lv}", f"{N} > {lv} + 1", f"{N} - 1 != {lv}"}
    rep.check(h in below_newest, "C04.R2", fi.qual, "the hash is required for every patch below the newest one and optional (but verified when present) for the newest", fi.loc(c), construct="newest container check",
              message=f"_open checks patch i with check_hashsum=`{h}`: this does not mean 'every patch except the newest' — " + ("the newest (possibly uncommitted) patch is required to carry a hash, so an interrupted or deliberately uncommitted patch can never be reopened" if h in ("True", f"{lv} < {N}", f"{lv} <= {N} - 1") else "middle patches are accepted without a verified hash"))


def r3_subclass(P, rep, ctx):
    MF = "ih5.manifest.IH5MFRecord"
    fi = P.func(f"{MF}._check_ublock")
    g = ctx.cfg(fi)
    sup = [n.idx for n in g.nodes if any(call_attr(c) == "_check_ublock" and norm(c.func.value) == "super()" and [norm(a) for a in c.args] == ["filename", "ub", "prev", "check_hashsum"] for c in g.calls(n.idx))]
    rep.check(bool(sup) and g.every_path_passes(sup, g.exit) and all(g.nodes[s].idx == min(n.idx for n in g.nodes if n.kind == "stmt" and not isinstance(n.stmt, ast.Expr) or n.idx in sup) for s in sup[:1]), "C04.R3", fi.qual, "the override runs the parent's checks first, with all arguments, on every path", fi.loc(), construct="super()._check_ublock",
              message="IH5MFRecord._check_ublock does not delegate to super()._check_ublock(filename, ub, prev, check_hashsum) on every path")
    fi = P.func(f"{MF}._open")
    g = ctx.cfg(fi)
    sup = [n.idx for n in g.nodes if any(call_attr(c) == "_open" and norm(c.func.value) == "super()" for c in g.calls(n.idx))]
    rets = [n.idx for n in g.nodes if isinstance(n.stmt, ast.Return) and n.stmt.value is not None]
    rep.check(bool(sup) and all(g.every_path_passes(sup, r) for r in rets), "C04.R3", fi.qual, "the override opens through the parent's _open (all chain checks)", fi.loc(), construct="super()._open", message="IH5MFRecord._open does not go through super()._open on every path")
    f = F(ctx, fi)
    rv = norm(g.nodes[rets[0]].stmt.value) if rets else "ret"
    link = f"IH5UBExtManifest.get({rv}._ublock(-1))"
    linked = [f"{link} is not None", link]
    hashed = f.call_sites("hashsum_file(__m)")
    mvars = sorted({norm(b["__m"]) for _, c, b in hashed})
    rep.check(len(mvars) == 1 and all(not c.keywords for _, c, b in hashed), "C04.R3", fi.qual, "the manifest is verified by the hash of its raw file bytes", fi.loc(), construct="manifest hash source",
              message=f"the manifest hash is not computed from the manifest file's bytes (hashsum_file over {mvars or 'nothing'}): edits that survive parse + re-serialise (whitespace, key order, extra keys, case of hex digits) are accepted")
    mv = mvars[0] if mvars else "manifest_file"
    miss = f.refuses_when([linked, [f"not {mv}.is_file()", f"not {mv}.exists()"]])
    differ = f.refuses_when([linked, [f"{link}.manifest_hashsum != hashsum_file({mv})", f"hashsum_file({mv}) != {link}.manifest_hashsum"]])
    rep.check(bool(miss) and bool(differ), "C04.R3", fi.qual, "when the container names a manifest: missing file or differing hash raises, on every path", fi.loc(), construct="manifest existence + hash check", message="IH5MFRecord._open can succeed although the linked manifest is missing or its hash differs")
    defs = local_defs(fi)
    mfd = [f.x(v) for k, v in defs.get(mv, []) if v is not None]
    rep.check(sorted(mfd) == sorted(["kwargs.pop('manifest_file', None)", f"cls._manifest_filepath({rv}._files[-1].filename)"]), "C04.R3", fi.qual, "the manifest checked is the one given or the one next to the *newest* container", fi.loc(), construct=f"manifest_file = {mfd}",
              message=f"the manifest file is inferred as {mfd}: not the sidecar of the newest container")
    inferred = [i for i, v, b in f.stores(mv) if "_manifest_filepath" in norm(v)]
    not_given = f.tests(f"{mv} is None", f"not {mv}")
    rep.check(bool(inferred) and bool(not_given) and f.all_hit_before(inferred, edges=not_given), "C04.R3", fi.qual, "an explicitly given manifest file is never replaced by the inferred one", fi.loc(), construct="given manifest wins", message="the inferred sidecar replaces an explicitly given manifest file")
    differs_true = f.tests(f"{link}.manifest_hashsum != hashsum_file({mv})", f"hashsum_file({mv}) != {link}.manifest_hashsum")
    load_after = f.calls(f"IH5Manifest.parse_file({mv})")
    loads_any = f.calls("IH5Manifest.parse_file(___)", "IH5Manifest.parse_raw(___)", "IH5Manifest.parse_obj(___)")
    rep.check(bool(load_after) and set(loads_any) <= set(load_after) and bool(differs_true) and f.all_hit_before(load_after, edges=f.neg(differs_true)), "C04.R3", fi.qual, "the manifest is parsed only after its hash was verified (and it is the verified file that is parsed)", fi.loc(), construct="parse after verify", message="the manifest is parsed before its hash is verified")


def r6_fresh_container_uuid(P, rep, ctx):
    """The chain checks tell containers apart by `patch_uuid` (successor link `prev_patch`, the distinct-uuid test): a forked or
    foreign container is only recognised if every container ever created gets an id of its own.  The id is freshly drawn
    (uuid1 / uuid4), never computed from data that two containers can share (record uuid, index, name, content)."""
    fi = P.func("ih5.record.IH5UserBlock.create")
    f = F(ctx, fi)
    n = 0
    for c in local_calls(fi.node):
        if not (isinstance(c.func, ast.Name) and c.func.id == "cls"):
            continue
        for k in c.keywords:
            if k.arg == "patch_uuid":
                n += 1
                site = node_of(f.g, c)
                v = f.xe_at(site, k.value) if site is not None else k.value
                ok = isinstance(v, ast.Call) and norm(v.func) in ("uuid1", "uuid4", "uuid.uuid1", "uuid.uuid4") and not v.args and not v.keywords
                rep.check(ok, "C04.R6", fi.qual, "every new container gets a freshly drawn patch_uuid", fi.loc(c), construct=f"patch_uuid = {norm(v)[:60]}",
                          message=f"IH5UserBlock.create sets patch_uuid = `{norm(v)[:80]}`: an id computed from shared data is the same for the containers of a fork (two different patches written on top of the same state), so a file set mixing both branches passes the predecessor-link and distinct-uuid checks")
    rep.check(n >= 1, "C04.R6", fi.qual, "patch_uuid assignment found", fi.loc(), construct="patch_uuid in create", message="IH5UserBlock.create no longer passes patch_uuid to the constructor: rule has nothing to check")


def r4_magic_parse(P, rep, ctx):
    UB = f"{R}.IH5UserBlock"
    fi = P.func(f"{UB}._read_head_raw")
    g = ctx.cfg(fi)
    f = F(ctx, fi)
    real = [i for i, v in f.returns() if v is not None and not (isinstance(v, ast.Constant) and v.value is None)]
    parts = f.tests("len(__d) != 3")
    magic = f.tests("__d[0] != FORMAT_MAGIC_STR", "FORMAT_MAGIC_STR != __d[0]")
    ok = bool(real) and bool(parts) and bool(magic) and not f.reaches(parts, real) and not f.reaches(magic, real) and f.all_hit_before(real, nodes=f.test_nodes(parts)) and f.all_hit_before(real, nodes=f.test_nodes(magic))
    rep.check(ok, "C04.R4", fi.qual, "wrong magic or not exactly three parts yields None", fi.loc(), construct="head test", message="_read_head_raw accepts a block with wrong magic / wrong number of parts")
    sp = [f.x(c) for _, c, b in f.call_sites("__p.decode('utf-8').split('\\n')")]
    rep.check(bool(sp), "C04.R4", fi.qual, "head is split on newlines", fi.loc(), construct="head split", message="_read_head_raw does not split the head on '\\n'")
    fi = P.func(f"{UB}.load")
    f = F(ctx, fi)
    g = f.g
    nohead = f.tests("__h is None")
    ok = f.refuses(nohead) and f.hit_before(g.exit, nodes=f.test_nodes(nohead))
    rep.check(ok, "C04.R4", fi.qual, "a file without a valid IH5 head raises ValueError", fi.loc(), construct="invalid head raises", message="IH5UserBlock.load does not raise for a file without valid head")
    po = f.call_sites("IH5UserBlock.parse_obj(json.loads(__h[1]))") + f.call_sites("cls.parse_obj(json.loads(__h[1]))") + f.call_sites("IH5UserBlock.parse_raw(__h[1])") + f.call_sites("cls.parse_raw(__h[1])")
    rep.check(bool(po) and f.hit_before(g.exit, nodes=[i for i, c, b in po]), "C04.R4", fi.qual, "the block is parsed through the typed model", fi.loc(), construct="typed parse", message="the user block is not validated through IH5UserBlock.parse_obj")
    from .common import require_total

    for q in (f"{UB}.load", f"{UB}._read_head_raw", f"{R}.IH5Record._open", "ih5.manifest.IH5MFRecord._open", f"{R}.hashsum_file"):
        require_total(rep, ctx, "C04.R4", P.func(q))
    c = P.cls(UB)
    ann = {k: norm(v) for k, v in c.annots.items()}
    want = {"record_uuid": "UUID", "patch_index": "Annotated[int, Field(ge=0)]", "patch_uuid": "UUID", "prev_patch": "Optional[UUID]", "hdf5_hashsum": "Optional[QualHashsumStr]"}
    rep.check(all(ann.get(k) == v for k, v in want.items()), "C04.R4", c.qual, "chain fields are typed (uuid / non-negative int / qualified hash)", c.module.relpath, construct="user block field types", message=f"user block field types changed: { {k: ann.get(k) for k in want} }")


def r5_payload_hash(P, rep, ctx):
    n = 0
    for q in (f"{R}.IH5Record._check_ublock", f"{R}.IH5Record.commit_patch", f"{R}.IH5Record.merge_files"):
        fi = P.func(q)
        for c in local_calls(fi.node):
            if call_attr(c) == "hashsum_file":
                n += 1
                sb = kwarg(c, "skip_bytes") or (c.args[1] if len(c.args) > 1 else None)
                rep.check(sb is not None and norm(sb) == "USER_BLOCK_SIZE", "C04.R5", fi.qual, "payload hash skips exactly the user block", fi.loc(c), construct=norm(c), message=f"{q} hashes with {norm(c)}: writer and checker disagree on the hashed region")
    if n < 3:
        raise AnalysisError("C04.R5: payload hash call sites not found")
    for q in (f"{R}.hashsum_file", "util.hashsums.qualified_hashsum", "util.hashsums.hashsum"):
        f = P.func(q)
        decos = [norm(d.func) if isinstance(d, ast.Call) else norm(d) for d in f.node.decorator_list]
        memo = [d for d in decos if d.split(".")[-1] in ("lru_cache", "cache", "cached_property", "memoize")]
        statuse = [x for x in walk_local(f.node) if (isinstance(x, ast.Attribute) and x.attr.startswith("st_")) or (isinstance(x, ast.Call) and call_attr(x) in ("stat", "lstat", "getmtime", "getsize"))]
        cache_like = [x for x in walk_local(f.node) if isinstance(x, ast.Name) and "cache" in x.id.lower()]
        rep.check(not memo and not statuse and not cache_like, "C04.R5", f.qual, "integrity hash is recomputed from the file's bytes on every check (no memoisation / stat shortcut)", f.loc(), construct=f"purity of {q.rsplit('.', 1)[-1]}",
                  message=f"{q} does not recompute the hash from the current bytes (memoised / keyed on stat values): an in-place tampered payload with restored size+mtime passes the integrity check")
    ubs = P.const(R, "USER_BLOCK_SIZE")
    nc = P.func(f"{R}.IH5Record._new_container")
    rep.check(ubs == 1024 and "userblock_size=USER_BLOCK_SIZE" in norm(nc.node), "C04.R5", nc.qual, "containers reserve exactly USER_BLOCK_SIZE bytes", nc.loc(), construct="userblock_size", message="container user block size differs from USER_BLOCK_SIZE")
