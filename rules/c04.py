"""C04 — Only coherent, untampered file sets open as a record.

Decided: the validation the property relies on is present, raising, un-bypassable and on every path to a successful
open: R1 the six predicates of _check_ublock (table, DNF-normalised) and that no path leaves the function without
having evaluated them; R2 coverage of _open (base, every middle index with hash, newest, distinct uuids, after the
sort); R3 the manifest subclass keeps the parent's checks and verifies the manifest's raw bytes; R4 magic / parse;
R5 both sides hash the payload behind the user block.  Not decided: the completeness half ("valid sets open") and
the cryptographic half (collision resistance).
"""
from __future__ import annotations

import ast
import itertools
from typing import Dict, FrozenSet, List, Optional, Set, Tuple

from mdsa.astutil import call_attr, kwarg, local_calls, norm
from mdsa.cfg import walk_local
from mdsa.loader import AnalysisError

from .common import Ctx, local_defs, node_of

R = "ih5.record"
EXPLANATION = (
    "R1: every `raise` of IH5Record._check_ublock is normalised to the DNF of the tests guarding it (local names expanded); the six "
    "required predicates must each appear, and for each the guarding test must lie on every path from the function entry (resp. from the "
    "true-branch of `prev is not None`) to the normal exit — an early return that skips a check is a violation. R2: in _open every normal "
    "return is preceded by the base test, _check_ublock for index 0 with check_hashsum = (more than one file), for every middle index "
    "range(1, len-1) with predecessor i-1 and hash required, for the newest with predecessor -2, and the distinct-uuid test, all after "
    "the sort by patch_index. R3: IH5MFRecord._check_ublock/_open call super() first on every path and compare the recorded manifest "
    "hash with the hash of the manifest *file bytes*. R4: wrong magic / not three parts -> None -> ValueError; the block is parsed through "
    "the typed pydantic model. R5: commit and check both hash with skip_bytes=USER_BLOCK_SIZE."
)
NOT_DECIDED = "'accepted exactly when': that every valid set opens (completeness) and collision resistance of the digest; behaviour for each single corrupted byte at run time"

REQUIRED = {
    "record uuid differs": {"ub.record_uuid != self.ih5_uuid"},
    "hash required but missing": {"check_hashsum", "ub.hdf5_hashsum is None"},
    "stored hash differs from payload hash": {"ub.hdf5_hashsum is not None", "ub.hdf5_hashsum != hashsum_file(filename, skip_bytes=USER_BLOCK_SIZE)"},
    "patch index not increasing": {"prev is not None", "ub.patch_index <= prev.patch_index"},
    "patch without prev_patch": {"prev is not None", "ub.prev_patch is None"},
    "prev_patch is not the predecessor": {"prev is not None", "ub.prev_patch != prev.patch_uuid"},
}


def run(P, rep, tier):
    rep.explanation = EXPLANATION
    rep.not_decided = NOT_DECIDED
    rep.assumptions = ["pydantic validates UUID / int(ge=0) / hash-pattern fields of IH5UserBlock on parse_obj", "hashsum_file hashes the bytes after skip_bytes (C19.R1)"]
    ctx = Ctx(P)
    rep.attempt(r1_check_table, P, rep, ctx)
    rep.attempt(r2_open_coverage, P, rep, ctx)
    rep.attempt(r3_subclass, P, rep, ctx)
    rep.attempt(r4_magic_parse, P, rep, ctx)
    rep.attempt(r5_payload_hash, P, rep, ctx)
    rep.floor("C04.R1", 12)
    rep.floor("C04.R2", 8)
    rep.floor("C04.R3", 6)
    rep.floor("C04.R4", 5)


def dnf(e: ast.AST, neg: bool, subst: Dict[str, str]) -> List[FrozenSet[str]]:
    if isinstance(e, ast.UnaryOp) and isinstance(e.op, ast.Not):
        return dnf(e.operand, not neg, subst)
    if isinstance(e, ast.BoolOp):
        is_and = isinstance(e.op, ast.And) != neg
        parts = [dnf(v, neg, subst) for v in e.values]
        if is_and:
            return [frozenset().union(*combo) for combo in itertools.product(*parts)]
        return [c for p in parts for c in p]
    t = norm(e)
    if neg:
        FL = {" is not ": " is ", " is ": " is not ", " != ": " == ", " == ": " != ", " <= ": " > ", " > ": " <= ", " < ": " >= ", " >= ": " < "}
        for a, b in FL.items():
            if a in t:
                t = t.replace(a, b, 1)
                break
        else:
            t = f"not {t}"
    for k, v in subst.items():
        t = t.replace(k, v) if t.endswith(k) or f"{k} " in t or f" {k}" in t else t
    return [frozenset([t])]


def raise_predicates(fi) -> List[Tuple[FrozenSet[str], ast.Raise, List[ast.If]]]:
    """For every raise: DNF conjunct sets of the enclosing if-tests (with polarity), names of single-assignment locals expanded."""
    defs = local_defs(fi)
    subst = {}
    for name, ds in defs.items():
        vals = [v for k, v in ds if v is not None and k == "assign"]
        if len(vals) == 1 and isinstance(vals[0], ast.Call):
            subst[name] = norm(vals[0])
    out = []

    def visit(body, conds):
        for st in body:
            if isinstance(st, ast.Raise):
                parts = [dnf(t, not pos, subst) for t, pos in conds] or [[frozenset()]]
                for combo in itertools.product(*parts):
                    out.append((frozenset().union(*combo), st, [t for t, _ in conds]))
            elif isinstance(st, ast.If):
                visit(st.body, conds + [(st.test, True)])
                visit(st.orelse, conds + [(st.test, False)])
            elif isinstance(st, (ast.With, ast.For, ast.While, ast.Try)):
                visit(st.body, conds)

    visit(fi.node.body, [])
    return out


def r1_check_table(P, rep, ctx):
    fi = P.func(f"{R}.IH5Record._check_ublock")
    g = ctx.cfg(fi)
    preds = raise_predicates(fi)
    if len(preds) < 4:
        raise AnalysisError(f"C04.R1: only {len(preds)} raising predicates recognised in _check_ublock")
    for name, want in REQUIRED.items():
        hits = [(p, r, tests) for p, r, tests in preds if want <= p and len(p - want) == 0]
        weaker = [(p, r, tests) for p, r, tests in preds if want <= p and len(p - want) > 0]
        rep.check(bool(hits), "C04.R1", fi.qual, f"check present: raises iff {sorted(want)} ({name})", fi.loc(hits[0][1]) if hits else fi.loc(), construct=f"predicate {name}: {sorted(want)}",
                  message=f"_check_ublock has no check that raises exactly when {sorted(want)} ({name})" + (f"; closest is additionally conditioned on {sorted(weaker[0][0] - want)}" if weaker else "") + ": such file sets open as a record")
        if not hits:
            continue
        # un-bypassable: the guarding tests lie on every path to the normal exit (nested ones: from the T edge of the outer test)
        p, r, tests = hits[0]
        tnodes = [node_of(g, t) for t in tests]
        if None in tnodes:
            raise AnalysisError("C04.R1: test node not found in CFG")
        ok = g.every_path_passes([tnodes[0]], g.exit)
        for outer, inner in zip(tnodes, tnodes[1:]):
            ok = ok and g.every_path_passes([inner], g.exit, src=outer, src_label="T")
        # the raise itself must leave abnormally
        rn = node_of(g, r)
        rep.check(ok, "C04.R1", fi.qual, f"check cannot be bypassed: its test lies on every path to a normal return ({name})", fi.loc(r), construct=f"bypass of {name}",
                  message=f"_check_ublock can return normally without evaluating the check '{name}' (an earlier return skips it)", path=g.path_text(g.find_path(g.exit, avoid=[tnodes[0]])))
    pvals = [norm(d) for d in fi.node.args.defaults]
    rep.check(pvals[-1:] == ["True"], "C04.R1", fi.qual, "check_hashsum defaults to True", fi.loc(), construct="check_hashsum default", message=f"check_hashsum defaults to {pvals[-1:]}")


def r2_open_coverage(P, rep, ctx):
    fi = P.func(f"{R}.IH5Record._open")
    g = ctx.cfg(fi)
    rets = [n.idx for n in g.nodes if isinstance(n.stmt, ast.Return) and n.stmt.value is not None]
    if not rets:
        raise AnalysisError("C04.R2: no return in _open")
    rv = norm(g.nodes[rets[0]].stmt.value)

    def must(nodes, what, construct, msg):
        ok = bool(nodes) and all(g.every_path_passes(nodes, r) for r in rets)
        rep.check(ok, "C04.R2", fi.qual, what, fi.loc(g.nodes[nodes[0]].stmt) if nodes else fi.loc(), construct=construct, message=msg, path=g.path_text(g.find_path(rets[0], avoid=nodes)) if not ok else None)
        return ok

    sort = [n.idx for n in g.nodes if any(call_attr(c) == "sort" and "__files__" in norm(c.func) for c in g.calls(n.idx)) or (n.kind == "stmt" and isinstance(n.stmt, ast.Assign) and "sorted(" in norm(n.stmt.value) and "__files__" in norm(n.stmt.targets[0]))]
    must(sort, "files are sorted by patch index", "sort of __files__", "_open does not sort the files by patch_index before checking them")
    defs = local_defs(fi)
    hp = [norm(v) for k, v in defs.get("has_patches", []) if v is not None]
    calls = [(n.idx, c) for n in g.nodes for c in g.calls(n.idx) if call_attr(c) == "_check_ublock"]
    if len(calls) < 3:
        raise AnalysisError(f"C04.R2: only {len(calls)} _check_ublock calls in _open")

    def args(c):
        return [norm(a) for a in c.args] + [f"{k.arg}={norm(k.value)}" for k in c.keywords]

    base = [n for n, c in calls if args(c)[:3] == [f"{rv}.__files__[0].filename", f"{rv}._ublock(0)", "None"]]
    must(base, "the first container is checked as base (no predecessor)", "_check_ublock for index 0", "_open does not check the first container with _check_ublock(files[0], ublock(0), None, ...)")
    for n, c in calls:
        if n in base:
            a3 = args(c)[3] if len(args(c)) > 3 else None
            ok = a3 in ("has_patches", f"len({rv}.__files__) > 1") and (a3 != "has_patches" or hp == [f"len({rv}.__files__) > 1"])
            rep.check(ok, "C04.R2", fi.qual, "the base must carry a verified hash as soon as there are patches", fi.loc(c), construct=f"check_hashsum of base = {a3}", message=f"base container is checked with check_hashsum={a3} (must be 'more than one file')")
    # base must not have a predecessor
    tests = [t.idx for t in g.nodes if t.kind == "test" and norm(t.exprs[0]) == f"not allow_baseless and {rv}._ublock(0).prev_patch is not None"]
    ok = must(tests, "a first container with a predecessor link is refused (missing base)", "missing-base test", "_open does not refuse a first container whose prev_patch is set (missing base)")
    if ok:
        rep.check(all(g.exit not in g.reach([b for b, l in g.succ[t] if l == "T"]) for t in tests), "C04.R2", fi.qual, "missing base raises", fi.loc(), construct="missing-base raise", message="the missing-base test does not raise")
    ab = [norm(v) for k, v in defs.get("allow_baseless", []) if v is not None]
    rep.check(ab == ["kwargs.pop('allow_baseless', False)"], "C04.R2", fi.qual, "baseless sets are only accepted on explicit request (default False)", fi.loc(), construct=f"allow_baseless = {ab}", message=f"allow_baseless is {ab}")
    # middle containers
    loops = [n for n in g.nodes if n.kind == "for" and norm(n.stmt.iter) == f"range(1, len({rv}.__files__) - 1)"]
    okm = False
    if loops:
        lv = norm(loops[0].stmt.target)
        fdefs = {norm(t): norm(st.value) for st in loops[0].stmt.body if isinstance(st, ast.Assign) for t in st.targets}
        for n, c in calls:
            a = args(c)
            a0 = fdefs.get(a[0], a[0])
            if any(c in ast.walk(b) for b in loops[0].stmt.body) and a0 == f"{rv}.__files__[{lv}].filename" and a[1:4] == [f"{rv}._ublock({lv})", f"{rv}._ublock({lv} - 1)", "True"]:
                okm = True
        must([loops[0].idx], "every middle container is visited", "middle loop", "the loop over the middle containers is not on every path")
    rep.check(okm, "C04.R2", fi.qual, "every middle container i in [1, n-2] is checked against its predecessor i-1 with its hash required", fi.loc(loops[0].stmt) if loops else fi.loc(), construct="middle containers check",
              message="_open does not check every middle container with _check_ublock(files[i], ublock(i), ublock(i-1), True) for i in range(1, len-1): a gap, fork or tampered middle patch is accepted")
    last = [n for n, c in calls if args(c)[:4] == [f"{rv}.__files__[-1].filename", f"{rv}._ublock(-1)", f"{rv}._ublock(-2)", "False"]]
    ht = [t.idx for t in g.nodes if t.kind == "test" and norm(t.exprs[0]) in ("has_patches", f"len({rv}.__files__) > 1")]
    ok = bool(last) and bool(ht) and all(g.every_path_passes(last, r, src=t, src_label="T") for t in ht for r in rets) and must(ht, "patched sets are recognised", "has_patches test", "has_patches test missing")
    rep.check(ok, "C04.R2", fi.qual, "the newest container of a patched set is checked against its predecessor (hash optional, but verified when present)", fi.loc(), construct="newest container check", message="_open does not check the newest patch against its predecessor -2")
    ut = [t.idx for t in g.nodes if t.kind == "test" and norm(t.exprs[0]) == f"len(cn_uuids) != len({rv}.__files__)"]
    ok = must(ut, "patch uuids must be pairwise distinct", "distinct uuid test", "_open does not refuse file sets with a duplicated patch_uuid")
    cu = [norm(v) for k, v in defs.get("cn_uuids", []) if v is not None]
    rep.check(cu == [f"{{{rv}._ublock(f).patch_uuid for f in {rv}.__files__}}"] and all(g.exit not in g.reach([b for b, l in g.succ[t] if l == "T"]) for t in ut), "C04.R2", fi.qual, "the uuid set is taken over all containers and a duplicate raises", fi.loc(), construct=f"cn_uuids = {cu}", message=f"distinct-uuid check is computed from {cu} / does not raise")
    lb = [norm(v) for k, v in defs.get(f"{rv}._ublocks", []) if v is not None]
    rep.check(f"{rv}._ublocks = {{Path(path): IH5UserBlock.load(path) for path in paths}}" in norm(fi.node), "C04.R2", fi.qual, "every given file's user block is loaded (and parsed)", fi.loc(), construct="user block loading", message="_open does not load the user block of every given path")
    opened = [n for n in g.nodes if n.kind == "stmt" and isinstance(n.stmt, ast.Assign) and any(norm(t) == f"{rv}.__files__" for t in n.stmt.targets)]
    ok = bool(opened) and all(isinstance(n.stmt.value, ast.ListComp) and norm(n.stmt.value.generators[0].iter) == "paths" and not n.stmt.value.generators[0].ifs and "h5py.File(" in norm(n.stmt.value.elt) for n in opened)
    rep.check(ok, "C04.R2", fi.qual, "every given file is opened and takes part in the checks (one handle per element of `paths`)", fi.loc(opened[0].stmt) if opened else fi.loc(), construct="file list = one handle per given path",
              message="_open does not open one container per given path (e.g. files are keyed by patch_index first): a duplicated / forked container is silently dropped instead of making the open fail")
    emp = [t for t in g.nodes if t.kind == "test" and norm(t.exprs[0]) == "not paths"]
    rep.check(bool(emp) and all(g.exit not in g.reach([b for b, l in g.succ[t.idx] if l == "T"]) for t in emp), "C04.R2", fi.qual, "an empty file list is refused", fi.loc(), construct="empty list", message="_open accepts an empty list of containers")


def r3_subclass(P, rep, ctx):
    MF = "ih5.manifest.IH5MFRecord"
    fi = P.func(f"{MF}._check_ublock")
    g = ctx.cfg(fi)
    sup = [n.idx for n in g.nodes if any(call_attr(c) == "_check_ublock" and norm(c.func.value) == "super()" and [norm(a) for a in c.args] == ["filename", "ub", "prev", "check_hashsum"] for c in g.calls(n.idx))]
    rep.check(bool(sup) and g.every_path_passes(sup, g.exit) and all(g.nodes[s].idx == min(n.idx for n in g.nodes if n.kind == "stmt" and not isinstance(n.stmt, ast.Expr) or n.idx in sup) for s in sup[:1]), "C04.R3", fi.qual, "the override runs the parent's checks first, with all arguments, on every path", fi.loc(), construct="super()._check_ublock",
              message="IH5MFRecord._check_ublock does not delegate to super()._check_ublock(filename, ub, prev, check_hashsum) on every path")
    fi = P.func(f"{MF}._open")
    g = ctx.cfg(fi)
    sup = [n.idx for n in g.nodes if any(call_attr(c) == "_open" and norm(c.func.value) == "super()" for c in g.calls(n.idx))]
    rets = [n.idx for n in g.nodes if isinstance(n.stmt, ast.Return) and n.stmt.value is not None]
    rep.check(bool(sup) and all(g.every_path_passes(sup, r) for r in rets), "C04.R3", fi.qual, "the override opens through the parent's _open (all chain checks)", fi.loc(), construct="super()._open", message="IH5MFRecord._open does not go through super()._open on every path")
    defs = local_defs(fi)
    ck = [norm(v) for k, v in defs.get("chksum", []) if v is not None]
    rep.check(ck == ["hashsum_file(manifest_file)"], "C04.R3", fi.qual, "the manifest is verified by the hash of its raw file bytes", fi.loc(), construct=f"chksum = {ck}",
              message=f"the manifest hash is computed as {ck}, not from the file's bytes: edits that survive parse + re-serialise (whitespace, key order, extra keys, case of hex digits) are accepted")
    ext_t = [t.idx for t in g.nodes if t.kind == "test" and norm(t.exprs[0]) == "ubext is not None"]
    miss = [t.idx for t in g.nodes if t.kind == "test" and norm(t.exprs[0]) == "not manifest_file.is_file()"]
    cmp_ = [t.idx for t in g.nodes if t.kind == "test" and norm(t.exprs[0]) == "ubext.manifest_hashsum != chksum"]
    ok = bool(ext_t) and bool(miss) and bool(cmp_)
    for lst in (miss, cmp_):
        ok = ok and all(g.exit not in g.reach([b for b, l in g.succ[t] if l == "T"]) for t in lst) and all(g.every_path_passes(lst, r, src=e, src_label="T") for e in ext_t for r in rets)
    ok = ok and all(g.every_path_passes(ext_t, r) for r in rets)
    rep.check(ok, "C04.R3", fi.qual, "when the container names a manifest: missing file or differing hash raises, on every path", fi.loc(), construct="manifest existence + hash check", message="IH5MFRecord._open can succeed although the linked manifest is missing or its hash differs")
    mfd = [norm(v) for k, v in defs.get("manifest_file", []) if v is not None]
    rep.check(sorted(mfd) == sorted(["kwargs.pop('manifest_file', None)", "cls._manifest_filepath(ret._files[-1].filename)"]), "C04.R3", fi.qual, "the manifest checked is the one given or the one next to the *newest* container", fi.loc(), construct=f"manifest_file = {mfd}",
              message=f"the manifest file is inferred as {mfd}: not the sidecar of the newest container")
    ub = [norm(v) for k, v in defs.get("ubext", []) if v is not None]
    rep.check(ub == ["IH5UBExtManifest.get(ub)"] and [norm(v) for k, v in defs.get("ub", []) if v is not None] == ["ret._ublock(-1)"], "C04.R3", fi.qual, "the manifest link is taken from the newest container's user block", fi.loc(), construct="ubext source", message="manifest link is not read from the newest container's user block")
    load_after = [n.idx for n in g.nodes if n.kind == "stmt" and "IH5Manifest.parse_file(manifest_file)" in norm(n.stmt)]
    rep.check(bool(load_after) and all(g.every_path_passes(cmp_, l) for l in load_after), "C04.R3", fi.qual, "the manifest is parsed only after its hash was verified", fi.loc(), construct="parse after verify", message="the manifest is parsed before its hash is verified")


def r4_magic_parse(P, rep, ctx):
    UB = f"{R}.IH5UserBlock"
    fi = P.func(f"{UB}._read_head_raw")
    g = ctx.cfg(fi)
    tests = [t for t in g.nodes if t.kind == "test" and norm(t.exprs[0]) == "len(dat) != 3 or dat[0] != FORMAT_MAGIC_STR"]
    ok = bool(tests) and all(all(isinstance(g.nodes[b].stmt, ast.Return) and norm(g.nodes[b].stmt.value) == "None" for b, l in g.succ[t.idx] if l == "T") for t in tests) and g.every_path_passes([t.idx for t in tests], g.exit)
    rep.check(ok, "C04.R4", fi.qual, "wrong magic or not exactly three parts yields None", fi.loc(), construct="head test", message="_read_head_raw accepts a block with wrong magic / wrong number of parts")
    rep.check("dat = probe.decode('utf-8').split('\\n')" in norm(fi.node), "C04.R4", fi.qual, "head is split on newlines", fi.loc(), construct="head split", message="_read_head_raw does not split the head on '\\n'")
    fi = P.func(f"{UB}.load")
    g = ctx.cfg(fi)
    tests = [t for t in g.nodes if t.kind == "test" and norm(t.exprs[0]) == "head is None"]
    ok = bool(tests) and all(g.exit not in g.reach([b for b, l in g.succ[t.idx] if l == "T"]) for t in tests) and g.every_path_passes([t.idx for t in tests], g.exit)
    rep.check(ok, "C04.R4", fi.qual, "a file without a valid IH5 head raises ValueError", fi.loc(), construct="invalid head raises", message="IH5UserBlock.load does not raise for a file without valid head")
    rep.check("ret = IH5UserBlock.parse_obj(json.loads(head[1]))" in norm(fi.node), "C04.R4", fi.qual, "the block is parsed through the typed model", fi.loc(), construct="typed parse", message="the user block is not validated through IH5UserBlock.parse_obj")
    from .common import require_total

    for q in (f"{UB}.load", f"{UB}._read_head_raw", f"{R}.IH5Record._open", "ih5.manifest.IH5MFRecord._open", f"{R}.hashsum_file"):
        require_total(rep, ctx, "C04.R4", P.func(q))
    c = P.cls(UB)
    ann = {k: norm(v) for k, v in c.annots.items()}
    want = {"record_uuid": "UUID", "patch_index": "Annotated[int, Field(ge=0)]", "patch_uuid": "UUID", "prev_patch": "Optional[UUID]", "hdf5_hashsum": "Optional[QualHashsumStr]"}
    rep.check(all(ann.get(k) == v for k, v in want.items()), "C04.R4", c.qual, "chain fields are typed (uuid / non-negative int / qualified hash)", c.module.relpath, construct="user block field types", message=f"user block field types changed: { {k: ann.get(k) for k in want} }")


def r5_payload_hash(P, rep, ctx):
    n = 0
    for q in (f"{R}.IH5Record._check_ublock", f"{R}.IH5Record.commit_patch", f"{R}.IH5Record.merge_files"):
        fi = P.func(q)
        for c in local_calls(fi.node):
            if call_attr(c) == "hashsum_file":
                n += 1
                sb = kwarg(c, "skip_bytes") or (c.args[1] if len(c.args) > 1 else None)
                rep.check(sb is not None and norm(sb) == "USER_BLOCK_SIZE", "C04.R5", fi.qual, "payload hash skips exactly the user block", fi.loc(c), construct=norm(c), message=f"{q} hashes with {norm(c)}: writer and checker disagree on the hashed region")
    if n < 3:
        raise AnalysisError("C04.R5: payload hash call sites not found")
    for q in (f"{R}.hashsum_file", "util.hashsums.qualified_hashsum", "util.hashsums.hashsum"):
        f = P.func(q)
        decos = [norm(d.func) if isinstance(d, ast.Call) else norm(d) for d in f.node.decorator_list]
        memo = [d for d in decos if d.split(".")[-1] in ("lru_cache", "cache", "cached_property", "memoize")]
        statuse = [x for x in walk_local(f.node) if (isinstance(x, ast.Attribute) and x.attr.startswith("st_")) or (isinstance(x, ast.Call) and call_attr(x) in ("stat", "lstat", "getmtime", "getsize"))]
        cache_like = [x for x in walk_local(f.node) if isinstance(x, ast.Name) and "cache" in x.id.lower()]
        rep.check(not memo and not statuse and not cache_like, "C04.R5", f.qual, "integrity hash is recomputed from the file's bytes on every check (no memoisation / stat shortcut)", f.loc(), construct=f"purity of {q.rsplit('.', 1)[-1]}",
                  message=f"{q} does not recompute the hash from the current bytes (memoised / keyed on stat values): an in-place tampered payload with restored size+mtime passes the integrity check")
    ubs = P.const(R, "USER_BLOCK_SIZE")
    nc = P.func(f"{R}.IH5Record._new_container")
    rep.check(ubs == 1024 and "userblock_size=USER_BLOCK_SIZE" in norm(nc.node), "C04.R5", nc.qual, "containers reserve exactly USER_BLOCK_SIZE bytes", nc.loc(), construct="userblock_size", message="container user block size differs from USER_BLOCK_SIZE")
