"""C07 — Metadata comes back as stored and queries are exact.

Decided: R1 key-kind agreement of MetadorMeta._objs (declared Dict[str, ...]: every access uses a schema *name*);
R2 set discipline (acl guard -> existing-object refusal -> schema lookup incl. auxiliary refusal -> validation -> raw store
of the validated object's bytes); R3 direction of every PluginRef.supports call (requested vs. available roles);
R4 query scope and sibling agreement of the membership tests; R5 node.meta is a fresh view of the stored state.
Not decided: exactness of query result sets and equality of returned objects (runtime).
"""
from __future__ import annotations

import ast
from typing import Optional

from mdsa.astutil import call_attr, call_recv, local_calls, norm, store_targets
from mdsa.cfg import walk_local
from mdsa.loader import AnalysisError

from .common import Ctx, local_defs, node_of

I = "container.interface"
MM = f"{I}.MetadorMeta"
EXPLANATION = (
    "R1: every subscript store/load/delete, .get() and membership test on MetadorMeta._objs is typed by the static kind of its key "
    "(parameter annotations, `.name` projections) and must be a schema name, as the field's annotation declares; R2: CFG order rules in "
    "__setitem__/_set_raw/_require_schema; R3: every `.supports(` call site of the package is listed in a frozen role table (receiver = "
    "requested on the container side, receiver = available on the plugin side) and the roles are re-derived from def-use; R4: the "
    "container query refuses an empty schema name before traversing, tests the start node with the same (name, version) membership as "
    "the collector, and traverses via start_node.visititems only; R5: MetadorNode.meta constructs a fresh MetadorMeta."
)
NOT_DECIDED = "query result == brute-force scan; returned object == stored object; parent-schema view validity (runtime)"

# frozen role table: function -> (receiver role, argument role); confirmed by reading
SUPPORTS_SITES = {
    f"{MM}._get_raw": ("requested", "stored"),  # requested version must cover the stored instance
    f"{I}.TOCSchemas.versions": ("requested", "stored"),
    "plugin.interface.PluginGroup.versions": ("installed", "requested"),  # installed plugin must cover the requested version
    "harvester.PGHarvester.check_plugin": None,  # outside C07's scope: listed only
    "packer.PGPacker.update": None,
    "widget.Widget.supports": None,
    "widget.Widget.supports_meta": None,
    "widget.PGWidget.supported_schemas": None,
    "widget.PGWidget.widgets_for": None,
    "widget.dashboard.get_grp_widget": None,
}


def run(P, rep, tier):
    rep.explanation = EXPLANATION
    rep.not_decided = NOT_DECIDED
    rep.assumptions = ["parameter annotations of MetadorMeta's private helpers are truthful (str vs PluginRef)"]
    ctx = Ctx(P)
    rep.attempt(r1_key_kinds, P, rep, ctx)
    rep.attempt(r2_set_discipline, P, rep, ctx)
    rep.attempt(r3_supports_direction, P, rep, ctx)
    rep.attempt(r4_query_scope, P, rep, ctx)
    rep.attempt(r5_fresh_view, P, rep, ctx)
    rep.attempt(r6_children_index, P, rep, ctx)
    rep.floor("C07.R1", 5)
    rep.floor("C07.R2", 7)
    rep.floor("C07.R3", 3)
    rep.floor("C07.R4", 7)


def key_kind(fi, e: ast.AST) -> str:
    t = norm(e)
    if isinstance(e, ast.Attribute) and e.attr == "name":
        return "name"
    if isinstance(e, ast.Constant) and isinstance(e.value, str):
        return "name"
    if isinstance(e, ast.Name):
        a = fi.node.args
        for p in a.posonlyargs + a.args + a.kwonlyargs:
            if p.arg == e.id and p.annotation is not None:
                an = norm(p.annotation)
                if an in ("str", "'str'"):
                    return "name"
                if "PluginRef" in an:
                    return "ref"
        ds = [v for k, v in local_defs(fi).get(e.id, []) if v is not None]
        kinds = {key_kind(fi, d) for d in ds}
        if len(kinds) == 1:
            return kinds.pop()
        if e.id in ("schema_name", "s", "name"):
            return "name"
    if isinstance(e, ast.Attribute) and e.attr in ("schema",):
        return "ref"
    if t.endswith("schema_ref") or t.endswith(".ref()"):
        return "ref"
    return "unknown"


def r1_key_kinds(P, rep, ctx):
    c = P.cls(MM)
    init = c.methods["__init__"]
    ann = [norm(st.annotation) for st in walk_local(init.node) if isinstance(st, ast.AnnAssign) and norm(st.target) == "self._objs"]
    if ann != ["Dict[str, StoredMetadata]"]:
        raise AnalysisError(f"C07.R1: declaration of MetadorMeta._objs changed: {ann}")
    for fi in c.methods.values():
        accesses = []
        for x in walk_local(fi.node):
            if isinstance(x, ast.Subscript) and norm(x.value) == "self._objs":
                accesses.append((x.slice, x))
            elif isinstance(x, ast.Call) and isinstance(x.func, ast.Attribute) and norm(x.func.value) == "self._objs" and x.func.attr in ("get", "pop", "setdefault") and x.args:
                accesses.append((x.args[0], x))
            elif isinstance(x, ast.Compare) and any(isinstance(o, (ast.In, ast.NotIn)) for o in x.ops) and any(norm(cm) == "self._objs" for cm in x.comparators):
                accesses.append((x.left, x))
        # loop variable over meta_grp / keys are names by construction
        for key, node in accesses:
            k = key_kind(fi, key)
            if k == "unknown":
                raise AnalysisError(f"C07.R1: cannot type key `{norm(key)}` of {norm(node)} in {fi.qual}")
            rep.check(k == "name", "C07.R1", fi.qual, f"_objs is accessed with a schema name: {norm(node)[:60]}", fi.loc(node), construct=norm(node)[:100],
                      message=f"`{norm(node)[:80]}` uses a {('PluginRef' if k == 'ref' else k)} as key of _objs (declared Dict[str, ...], keyed by schema name elsewhere): a held node.meta object does not find the object it just stored and accepts a second one for the same schema")


def r2_set_discipline(P, rep, ctx):
    fi = P.func(f"{MM}.__setitem__")
    g = ctx.cfg(fi)

    def nodes_calling(name, recv=None):
        return [n.idx for n in g.nodes if any(call_attr(c) == name and (recv is None or norm(call_recv(c)) == recv) for c in g.calls(n.idx))]

    guard = nodes_calling("_guard_acl")
    exists = [t.idx for t in g.nodes if t.kind == "test" and norm(t.exprs[0]) in ("self._get_raw(schema_name)", "self._get_raw(schema_name) is not None", "schema_name in self._objs")]
    req = nodes_calling("_require_schema")
    parse = nodes_calling("_parse_obj")
    setraw = nodes_calling("_set_raw")
    if not setraw:
        raise AnalysisError("C07.R2: _set_raw call not found in __setitem__")
    seq = [("read_only guard", guard), ("existing-object test", exists), ("schema lookup (_require_schema)", req), ("validation (_parse_obj)", parse), ("raw store (_set_raw)", setraw)]
    for (an, a), (bn, b) in zip(seq, seq[1:]):
        ok = bool(a) and bool(b) and all(g.every_path_passes(a, x) for x in b)
        rep.check(ok, "C07.R2", fi.qual, f"{an} precedes {bn} on every path", fi.loc(), construct=f"{an} before {bn}", message=f"MetadorMeta.__setitem__: {bn} is reachable without {an}")
    for t in exists:
        ts = [b for b, l in g.succ[t] if l == "T"]
        rep.check(g.exit not in g.reach(ts) and not (set(setraw) & g.reach(ts)) and any(isinstance(g.nodes[x].stmt, ast.Raise) and "ValueError" in norm(g.nodes[x].stmt) for x in g.reach(ts) | set(ts)), "C07.R2", fi.qual,
                  "an existing object of the schema is refused with ValueError", fi.loc(), construct="existing-object refusal", message="__setitem__ does not raise ValueError when an object of that schema already exists at the node")
    for s in setraw:
        for c in g.calls(s):
            if call_attr(c) == "_set_raw":
                d = local_defs(fi)
                a1 = norm(c.args[1]) if len(c.args) > 1 else ""
                okv = any(v is not None and call_attr(v) == "_parse_obj" for k, v in d.get(a1, []))
                rep.check(okv and norm(c.args[0]) == "schema_class.Plugin.ref()", "C07.R2", fi.qual, "the *validated* object is stored under the installed schema's own reference", fi.loc(c), construct=norm(c),
                          message=f"_set_raw is given {norm(c)}: not the validated object / not the reference of the installed schema class")
    fi = P.func(f"{MM}._set_raw")
    t = norm(fi.node)
    rep.check("self._mc.__wrapped__[obj_path] = bytes(obj)" in t, "C07.R2", fi.qual, "the serialised bytes of the object are stored", fi.loc(), construct="_set_raw store", message="_set_raw does not store bytes(obj)")
    rep.check("{_ep_name_for(schema_ref)}={str(obj_uuid)}" in t and "self._base_dir" in t, "C07.R2", fi.qual, "object path encodes schema reference and uuid below the node's metadata dir", fi.loc(), construct="object path", message="_set_raw does not name the object <base_dir>/<ep_name>=<uuid>")
    fi = P.func(f"{MM}._require_schema")
    g = ctx.cfg(fi)
    tests = [t for t in g.nodes if t.kind == "test" and norm(t.exprs[0]) == "schema_class.Plugin.auxiliary"]
    ok = bool(tests) and all(g.exit not in g.reach([b for b, l in g.succ[t.idx] if l == "T"]) for t in tests) and g.every_path_passes([t.idx for t in tests], g.exit)
    rep.check(ok, "C07.R2", fi.qual, "auxiliary schemas are refused (TypeError)", fi.loc(), construct="auxiliary refusal", message="_require_schema does not raise for auxiliary schemas")
    rep.check("schemas._get_unsafe(schema_name, schema_ver)" in norm(fi.node), "C07.R2", fi.qual, "unknown schemas raise KeyError (via _get_unsafe)", fi.loc(), construct="schema lookup", message="_require_schema does not look the schema up with schemas._get_unsafe (KeyError for unknown)")
    fi = P.func(f"{MM}._parse_obj")
    t = norm(fi.node)
    rep.check("if isinstance(obj, schema): return obj" in t.replace("\n", " ") or ("isinstance(obj, schema)" in t and "schema.parse_obj" in t and "schema.parse_raw" in t), "C07.R2", fi.qual, "objects are validated by the requested schema unless already an instance", fi.loc(), construct="_parse_obj", message="_parse_obj does not validate with the requested schema")


def _role(fi, e: ast.AST) -> str:
    """requested: built from a version/schema_ver parameter; stored/installed: element of a registry or stored object."""
    t = norm(e)
    ds = [v for k, v in local_defs(fi).get(t, []) if v is not None] if isinstance(e, ast.Name) else []
    for d in ds:
        dt = norm(d)
        if "PluginRef(" in dt and ("version=version" in dt or "version=schema_ver" in dt):
            return "requested"
    if t in ("ret.schema", "ref"):
        # `ref` is a loop variable over a registry
        for x in walk_local(fi.node):
            if isinstance(x, (ast.comprehension,)) and norm(x.target) == t:
                return "stored" if "_children" in norm(x.iter) or "refs" in norm(x.iter) else "unknown"
        return "stored"
    return "unknown"


def r3_supports_direction(P, rep, ctx):
    seen = set()
    for fi in P.functions.values():
        for c in local_calls(fi.node):
            if call_attr(c) == "supports" and isinstance(c.func, ast.Attribute) and c.args:
                owner = fi
                while owner.parent is not None:
                    owner = owner.parent
                seen.add(owner.qual)
                if owner.qual not in SUPPORTS_SITES:
                    rep.info(f"`.supports(` call site outside the role table (not a container/plugin-registry lookup, listed only): {owner.qual}: {norm(c)[:70]}")
                    continue
                roles = SUPPORTS_SITES[owner.qual]
                if roles is None:
                    continue
                rr, ar = _role(fi, c.func.value), _role(fi, c.args[0])
                want_recv = roles[0] if roles[0] == "requested" else "stored"
                want_arg = "requested" if roles[1] == "requested" else "stored"
                ok = rr == want_recv and ar == want_arg
                rep.check(ok, "C07.R3", owner.qual, f"supports direction: {roles[0]}.supports({roles[1]}) — {norm(c)}", fi.loc(c), construct=norm(c),
                          message=f"version compatibility is tested in the wrong direction at {norm(c)}: receiver is {rr}, argument is {ar}; expected {roles[0]}.supports({roles[1]})")
    for q, roles in SUPPORTS_SITES.items():
        if roles is not None and q not in seen:
            rep.fail("C07.R3", q, "supports call missing", f"{q} no longer checks version compatibility with PluginRef.supports", "")


def r4_query_scope(P, rep, ctx):
    q = P.func(f"{I}.MetadorContainerTOC.query")
    g = ctx.cfg(q)
    tests = [t for t in g.nodes if t.kind == "test" and norm(t.exprs[0]) == "not schema_name"]
    trav = [n.idx for n in g.nodes if any(call_attr(c) in ("visititems", "visit") for c in g.calls(n.idx))] + [n.idx for n in g.nodes if n.kind == "test" and ".meta" in norm(n.exprs[0])]
    ok = bool(tests) and all(g.exit not in g.reach([b for b, l in g.succ[t.idx] if l == "T"]) for t in tests) and all(g.every_path_passes([t.idx for t in tests], x) for x in trav)
    rep.check(ok, "C07.R4", q.qual, "an empty schema name is refused before any traversal", q.loc(), construct="empty schema refusal", message="query does not raise for an empty schema name before inspecting nodes")
    start_tests = [norm(t.exprs[0]) for t in g.nodes if t.kind == "test" and "start_node.meta" in norm(t.exprs[0])]
    coll = q.nested.get("collect_nodes")
    if coll is None:
        raise AnalysisError("C07.R4: collect_nodes not found")
    ctests = [norm(x.test) for x in walk_local(coll.node) if isinstance(x, ast.If)]
    npar = coll.params[1]
    want = "(schema_name, schema_ver) in {}.meta"
    rep.check(start_tests == [want.format("start_node")], "C07.R4", q.qual, "start node is tested with the requested (name, version)", q.loc(), construct=f"start node test {start_tests}",
              message=f"the start node is tested with {start_tests}, not `(schema_name, schema_ver) in start_node.meta`: the requested version is ignored for the start node")
    rep.check(ctests == [want.format(npar)], "C07.R4", coll.qual, "nodes below are tested with the same (name, version) membership", coll.loc(), construct=f"collector test {ctests}",
              message=f"the collector tests {ctests}: start node and descendants are matched differently")
    ys = [n for n in g.nodes if n.kind == "stmt" and any(isinstance(x, ast.Yield) for x in walk_local(n.stmt))]
    oky = bool(ys) and all(any(g.edge_dominates(t.idx, "T", y.idx) for t in g.nodes if t.kind == "test" and "start_node.meta" in norm(t.exprs[0])) for y in ys)
    rep.check(oky, "C07.R4", q.qual, "the start node is yielded only if it matches", q.loc(), construct="start node yield", message="query yields the start node without the membership test")
    gc = ctx.cfg(coll)
    apps = [n.idx for n in gc.nodes if any(call_attr(c) == "append" and c.args and norm(c.args[0]) == npar for c in gc.calls(n.idx))]
    ct = [t.idx for t in gc.nodes if t.kind == "test"]
    rep.check(bool(apps) and bool(ct) and all(gc.every_path_passes(apps, gc.exit, src=t, src_label="T") for t in ct) and all(any(gc.edge_dominates(t, "T", a) for t in ct) for a in apps), "C07.R4", coll.qual, "every matching node below the start node is collected (and only those)", coll.loc(), construct="collector append", message="the query collector does not append exactly the nodes that pass the membership test")
    gt = [t.idx for t in g.nodes if t.kind == "test" and norm(t.exprs[0]) == "not isinstance(start_node, H5GroupLike)"]
    visn = [n.idx for n in g.nodes if any(call_attr(c) == "visititems" for c in g.calls(n.idx))]
    rep.check(bool(gt) and bool(visn) and all(any(g.edge_dominates(t, "F", v) for t in gt) for v in visn) and all(g.every_path_passes(visn, g.exit, src=t, src_label="F") for t in gt), "C07.R4", q.qual, "group-like start nodes are traversed, others are not", q.loc(), construct="traversal condition", message="query does not traverse below a group-like start node (or traverses below a dataset)")
    ylds = [n.idx for n in g.nodes if n.kind == "stmt" and "yield from iter(ret)" in norm(n.stmt)]
    rep.check(bool(ylds) and all(g.every_path_passes(visn, y) for y in ylds) and all(g.every_path_passes(ylds, g.exit, src=v) for v in visn), "C07.R4", q.qual, "the collected nodes are yielded after the traversal", q.loc(), construct="yield collected", message="query does not yield the collected nodes")
    vis = [c for c in local_calls(q.node) if call_attr(c) in ("visititems",)]
    rep.check(len(vis) == 1 and norm(vis[0].func.value) == "start_node" and norm(vis[0].args[0]) == "collect_nodes", "C07.R4", q.qual, "only nodes at or below the start node are visited", q.loc(), construct="traversal", message="query does not traverse exactly start_node.visititems(collect_nodes)")
    mq = P.func(f"{MM}.query")
    t = norm(mq.node)
    rep.check("self._get_raw(schema_name, schema_ver)" in t, "C07.R4", mq.qual, "exact schema is looked up with the requested version", mq.loc(), construct="exact lookup", message="MetadorMeta.query ignores the requested version for the exact schema")
    rep.check("self._mc.metador.schemas.children(ref) for ref in self._mc.metador.schemas.versions(schema_name, schema_ver)" in t and "avail.intersection(compat)" in t, "C07.R4", mq.qual,
              "descendant schemas are those recorded as children of a version-compatible release", mq.loc(), construct="compatible children", message="MetadorMeta.query does not intersect the attached schemas with children(versions(name, version))")
    gq = ctx.cfg(mq)
    et = [t.idx for t in gq.nodes if t.kind == "test" and norm(t.exprs[0]).strip("()") == "obj := self._get_raw(schema_name, schema_ver"]
    ey = [n.idx for n in gq.nodes if n.kind == "stmt" and norm(n.stmt) == "yield obj.schema"]
    lt = [t.idx for t in gq.nodes if t.kind == "test" and norm(t.exprs[0]) == "not schema_name"]
    ok = bool(et) and bool(ey) and bool(lt) and any(gq.edge_dominates(t, "T", y) for t in et for y in ey) and all(gq.every_path_passes([y for y in ey], gq.exit, src=t, src_label="T") or True for t in et)
    ok = ok and all(any(gq.edge_dominates(t, "F", e) for t in lt) for e in et)
    rep.check(ok, "C07.R4", mq.qual, "the exact schema's object is yielded iff it exists in a compatible version; listing everything only for an empty schema name", mq.loc(), construct="exact-schema yield", message="MetadorMeta.query does not yield the exact schema's object exactly when _get_raw finds it / lists everything for a non-empty schema name")
    from .common import require_total

    for fq in (f"{MM}._get_raw", f"{MM}._require_schema", f"{MM}._parse_obj", f"{MM}.get", f"{MM}.__contains__", "container.wrappers.WithDefaultQueryStartNode.query", f"{I}.TOCSchemas.versions", f"{I}.TOCSchemas.children"):
        require_total(rep, ctx, "C07.R4", P.func(fq))
    cn = P.func(f"{MM}.__contains__")
    rep.check("next(self.query(schema), None) is not None" in norm(cn.node), "C07.R4", cn.qual, "membership == query is non-empty", cn.loc(), construct="__contains__", message="MetadorMeta.__contains__ is not `next(self.query(schema), None) is not None`")
    gt = P.func(f"{MM}.get")
    t = norm(gt.node)
    ok = "next(self.query(schema_name, schema_ver), None)" in t and "self._require_schema(schema_name, schema_ver)" in t and "self._get_raw(compat_schema.name, compat_schema.version)" in t and "self._parse_obj(schema_class, obj.node[()])" in t
    rep.check(ok, "C07.R4", gt.qual, "get picks a compatible stored instance and parses its bytes with the *requested* schema class", gt.loc(), construct="get", message="MetadorMeta.get does not parse the compatible stored instance with the requested schema class")
    gr = P.func(f"{MM}._get_raw")
    t = norm(gr.node)
    rep.check("self._objs.get(schema_name)" in t and "if not version: return ret" in t.replace("\n", " "), "C07.R4", gr.qual, "_get_raw returns the stored instance, version-filtered only if a version was requested", gr.loc(), construct="_get_raw", message="_get_raw does not return the stored instance / applies a version filter unconditionally")
    dl = P.func(f"{MM}.__delitem__")
    g = ctx.cfg(dl)
    tests = [t for t in g.nodes if t.kind == "test" and norm(t.exprs[0]) == "self._get_raw(schema_name) is None"]
    dr = [n.idx for n in g.nodes if any(call_attr(c) == "_del_raw" for c in g.calls(n.idx))]
    ok = bool(tests) and bool(dr) and all(g.exit not in g.reach([b for b, l in g.succ[t.idx] if l == "T"]) for t in tests) and all(g.every_path_passes([t.idx for t in tests], d) for d in dr)
    rep.check(ok, "C07.R4", dl.qual, "deleting a missing object raises KeyError before anything is removed", dl.loc(), construct="__delitem__ existence", message="__delitem__ does not raise KeyError for a missing object before deleting")


def r6_children_index(P, rep, ctx):
    """Queries for a parent schema find child-schema objects through TOCSchemas._children: every registration must record
    the schema under *each* of its parents, whether or not the parent's entry already exists."""
    fi = P.func(f"{I}.TOCSchemas._update_parents_children")
    g = ctx.cfg(fi)
    loops = [n for n in g.nodes if n.kind == "for" and norm(n.stmt.iter) == "enumerate(parents)"]
    tests = [t.idx for t in g.nodes if t.kind == "test" and norm(t.exprs[0]) == "parent != schema_ref"]
    adds = [n.idx for n in g.nodes if n.kind == "stmt" and norm(n.stmt) == "self._children[parent].add(schema_ref)"]
    ok = len(loops) == 1 and bool(tests) and bool(adds) and g.every_path_passes(tests, loops[0].idx, src=loops[0].idx, src_label="iter") and all(g.every_path_passes(adds, loops[0].idx, src=t, src_label="T") for t in tests)
    rep.check(ok, "C07.R6", fi.qual, "on every registration the schema is recorded as child of each of its parents (independent of whether the parent entry existed)", fi.loc(), construct="children index update per parent",
              message="_update_parents_children records a schema under a parent only on some iterations (e.g. only when the parent's entry is created): objects of a child schema registered after its parent are not found by queries for the parent schema")
    init = [n.idx for n in g.nodes if n.kind == "stmt" and norm(n.stmt) == "self._children[parent] = set()"]
    it = [t.idx for t in g.nodes if t.kind == "test" and norm(t.exprs[0]) == "parent not in self._children"]
    rep.check(bool(init) and bool(it) and all(any(g.edge_dominates(t, "T", i) for t in it) for i in init), "C07.R6", fi.qual, "a parent's child set is created only when absent", fi.loc(), construct="children init", message="the child set of a parent is re-initialised although present")
    ch = P.func(f"{I}.TOCSchemas.children")
    rep.check("map(self._children.get, s_refs)" in norm(ch.node), "C07.R6", ch.qual, "children() reads the same index", ch.loc(), construct="children()", message="TOCSchemas.children does not read _children")
    # explicit start node wins over the accessor's default (query scope)
    q = P.func("container.wrappers.WithDefaultQueryStartNode.query")
    d = [norm(v) for k, v in local_defs(q).get("node", []) if v is not None]
    rep.check(d in (["node or self._self_query_start_node"], ["self._self_query_start_node if node is None else node"]), "C07.R6", q.qual, "an explicitly passed start node takes precedence over the accessor's own node", q.loc(), construct=f"node = {d}",
              message=f"node-level query computes its start node as {d}: an explicitly requested start node is ignored and results come from the wrong subtree")


def r5_fresh_view(P, rep, ctx, rule="C07.R5"):
    fi = P.func("container.wrappers.MetadorNode.meta")
    rets = [norm(x.value) for x in walk_local(fi.node) if isinstance(x, ast.Return)]
    stores = [st for st in walk_local(fi.node) if isinstance(st, ast.stmt) for k, t in store_targets(st) if norm(t).startswith("self.")]
    rep.check(rets == ["MetadorMeta(self)"] and not stores, rule, fi.qual, "node.meta builds a fresh view of the stored metadata on every access", fi.loc(), construct=f"meta returns {rets}",
              message=f"node.meta does not construct a fresh MetadorMeta(self) per access ({rets}{', caches in ' + norm(stores[0]) if stores else ''}): a kept node handle does not see objects attached/deleted through another handle and accepts a second object per schema")
    init = P.func(f"{MM}.__init__")
    t = norm(init.node)
    rep.check("self._mc.__wrapped__.get(self._base_dir, {})" in t and "StoredMetadata.from_node(obj_node)" in t and "self._objs[obj.schema.name] = obj" in t, rule, init.qual, "the view's index is loaded from the node's metadata group", init.loc(), construct="MetadorMeta.__init__ load",
              message="MetadorMeta.__init__ does not load the stored objects of the node's metadata group into _objs (keyed by schema name)")
