"""C07 — Metadata comes back as stored and queries are exact.

Decided: R1 key-kind agreement of MetadorMeta._objs (declared Dict[str, ...]: every access uses a schema *name*);
R2 set discipline (acl guard -> existing-object refusal -> schema lookup incl. auxiliary refusal -> validation -> raw store
of the validated object's bytes); R3 direction of every PluginRef.supports call (requested vs. available roles);
R4 query scope and sibling agreement of the membership tests; R5 node.meta is a fresh view of the stored state.
Not decided: exactness of query result sets and equality of returned objects (runtime).
"""
from __future__ import annotations

import ast
from typing import Optional

from mdsa.astutil import call_attr, call_recv, local_calls, norm, store_targets
from mdsa.cfg import walk_local
from mdsa.loader import AnalysisError

from mdsa import match as M

from .common import Ctx, local_defs, node_of
from .sem import F

I = "container.interface"
MM = f"{I}.MetadorMeta"
EXPLANATION = (
    "R1: every subscript store/load/delete, .get() and membership test on MetadorMeta._objs is typed by the static kind of its key "
    "(parameter annotations, `.name` projections) and must be a schema name, as the field's annotation declares; R2: CFG order rules in "
    "__setitem__/_set_raw/_require_schema; R3: every `.supports(` call site of the package is listed in a frozen role table (receiver = "
    "requested on the container side, receiver = available on the plugin side) and the roles are re-derived from def-use; R4: the "
    "container query refuses an empty schema name before traversing, tests the start node with the same (name, version) membership as "
    "the collector, and traverses via start_node.visititems only; R5: MetadorNode.meta constructs a fresh MetadorMeta."
)
NOT_DECIDED = "query result == brute-force scan; returned object == stored object; parent-schema view validity (runtime)"

# frozen role table: function -> (receiver role, argument role); confirmed by reading
SUPPORTS_SITES = {
    f"{MM}._get_raw": ("requested", "stored"),  # requested version must cover the stored instance
    f"{I}.TOCSchemas.versions": ("requested", "stored"),
    "plugin.interface.PluginGroup.versions": ("installed", "requested"),  # installed plugin must cover the requested version
    "harvester.PGHarvester.check_plugin": None,  # outside C07's scope: listed only
    "packer.PGPacker.update": None,
    "widget.Widget.supports": None,
    "widget.Widget.supports_meta": None,
    "widget.PGWidget.supported_schemas": None,
    "widget.PGWidget.widgets_for": None,
    "widget.dashboard.get_grp_widget": None,
}


def run(P, rep, tier):
    rep.explanation = EXPLANATION
    rep.not_decided = NOT_DECIDED
    rep.assumptions = ["parameter annotations of MetadorMeta's private helpers are truthful (str vs PluginRef)"]
    ctx = Ctx(P)
    rep.attempt(r1_key_kinds, P, rep, ctx)
    rep.attempt(r2_set_discipline, P, rep, ctx)
    rep.attempt(r3_supports_direction, P, rep, ctx)
    rep.attempt(r4_query_scope, P, rep, ctx)
    rep.attempt(r5_fresh_view, P, rep, ctx)
    rep.attempt(r6_children_index, P, rep, ctx)
    rep.attempt(r8_tables, P, rep, ctx)
    # objects stay findable: destroying *copied* metadata must never unregister the links of the originals
    from . import c06

    rep.attempt(c06.r_unlink_threading, P, rep, ctx, "C07.R7")
    # "exactly the nodes that carry an object": what copy / move / delete leave attached decides every later query
    # (node-operation rules of C06.R2: metadata copied only when wanted, destroyed or re-registered, links repaired)
    rep.attempt(c06.r2_node_ops, P, rep, ctx)
    from .common import r_raw_argument_after_normalisation

    rep.attempt(r_raw_argument_after_normalisation, P, rep, ctx, "C07.R9", {"container.interface", "container.wrappers", "schema.pg", "schema.plugins"})
    # queries by a parent schema rely on the parent / children index that registration maintains (C06.R1 schema registration)
    from .tocmodel import r_schema_register as _rsr

    rep.attempt(_rsr, P, rep, ctx, "C07.R10")
    # an attached object is found again under its node whatever the node is called: the '=' of `<ep-name>=<uuid>` is looked for
    # in the last path segment only (C06.R9)
    from . import c06 as _c06

    rep.attempt(_c06.r9_separator_in_last_segment, P, rep, ctx)
    rep.floor("C07.R1", 5)
    rep.floor("C07.R2", 7)
    rep.floor("C07.R3", 3)
    rep.floor("C07.R4", 7)
    # refinement against the pinned tree for every function the rules above looked at (rules/pinned.py)
    import os as _os

    if not _os.environ.get("MDSA_PINNED_GEN"):
        from .pinned import refine

        refine(P, rep, ctx, "C07")


def key_kind(fi, e: ast.AST) -> str:
    t = norm(e)
    if isinstance(e, ast.Attribute) and e.attr == "name":
        return "name"
    if isinstance(e, ast.Constant) and isinstance(e.value, str):
        return "name"
    if isinstance(e, ast.Name):
        a = fi.node.args
        for p in a.posonlyargs + a.args + a.kwonlyargs:
            if p.arg == e.id and p.annotation is not None:
                an = norm(p.annotation)
                if an in ("str", "'str'"):
                    return "name"
                if "PluginRef" in an:
                    return "ref"
        ldefs = local_defs(fi).get(e.id, [])
        ds = [v for k, v in ldefs if v is not None and not k.endswith("unpack")]
        kinds = {key_kind(fi, d) for d in ds}
        # `name, version = plugin_args(..)`: the helper returns (schema name, version)
        for st in walk_local(fi.node):
            if isinstance(st, ast.Assign) and len(st.targets) == 1 and isinstance(st.targets[0], ast.Tuple):
                pos = [i for i, x in enumerate(st.targets[0].elts) if isinstance(x, ast.Name) and x.id == e.id]
                if pos:
                    if isinstance(st.value, ast.Call) and norm(st.value.func) == "plugin_args" and len(st.targets[0].elts) == 2:
                        kinds.add("name" if pos[0] == 0 else "version")
                    elif isinstance(st.value, ast.Tuple) and len(st.value.elts) == len(st.targets[0].elts):
                        kinds.add(key_kind(fi, st.value.elts[pos[0]]))
                    else:
                        kinds.add("unknown")
        if len(kinds) == 1:
            return kinds.pop()
        if e.id in ("schema_name", "s", "name"):
            return "name"
    if isinstance(e, ast.Attribute) and e.attr in ("schema",):
        return "ref"
    if t.endswith("schema_ref") or t.endswith(".ref()"):
        return "ref"
    return "unknown"


def r1_key_kinds(P, rep, ctx):
    c = P.cls(MM)
    init = c.methods["__init__"]
    ann = [norm(st.annotation) for st in walk_local(init.node) if isinstance(st, ast.AnnAssign) and norm(st.target) == "self._objs"]
    if ann != ["Dict[str, StoredMetadata]"]:
        raise AnalysisError(f"C07.R1: declaration of MetadorMeta._objs changed: {ann}")
    for fi in c.methods.values():
        accesses = []
        for x in walk_local(fi.node):
            if isinstance(x, ast.Subscript) and norm(x.value) == "self._objs":
                accesses.append((x.slice, x))
            elif isinstance(x, ast.Call) and isinstance(x.func, ast.Attribute) and norm(x.func.value) == "self._objs" and x.func.attr in ("get", "pop", "setdefault") and x.args:
                accesses.append((x.args[0], x))
            elif isinstance(x, ast.Compare) and any(isinstance(o, (ast.In, ast.NotIn)) for o in x.ops) and any(norm(cm) == "self._objs" for cm in x.comparators):
                accesses.append((x.left, x))
        # loop variable over meta_grp / keys are names by construction
        for key, node in accesses:
            k = key_kind(fi, key)
            if k == "unknown":
                raise AnalysisError(f"C07.R1: cannot type key `{norm(key)}` of {norm(node)} in {fi.qual}")
            rep.check(k == "name", "C07.R1", fi.qual, f"_objs is accessed with a schema name: {norm(node)[:60]}", fi.loc(node), construct=norm(node)[:100],
                      message=f"`{norm(node)[:80]}` uses a {('PluginRef' if k == 'ref' else k)} as key of _objs (declared Dict[str, ...], keyed by schema name elsewhere): a held node.meta object does not find the object it just stored and accepts a second one for the same schema")


def unpack_names(f: "F", call_pattern: str):
    """names bound by `a, b = <call matching pattern>` (None if not found)"""
    for n in f.g.nodes:
        st = n.stmt
        if n.kind == "stmt" and isinstance(st, ast.Assign) and len(st.targets) == 1 and isinstance(st.targets[0], ast.Tuple) and M.match(call_pattern, st.value) is not None:
            return [norm(e) for e in st.targets[0].elts]
    return None


def r2_set_discipline(P, rep, ctx):
    fi = P.func(f"{MM}.__setitem__")
    f = F(ctx, fi)
    g = f.g
    names = unpack_names(f, f"plugin_args({fi.params[1]})")
    if names is None:
        raise AnalysisError("C07.R2: `name, version = plugin_args(schema)` not found in __setitem__")
    sn, sv = names[0], names[1]
    guard = f.calls("self._node._guard_acl(NodeAcl.read_only)", "self._node._guard_acl(NodeAcl.read_only, ___)")
    exists = f.tests(f"self._get_raw({sn})", f"self._get_raw({sn}) is not None", f"{sn} in self._objs", f"self._objs.get({sn})", f"self._objs.get({sn}) is not None")
    req = f.calls(f"self._require_schema({sn}, {sv})")
    parses = f.call_sites(f"self._parse_obj(__c, {fi.params[2]})")
    parse = [i for i, c, b in parses if f.x(b["__c"]) == f"self._require_schema({sn}, {sv})"]
    sets = f.call_sites("self._set_raw(__r, __o)")
    setraw = [i for i, c, b in sets]
    if not setraw:
        raise AnalysisError("C07.R2: _set_raw call not found in __setitem__")
    seq = [("read_only guard", guard), ("existing-object test", f.test_nodes(exists)), ("schema lookup (_require_schema)", req), ("validation (_parse_obj)", parse), ("raw store (_set_raw)", setraw)]
    for (an, a), (bn, b) in zip(seq, seq[1:]):
        ok = bool(a) and bool(b) and f.all_hit_before(b, nodes=a)
        rep.check(ok, "C07.R2", fi.qual, f"{an} precedes {bn} on every path", fi.loc(), construct=f"{an} before {bn}", message=f"MetadorMeta.__setitem__: {bn} is reachable without {an}")
    raises_ve = any(isinstance(g.nodes[x].stmt, ast.Raise) and "ValueError" in f.x(g.nodes[x].stmt.exc) for x in g.reach(f.heads(exists)) | set(f.heads(exists))) if exists else False
    rep.check(f.refuses(exists) and not f.reaches(exists, setraw) and raises_ve, "C07.R2", fi.qual,
              "an existing object of the schema is refused with ValueError", fi.loc(), construct="existing-object refusal", message="__setitem__ does not raise ValueError when an object of that schema already exists at the node")
    for i, c, b in sets:
        okv = M.match(f"self._parse_obj(__c, {fi.params[2]})", f.xe_at(i, b["__o"])) is not None and f.x_at(i, b["__r"]) == f"self._require_schema({sn}, {sv}).Plugin.ref()"
        rep.check(okv, "C07.R2", fi.qual, "the *validated* object is stored under the installed schema's own reference", fi.loc(c), construct="stored object and reference",
                  message=f"_set_raw is given {norm(c)}: not the validated object / not the reference of the installed schema class")
    sfi = P.func(f"{MM}._set_raw")
    sf = F(ctx, sfi)
    st = [(i, v, b) for i, v, b in sf.stores("self._mc.__wrapped__[__p]")]
    rep.check(bool(st) and all(sf.x(v) == f"bytes({sfi.params[2]})" for i, v, b in st), "C07.R2", sfi.qual, "the serialised bytes of the object are stored", sfi.loc(), construct="_set_raw store", message="_set_raw does not store bytes(obj)")
    okp = bool(st) and all(isinstance(sf.xe(b["__p"]), ast.JoinedStr) and sf.x(b["__p"]).startswith("f'{self._base_dir}/{_ep_name_for(" + sfi.params[1] + ")}={") and "fresh_uuid()" in sf.x(b["__p"]) for i, v, b in st)
    rep.check(okp, "C07.R2", sfi.qual, "object path encodes schema reference and uuid below the node's metadata dir", sfi.loc(), construct="object path", message="_set_raw does not name the object <base_dir>/<ep_name>=<uuid>")
    rfi = P.func(f"{MM}._require_schema")
    rf = F(ctx, rfi)
    a0, a1 = rfi.params[0], rfi.params[1]
    aux = rf.tests(f"schemas._get_unsafe({a0}, {a1}).Plugin.auxiliary")
    rep.check(rf.refuses(aux) and rf.hit_before(rf.g.exit, nodes=rf.test_nodes(aux)), "C07.R2", rfi.qual, "auxiliary schemas are refused (TypeError)", rfi.loc(), construct="auxiliary refusal", message="_require_schema does not raise for auxiliary schemas")
    rets = [rf.x(v) for _, v in rf.returns() if v is not None]
    rep.check(bool(rets) and set(rets) == {f"schemas._get_unsafe({a0}, {a1})"}, "C07.R2", rfi.qual, "unknown schemas raise KeyError (via _get_unsafe)", rfi.loc(), construct="schema lookup", message="_require_schema does not look the schema up with schemas._get_unsafe (KeyError for unknown)")
    pfi = P.func(f"{MM}._parse_obj")
    pf = F(ctx, pfi)
    sc, ob = pfi.params[0], pfi.params[1]
    rets = [(i, pf.x(v)) for i, v in pf.returns() if v is not None]
    inst = pf.tests(f"isinstance({ob}, {sc})")
    # every returned value is the object itself (only when already an instance) or the result of parsing with the requested schema
    okp = bool(rets) and bool(inst)
    for i, t in rets:
        if t == ob:
            okp = okp and pf.hit_before(i, edges=inst)
        else:
            okp = okp and (t.startswith(f"{sc}.parse_raw(") or t.startswith(f"{sc}.parse_obj("))
    rep.check(okp, "C07.R2", pfi.qual, "objects are validated by the requested schema unless already an instance", pfi.loc(), construct="_parse_obj", message="_parse_obj does not validate with the requested schema")


def _role(fi, e: ast.AST, ff=None, site=None) -> str:
    """requested: a PluginRef built from the function's (name, version) parameters; stored/installed: an element of a
    registry (loop / comprehension variable over it) or the schema of a stored object."""
    from mdsa.match import expand

    x = ff.xe_at(site, e) if ff is not None and site is not None else expand(fi.node, e)
    if isinstance(x, ast.Call) and norm(x.func).endswith("PluginRef"):
        kws = {k.arg: norm(k.value) for k in x.keywords}
        if kws.get("version") in fi.params and kws.get("name") in fi.params:
            return "requested"
        return "unknown"
    t = norm(x)
    if isinstance(x, ast.Attribute) and x.attr == "schema" and "self._objs.get(" in t:
        return "stored"
    if isinstance(e, ast.Name):
        for c in walk_local(fi.node):
            if isinstance(c, (ast.comprehension, ast.For)) and norm(c.target) == e.id:
                it = norm(expand(fi.node, c.iter))
                return "stored" if ("_children" in it or "_VERSIONS" in it) else "unknown"
    return "unknown"


def r3_supports_direction(P, rep, ctx):
    seen = set()
    for fi in P.functions.values():
        for c in local_calls(fi.node):
            if call_attr(c) == "supports" and isinstance(c.func, ast.Attribute) and c.args:
                owner = fi
                while owner.parent is not None:
                    owner = owner.parent
                seen.add(owner.qual)
                if owner.qual not in SUPPORTS_SITES:
                    rep.info(f"`.supports(` call site outside the role table (not a container/plugin-registry lookup, listed only): {owner.qual}: {norm(c)[:70]}")
                    continue
                roles = SUPPORTS_SITES[owner.qual]
                if roles is None:
                    continue
                ff = F(ctx, fi) if isinstance(fi.node, (ast.FunctionDef, ast.AsyncFunctionDef)) else None
                site = node_of(ff.g, c) if ff is not None else None
                rr, ar = _role(fi, c.func.value, ff, site), _role(fi, c.args[0], ff, site)
                want_recv = roles[0] if roles[0] == "requested" else "stored"
                want_arg = "requested" if roles[1] == "requested" else "stored"
                ok = rr == want_recv and ar == want_arg
                rep.check(ok, "C07.R3", owner.qual, f"supports direction: {roles[0]}.supports({roles[1]}) — {norm(c)}", fi.loc(c), construct=norm(c),
                          message=f"version compatibility is tested in the wrong direction at {norm(c)}: receiver is {rr}, argument is {ar}; expected {roles[0]}.supports({roles[1]})")
    for q, roles in SUPPORTS_SITES.items():
        if roles is not None and q not in seen:
            rep.fail("C07.R3", q, "supports call missing", f"{q} no longer checks version compatibility with PluginRef.supports", "")


def r4_query_scope(P, rep, ctx):
    qfi = P.func(f"{I}.MetadorContainerTOC.query")
    q = F(ctx, qfi)
    g = q.g
    names = unpack_names(q, f"plugin_args({qfi.params[1]}, {qfi.params[2]})")
    if names is None:
        raise AnalysisError("C07.R4: `name, version = plugin_args(schema, version)` not found in the container query")
    sn, sv = names[0], names[1]
    START = f"node or self._container['/']"
    empty = q.tests(f"not {sn}", f"{sn} == ''")
    vis_sites = q.call_sites("__s.visititems(__cb)")
    visn = [i for i, c, b in vis_sites]
    member_start = [e for e in q.tests(f"({sn}, {sv}) in __n.meta") if q.x_at(e[0], g.nodes[e[0]].exprs[0]) in (f"({sn}, {sv}) in ({START}).meta", f"({sn}, {sv}) in (self._container['/'] if node is None else node).meta")]
    trav = visn + q.test_nodes(member_start)
    ok = q.refuses(empty) and bool(trav) and q.all_hit_before(trav, nodes=q.test_nodes(empty))
    rep.check(ok, "C07.R4", qfi.qual, "an empty schema name is refused before any traversal", qfi.loc(), construct="empty schema refusal", message="query does not raise for an empty schema name before inspecting nodes")
    any_member = q.tests(f"({sn}, {sv}) in __n.meta") + q.tests("__k in __n.meta")
    rep.check(bool(member_start) and {t for t, l in any_member} == {t for t, l in member_start}, "C07.R4", qfi.qual, "start node is tested with the requested (name, version)", qfi.loc(), construct="start node test",
              message="the start node is not tested with `(schema_name, schema_ver) in start_node.meta`: the requested version is ignored for the start node")
    cbn = [b["__cb"].id for i, c, b in vis_sites if isinstance(b["__cb"], ast.Name) and b["__cb"].id in qfi.nested]
    coll = qfi.nested.get(cbn[0]) if cbn else None
    if coll is None:
        raise AnalysisError("C07.R4: collector function of query not found")
    cf = F(ctx, coll)
    npar = coll.params[1]
    cm = cf.tests(f"({sn}, {sv}) in {npar}.meta")
    call_tests = [n for n in cf.g.nodes if n.kind == "test"]
    rep.check(bool(cm) and len(call_tests) == len(cf.test_nodes(cm)), "C07.R4", coll.qual, "nodes below are tested with the same (name, version) membership", coll.loc(), construct="collector test",
              message="the collector's test differs from `(name, version) in node.meta`: start node and descendants are matched differently")
    ys = [n.idx for n in g.nodes if n.kind == "stmt" and any(isinstance(x, ast.Yield) for x in walk_local(n.stmt))]
    oky = bool(ys) and bool(member_start) and q.all_hit_before(ys, edges=member_start) and all(q.x_at(y, next(x for x in walk_local(g.nodes[y].stmt) if isinstance(x, ast.Yield)).value) in (START, f"self._container['/'] if node is None else node") for y in ys)
    rep.check(oky, "C07.R4", qfi.qual, "the start node is yielded only if it matches", qfi.loc(), construct="start node yield", message="query yields the start node without the membership test")
    apps_s = cf.call_sites(f"__r.append({npar})")
    apps = [i for i, c, b in apps_s]
    rep.check(bool(apps) and bool(cm) and cf.all_hit_before(apps, edges=cm) and all(cf.hit_before(cf.g.exit, nodes=apps, src_edge=e) for e in cm), "C07.R4", coll.qual, "every matching node below the start node is collected (and only those)", coll.loc(), construct="collector append", message="the query collector does not append exactly the nodes that pass the membership test")
    grp = q.tests(f"isinstance({START}, H5GroupLike)", "isinstance(__n, H5GroupLike)")
    rep.check(bool(grp) and bool(visn) and q.all_hit_before(visn, edges=grp) and all(q.hit_before(g.exit, nodes=visn, src_edge=e) for e in grp), "C07.R4", qfi.qual, "group-like start nodes are traversed, others are not", qfi.loc(), construct="traversal condition", message="query does not traverse below a group-like start node (or traverses below a dataset)")
    acc = {norm(b["__r"]) for i, c, b in apps_s}
    ylds = [n.idx for n in g.nodes if n.kind == "stmt" and any(isinstance(x, ast.YieldFrom) and any(isinstance(y, ast.Name) and y.id in acc for y in ast.walk(x.value)) for x in walk_local(n.stmt))]
    ylds += [n.idx for n in g.nodes if n.kind == "for" and isinstance(n.stmt.iter, ast.Name) and n.stmt.iter.id in acc and any(isinstance(x, ast.Yield) for b_ in n.stmt.body for x in ast.walk(b_))]
    rep.check(bool(ylds) and q.all_hit_before(ylds, nodes=visn) and all(q.hit_before(g.exit, nodes=ylds, src=v) for v in visn), "C07.R4", qfi.qual, "the collected nodes are yielded after the traversal", qfi.loc(), construct="yield collected", message="query does not yield the collected nodes")
    rep.check(len(vis_sites) >= 1 and len({norm(c) for i, c, b in vis_sites if c in local_calls(qfi.node)} | {1}) <= 2 and all(q.x_at(i, b["__s"]) in (START, f"self._container['/'] if node is None else node") and norm(b["__cb"]) == coll.name for i, c, b in vis_sites), "C07.R4", qfi.qual, "only nodes at or below the start node are visited", qfi.loc(), construct="traversal", message="query does not traverse exactly start_node.visititems(collect_nodes)")
    mfi = P.func(f"{MM}.query")
    mq = F(ctx, mfi)
    gq = mq.g
    names = unpack_names(mq, f"plugin_args({mfi.params[1]}, {mfi.params[2]})")
    if names is None:
        raise AnalysisError("C07.R4: `name, version = plugin_args(schema, version)` not found in MetadorMeta.query")
    sn, sv = names[0], names[1]
    exact = mq.tests(f"self._get_raw({sn}, {sv})", f"self._get_raw({sn}, {sv}) is not None")
    any_raw = [c for c in local_calls(mfi.node) if call_attr(c) == "_get_raw" and len(c.args) + len(c.keywords) >= 2]
    rep.check(bool(exact) and all(M.match(f"self._get_raw({sn}, {sv})", c) is not None for c in any_raw), "C07.R4", mfi.qual, "exact schema is looked up with the requested version", mfi.loc(), construct="exact lookup", message="MetadorMeta.query ignores the requested version for the exact schema")
    t = mq.x(ast.Module(body=list(mfi.node.body), type_ignores=[])) if False else " ".join(norm(mq.xstmt(st)) for st in mfi.node.body)
    okc = f"self._mc.metador.schemas.versions({sn}, {sv})" in t and "self._mc.metador.schemas.children(" in t and ".intersection(" in t
    comp_ok = False
    for x0 in ast.walk(mfi.node):
        x = mq.xe(x0) if isinstance(x0, (ast.GeneratorExp, ast.ListComp, ast.SetComp)) else x0
        if isinstance(x, (ast.GeneratorExp, ast.ListComp, ast.SetComp)) and len(x.generators) == 1 and norm(x.generators[0].iter) == f"self._mc.metador.schemas.versions({sn}, {sv})" and M.match(f"self._mc.metador.schemas.children({norm(x.generators[0].target)})", x.elt) is not None and not x.generators[0].ifs:
            comp_ok = True
    rep.check(okc and comp_ok, "C07.R4", mfi.qual,
              "descendant schemas are those recorded as children of a version-compatible release", mfi.loc(), construct="compatible children", message="MetadorMeta.query does not intersect the attached schemas with children(versions(name, version))")
    ey = [n.idx for n in gq.nodes if n.kind == "stmt" and any(isinstance(x, ast.Yield) and x.value is not None and mq.x_at(n.idx, x.value) == f"self._get_raw({sn}, {sv}).schema" for x in walk_local(n.stmt))]
    noname = mq.tests(f"not {sn}", f"{sn} == ''")
    listing = [n.idx for n in gq.nodes if n.kind == "for" and mq.x(n.stmt.iter) in ("self.values()", "self._objs.values()")]
    ok = bool(exact) and bool(ey) and bool(noname) and mq.all_hit_before(ey, edges=exact) and all(mq.hit_before(gq.exit, nodes=ey, src_edge=e) for e in exact)
    ok = ok and mq.all_hit_before(mq.test_nodes(exact), edges=mq.neg(noname)) and bool(listing) and mq.all_hit_before(listing, edges=noname)
    rep.check(ok, "C07.R4", mfi.qual, "the exact schema's object is yielded iff it exists in a compatible version; listing everything only for an empty schema name", mfi.loc(), construct="exact-schema yield", message="MetadorMeta.query does not yield the exact schema's object exactly when _get_raw finds it / lists everything for a non-empty schema name")
    from .common import require_total

    for fq in (f"{MM}._get_raw", f"{MM}._require_schema", f"{MM}._parse_obj", f"{MM}.get", f"{MM}.__contains__", "container.wrappers.WithDefaultQueryStartNode.query", f"{I}.TOCSchemas.versions", f"{I}.TOCSchemas.children"):
        require_total(rep, ctx, "C07.R4", P.func(fq))
    cfi = P.func(f"{MM}.__contains__")
    cn = F(ctx, cfi)
    sp = cfi.params[1]
    rets = [(i, cn.x(v), cn.xe(v)) for i, v in cn.returns() if v is not None]
    okc = bool(rets) and all(t == "False" or t == f"any(True for _ in self.query({sp}))" or M.equivalent(e_, f"next(self.query({sp}), None) is not None") for i, t, e_ in rets) and any(t != "False" for i, t, e_ in rets)
    if not okc and rets:
        # the same as a loop: `for _ in self.query(schema): return True` ... `return False`
        loops = [n for n in cn.g.nodes if n.kind == "for" and cn.x(n.stmt.iter) == f"self.query({sp})" and n.stmt.body and isinstance(n.stmt.body[0], ast.Return) and isinstance(n.stmt.body[0].value, ast.Constant) and n.stmt.body[0].value.value is True and not n.stmt.orelse]
        in_loop = {id(l.stmt.body[0]) for l in loops}
        okc = len(loops) == 1 and all(t == "False" or id(cn.g.nodes[i].stmt) in in_loop for i, t, e_ in rets)
    rep.check(okc, "C07.R4", cfi.qual, "membership == query is non-empty", cfi.loc(), construct="__contains__", message="MetadorMeta.__contains__ is not `next(self.query(schema), None) is not None`")
    gfi = P.func(f"{MM}.get")
    gt = F(ctx, gfi)
    names = unpack_names(gt, f"plugin_args({gfi.params[1]}, {gfi.params[2]})")
    okg = names is not None
    if okg:
        sn, sv = names[0], names[1]
        COMPAT = f"next(self.query({sn}, {sv}), None)"
        # (a parameter whose default is None stands for None: `default=None` added like dict.get)
        a_ = gfi.node.args
        none_params = {p_.arg for p_, d_ in list(zip((a_.posonlyargs + a_.args)[len(a_.posonlyargs + a_.args) - len(a_.defaults):], a_.defaults)) + list(zip(a_.kwonlyargs, a_.kw_defaults)) if isinstance(d_, ast.Constant) and d_.value is None} - {gfi.params[2]}
        rets = [(i, v) for i, v in gt.returns() if v is not None and not (isinstance(v, ast.Constant) and v.value is None) and not (isinstance(v, ast.Name) and v.id in none_params)]
        want = f"self._parse_obj(self._require_schema({sn}, {sv}), self._get_raw({COMPAT}.name, {COMPAT}.version).node[()])"
        okg = bool(rets) and all(gt.x_at(i, v) in (want, f"cast(S, {want})") for i, v in rets)
        none = gt.tests(f"not {COMPAT}", f"{COMPAT} is None")
        okg = okg and bool(none) and all(gt.hit_before(i, edges=gt.neg(none)) for i, v in rets)
    rep.check(okg, "C07.R4", gfi.qual, "get picks a compatible stored instance and parses its bytes with the *requested* schema class", gfi.loc(), construct="get", message="MetadorMeta.get does not parse the compatible stored instance with the requested schema class")
    rfi = P.func(f"{MM}._get_raw")
    gr = F(ctx, rfi)
    sn, ver = rfi.params[1], rfi.params[2]
    STORED = f"self._objs.get({sn})"
    nov = gr.tests(f"not {ver}", f"{ver} is None")
    rets = [(i, gr.x_at(i, v)) for i, v in gr.returns() if v is not None]
    plain = [i for i, t in rets if t == STORED]
    okr = bool(nov) and bool(plain) and all(gr.hit_before(gr.g.exit, nodes=plain, src_edge=e) for e in nov) and all(t == STORED or (STORED in t and ".supports(" in t) or t == "None" for i, t in rets)
    rep.check(okr, "C07.R4", rfi.qual, "_get_raw returns the stored instance, version-filtered only if a version was requested", rfi.loc(), construct="_get_raw", message="_get_raw does not return the stored instance / applies a version filter unconditionally")
    dfi = P.func(f"{MM}.__delitem__")
    dl = F(ctx, dfi)
    names = unpack_names(dl, f"plugin_args({dfi.params[1]})")
    okd = names is not None
    if okd:
        sn = names[0]
        missing = dl.tests(f"self._get_raw({sn}) is None", f"not self._get_raw({sn})", f"{sn} not in self._objs")
        dr = dl.calls(f"self._del_raw({sn})", f"self._del_raw({sn}, _unlink=True)")
        okd = bool(dr) and dl.refuses(missing) and dl.all_hit_before(dr, nodes=dl.test_nodes(missing))
    rep.check(okd, "C07.R4", dfi.qual, "deleting a missing object raises KeyError before anything is removed", dfi.loc(), construct="__delitem__ existence", message="__delitem__ does not raise KeyError for a missing object before deleting")


def r8_tables(P, rep, ctx):
    """Two decision tables the exactness of `get` / `query` rests on: how a given object is turned into an instance of
    the requested schema, and which stored schemas count as children of a requested (name[, version])."""
    fi = P.func(f"{MM}._parse_obj")
    f = F(ctx, fi)
    sc, ob = fi.params[0], fi.params[1]
    A, C = f"isinstance({ob}, {sc})", f"isinstance({ob}, MetadataSchema)"

    def raw(d):
        """is the object raw data (str or bytes)? -- tested in one isinstance or in two"""
        whole = d.get(f"isinstance({ob}, (str, bytes))", d.get(f"isinstance({ob}, (bytes, str))"))
        if whole is not None:
            return whole
        s_, b_ = d.get(f"isinstance({ob}, str)"), d.get(f"isinstance({ob}, bytes)")
        if s_ is True or b_ is True:
            return True
        return False if s_ is False and b_ is False else None

    def spec(d):
        if d.get(A) is True:
            return ob
        if d.get(A) is False and raw(d) is True:
            return f"{sc}.parse_raw({ob})"
        if d.get(A) is False and raw(d) is False and d.get(C) is True:
            return f"{sc}.parse_obj({ob}.dict())"
        if d.get(A) is False and raw(d) is False and d.get(C) is False:
            return f"{sc}.parse_obj({ob})"
        return None

    try:
        bad = f.decision_mismatches(spec)
    except ValueError as e:
        raise AnalysisError(f"C07.R8: _parse_obj: {e}")
    rep.check(not bad, "C07.R8", fi.qual, "an instance of the schema is kept, raw data is parsed, another schema's instance is re-parsed from its dict, a dict is parsed", fi.loc(), construct="_parse_obj table",
              message=f"_parse_obj returns {[b_[1][:40] for b_ in bad[:2]]} where {[b_[2] for b_ in bad[:2]]} is due: a stored object does not come back as a validated instance of the requested schema")
    cfi = P.func(f"{I}.TOCSchemas.children")
    cf = F(ctx, cfi)
    names = unpack_names(cf, f"plugin_args({cfi.params[1]}, {cfi.params[2]})")
    if names is None:
        raise AnalysisError("C07.R8: `name, vers = plugin_args(schema, version)` not found in TOCSchemas.children")
    nm, vs = names
    okc = True
    unknown_shape = False
    try:
        cps = cf.value_paths()
    except ValueError as e:
        raise AnalysisError(f"C07.R8: children: {e}")
    seen = set()
    for lits, v, n_ in cps:
        d = dict(lits)
        given = None if f"{vs} is None" not in d else (not d[f"{vs} is None"])
        # union of the recorded child sets of the looked-up refs (refs that are not recorded contribute nothing)
        m = M.match("set().union(*filter(__p, map(self._children.get, __refs)))", v)
        refs = m["__refs"] if m is not None else None
        if refs is None:
            m2 = M.match("set().union(*__c)", v)
            c_ = m2["__c"] if m2 is not None else None
            if isinstance(c_, (ast.ListComp, ast.GeneratorExp)) and len(c_.generators) == 1 and isinstance(c_.generators[0].target, ast.Name):
                tv_ = c_.generators[0].target.id
                conds_ = [norm(x) for i_ in c_.generators[0].ifs for x in M.conjuncts(i_)]
                if norm(c_.elt) in (f"self._children[{tv_}]",) and conds_ == [f"{tv_} in self._children"]:
                    refs = c_.generators[0].iter
        if refs is None or given is None:
            unknown_shape = True  # another spelling of the union / of the version test: no verdict
            continue
        seen.add(given)
        if given:
            okc = okc and norm(refs) in (f"[schemas.PluginRef(name={nm}, version={vs})]", f"(schemas.PluginRef(name={nm}, version={vs}),)")
        else:
            okc = okc and isinstance(refs, ast.ListComp) and len(refs.generators) == 1 and norm(M.canon_collections(refs.generators[0].iter)) == "self._children" and norm(refs.elt) == norm(refs.generators[0].target) and len(refs.generators[0].ifs) == 1 and M.equivalent(refs.generators[0].ifs[0], f"{norm(refs.generators[0].target)}.name == {nm}")
    if unknown_shape:
        rep.info("C07.R8: TOCSchemas.children builds its result in a form the table does not know (no verdict)")
    rep.check(okc and (seen == {True, False} or unknown_shape), "C07.R8", cfi.qual, "children(name, version) = children of exactly that release; children(name) = children of every recorded release of that name", cfi.loc(), construct="children() table",
              message="TOCSchemas.children does not look up exactly the requested release (or, without version, every release of that name): queries for a parent schema return nodes of the wrong schemas / miss nodes")


def r6_children_index(P, rep, ctx):
    """Queries for a parent schema find child-schema objects through TOCSchemas._children: every registration must record
    the schema under *each* of its parents, whether or not the parent's entry already exists."""
    fi = P.func(f"{I}.TOCSchemas._update_parents_children")
    f = F(ctx, fi)
    g = f.g
    sr, ps = fi.params[1], fi.params[2]
    loops = [n for n in g.nodes if n.kind == "for" and f.x(n.stmt.iter) in (f"enumerate({ps})", ps)]
    ok = len(loops) == 1
    if ok:
        L = loops[0].idx
        tgt = loops[0].stmt.target
        par = norm(tgt.elts[1]) if isinstance(tgt, ast.Tuple) else norm(tgt)
        other = f.tests(f"{par} != {sr}")
        adds = f.calls(f"self._children[{par}].add({sr})")
        ok = bool(other) and bool(adds) and f.hit_before(L, nodes=adds, edges=f.neg(other), src_edge=(L, "iter"))
        init = [i for i, v, b in f.stores(f"self._children[{par}]") if norm(v) in ("set()", "set([])")]
        absent = f.tests(f"{par} not in self._children")
        ok2 = bool(init) and bool(absent) and f.all_hit_before(init, edges=absent, src=L)
        # the recorded parent chain of an ancestor first seen here is the prefix of the path up to and including it
        ix = norm(tgt.elts[0]) if isinstance(tgt, ast.Tuple) else None
        pst = [(i, g.nodes[i].stmt.value) for i, v, b in f.stores(f"self._parents[{par}]")]
        pst += [(i, c.args[1]) for i, c, b in f.call_sites(f"self._parents.setdefault({par}, __v)")]
        okp = bool(pst) and ix is not None and all(norm(v) in (f"{ps}[:{ix} + 1]", f"{ps}[0:{ix} + 1]", f"list({ps}[:{ix} + 1])") for i, v in pst) and f.hit_before(L, nodes=[i for i, v in pst], edges=f.neg(f.tests(f"{par} not in self._parents")), src_edge=(L, "iter"))
        rep.check(okp, "C07.R6", fi.qual, "an ancestor is recorded with its own parent chain (the path prefix ending in itself)", fi.loc(), construct="parents chain of ancestors",
                  message=f"_update_parents_children records the parent chain of an ancestor as {[norm(v) for i, v in pst]} instead of {ps}[: i + 1]: a container whose only object has a child schema reports a truncated parent chain for the ancestor after reopening")
    else:
        ok2 = False
    rep.check(ok, "C07.R6", fi.qual, "on every registration the schema is recorded as child of each of its parents (independent of whether the parent entry existed)", fi.loc(), construct="children index update per parent",
              message="_update_parents_children records a schema under a parent only on some iterations (e.g. only when the parent's entry is created): objects of a child schema registered after its parent are not found by queries for the parent schema")
    rep.check(ok2, "C07.R6", fi.qual, "a parent's child set is created only when absent", fi.loc(), construct="children init", message="the child set of a parent is re-initialised although present")
    # class-wide: wherever a child set is (re)created it is for a key that has none yet -- registrations made earlier
    # (e.g. a child schema loaded from disk before its parent) are never wiped
    cls_ = P.cls(f"{I}.TOCSchemas")
    for mfi in cls_.methods.values():
        if mfi.name in ("__init__",) and False:
            continue
        mf = F(ctx, mfi)
        for i, v, b in mf.stores("self._children[__k]"):
            raw = mf.g.nodes[i].stmt.value
            if not (isinstance(raw, ast.Call) and norm(raw.func) in ("set", "dict", "list") or isinstance(raw, (ast.Set, ast.List, ast.Dict))):
                continue
            k = norm(b["__k"])
            absent = mf.tests(f"{k} not in self._children")
            okk = bool(absent) and mf.hit_before(i, edges=absent)
            rep.check(okk, "C07.R6", mfi.qual, f"child set of {k} created only when absent", mfi.loc(mf.g.nodes[i].stmt), construct=f"children entry creation {norm(mf.g.nodes[i].stmt)[:60]}",
                      message=f"`{norm(mf.g.nodes[i].stmt)[:70]}` in {mfi.name} re-initialises the child set of a schema unconditionally: children recorded before (e.g. child schemas loaded from the container before their parent) are forgotten, and queries for the parent schema miss nodes carrying only the child schema")
        if mfi.name == "__init__":
            whole = [i for i, v, b in mf.stores("self._children")]
            loops_ = [n.idx for n in mf.g.nodes if n.kind == "for"]
            rep.check(bool(whole) and all(mf.all_hit_before([l_], nodes=whole) for l_ in loops_), "C07.R6", mfi.qual, "the index is created empty once, before the stored schemas are loaded", mfi.loc(), construct="children table init",
                      message="TOCSchemas.__init__ (re)creates the children table after or while loading")
    # un-registration (parents is None): the schema leaves the child sets of parents that are still used; an ancestor that is
    # itself unused and has no used child left is forgotten with its entries
    none_t = f.tests(f"{ps} is None")
    rl = [n for n in g.nodes if n.kind == "for" and isinstance(n.stmt.target, ast.Name) and f.x(n.stmt.iter) == f"self._parents[{sr}]"]
    oku = len(rl) == 1 and bool(none_t) and f.hit_before(rl[0].idx, edges=none_t) if rl else False
    if oku:
        RL, pv_ = rl[0].idx, rl[0].stmt.target.id
        used = f.tests(f"{pv_} in self._schemas")
        rem = f.calls(f"self._children[{pv_}].remove({sr})", f"self._children[{pv_}].discard({sr})")
        dp_ = f.deletes(f"self._parents[{pv_}]") + [i for i, c_, b_ in f.call_sites(f"self._parents.pop({pv_}, ___)")]
        dc_ = f.deletes(f"self._children[{pv_}]") + [i for i, c_, b_ in f.call_sites(f"self._children.pop({pv_}, ___)")]
        # "no used child left": all(c not in self._schemas for c in self._children[p])  /  not any(c in self._schemas for ..)
        orphan_edges = []
        for t in g.nodes:
            if t.kind != "test":
                continue
            a_ = f.xe_at(t.idx, t.exprs[0])
            if isinstance(a_, ast.Call) and isinstance(a_.func, ast.Name) and a_.func.id in ("all", "any") and len(a_.args) == 1 and isinstance(a_.args[0], (ast.GeneratorExp, ast.ListComp)) and len(a_.args[0].generators) == 1:
                ge = a_.args[0]
                gen = ge.generators[0]
                if norm(gen.iter) != f"self._children[{pv_}]" or gen.ifs or not isinstance(gen.target, ast.Name):
                    continue
                at_, neg_ = M.polarity(ge.elt)
                if norm(at_) != f"{gen.target.id} in self._schemas":
                    continue
                if a_.func.id == "all" and neg_:
                    orphan_edges.append((t.idx, "T"))
                elif a_.func.id == "any" and not neg_:
                    orphan_edges.append((t.idx, "F"))
        orphan = orphan_edges
        oku = (bool(used) and bool(rem) and bool(dp_) and bool(dc_) and bool(orphan)
               and f.all_hit_before(rem, edges=used, src=RL) and all(f.hit_before(RL, nodes=rem, src_edge=e) for e in used)
               and f.all_hit_before(dp_ + dc_, edges=f.neg(used), src=RL) and f.all_hit_before(dp_ + dc_, edges=orphan, src=RL)
               and all(f.hit_before(RL, nodes=dp_, src_edge=e) and f.hit_before(RL, nodes=dc_, src_edge=e) for e in orphan))
    rep.check(oku, "C07.R6", fi.qual, "un-registering removes the schema from the child sets of its used parents and forgets unused, childless ancestors", fi.loc(), construct="children index on un-registration",
              message="_update_parents_children(schema, None) does not (only) remove the schema from its used parents' child sets and drop unused ancestors without used children: stale child entries make queries for a parent schema report schemas that are no longer stored (or the index keeps growing)")
    ch = P.func(f"{I}.TOCSchemas.children")
    rep.check(any(M.match("self._children.get", x) is not None or M.match("self._children[__k]", x) is not None for x in ast.walk(ch.node)), "C07.R6", ch.qual, "children() reads the same index", ch.loc(), construct="children()", message="TOCSchemas.children does not read _children")
    # explicit start node wins over the accessor's default (query scope)
    qfi = P.func("container.wrappers.WithDefaultQueryStartNode.query")
    q = F(ctx, qfi)
    calls = q.call_sites("self.__wrapped__.query(___)")
    d = sorted({q.x_at(i, kwarg_(c, "node")) for i, c, b in calls if kwarg_(c, "node") is not None})
    rep.check(bool(calls) and all(kwarg_(c, "node") is not None for i, c, b in calls) and set(d) <= {"node or self._self_query_start_node", "self._self_query_start_node if node is None else node", "node if node is not None else self._self_query_start_node", "node"} and ("node" not in d or _start_default(q)), "C07.R6", qfi.qual, "an explicitly passed start node takes precedence over the accessor's own node", qfi.loc(), construct=f"node = {d}",
              message=f"node-level query computes its start node as {d}: an explicitly requested start node is ignored and results come from the wrong subtree")


def kwarg_(c, name):
    for k in c.keywords:
        if k.arg == name:
            return k.value
    return None


def _start_default(q) -> bool:
    """`node` is the parameter itself when given, the accessor's node otherwise"""
    defs = [v for k, v in local_defs(q.fi).get("node", []) if v is not None]
    return [norm(v) for v in defs] in (["node or self._self_query_start_node"], ["self._self_query_start_node if node is None else node"], ["node if node is not None else self._self_query_start_node"]) or (not defs and False) or (
        bool(q.tests("node is None", "not node")) and any(norm(v) == "self._self_query_start_node" for v in defs))


def r5_fresh_view(P, rep, ctx, rule="C07.R5"):
    fi = P.func("container.wrappers.MetadorNode.meta")
    f = F(ctx, fi)
    rets = [f.x(v) for _, v in f.returns() if v is not None]
    stores = [st for st in walk_local(fi.node) if isinstance(st, ast.stmt) for k, t in store_targets(st) if norm(t).startswith("self.")]
    rep.check(rets == ["MetadorMeta(self)"] and not stores, rule, fi.qual, "node.meta builds a fresh view of the stored metadata on every access", fi.loc(), construct=f"meta returns {rets}",
              message=f"node.meta does not construct a fresh MetadorMeta(self) per access ({rets}{', caches in ' + norm(stores[0]) if stores else ''}): a kept node handle does not see objects attached/deleted through another handle and accepts a second object per schema")
    ifi = P.func(f"{MM}.__init__")
    it = F(ctx, ifi)
    loops = [n for n in it.g.nodes if n.kind == "for" and it.x(n.stmt.iter) in ("cast(H5GroupLike, self._mc.__wrapped__.get(self._base_dir, {})).values()", "self._mc.__wrapped__.get(self._base_dir, {}).values()") and isinstance(n.stmt.target, ast.Name)]
    ok = len(loops) == 1
    if ok:
        L = loops[0].idx
        on = loops[0].stmt.target.id
        st = [(i, v, b) for i, v, b in it.stores("self._objs[__k]")]
        ok = bool(st) and all(it.x_at(i, b["__k"]) == f"StoredMetadata.from_node({on}).schema.name" and it.x_at(i, v) == f"StoredMetadata.from_node({on})" for i, v, b in st) and it.hit_before(L, nodes=[i for i, v, b in st], src_edge=(L, "iter")) and it.hit_before(it.g.exit, nodes=[L])
    rep.check(ok, rule, ifi.qual, "the view's index is loaded from the node's metadata group", ifi.loc(), construct="MetadorMeta.__init__ load",
              message="MetadorMeta.__init__ does not load the stored objects of the node's metadata group into _objs (keyed by schema name)")
