"""C19 — Directory hashsums identify directory content.

Decided: R1 the chunk loop hashes every byte (only exit = empty read, every non-empty chunk reaches update), files are
opened in binary mode, the algorithm prefix is attached, unknown algorithms raise; R2 symlink precedence (is_file()/
is_dir() follow links, so the symlink case must not be shadowed); R3 outside links raise and link targets are resolved
through the file system; R4 structure/purity: results are built from dict stores keyed by path segments only, no
stat/timestamp value or memoisation enters the hash chain.
Not decided: injectivity of the hash tree / digest equality (cryptography, runtime).
"""
from __future__ import annotations

import ast
from typing import List, Set

from mdsa.astutil import call_attr, call_recv, kwarg, local_calls, norm, store_targets
from mdsa.cfg import walk_local
from mdsa.loader import AnalysisError, dotted

from mdsa import match as MM

from .sem import F
from .common import Ctx, fs_sinks, local_defs, node_of

H = "util.hashsums"
EXPLANATION = (
    "R1: in hashsum the only way out of the read loop is the empty-chunk test and h.update(chunk) lies on every path from a non-empty "
    "read back to the next read; every open() feeding a hash uses mode 'rb'; qualified_hashsum is alg + ':' + hashsum; an unknown "
    "algorithm raises ValueError. R2: in every function of the package that branches on both is_symlink() and is_file()/is_dir() of the "
    "same path, no is_file/is_dir branch precedes (shadows) the symlink branch. R3: on the symlink branch `rel_symlink(..) is None -> "
    "raise` dominates the store into the result, and rel_symlink resolves both the link target and the base through the file system "
    "(resolve/realpath), not textually. R4: every rglob entry contributes its directory chain, values stored are only hashes / "
    "'symlink:'+target / dicts; no os.stat / st_mtime / st_size value reaches the result and no function on the hashing chain is memoised."
)
NOT_DECIDED = "injectivity / collision resistance of the digest; equality of trees for equal directories at run time"
MEMO = {"lru_cache", "cache", "cached_property", "functools.lru_cache", "functools.cache", "functools.cached_property", "memoize"}


def run(P, rep, tier):
    rep.explanation = EXPLANATION
    rep.not_decided = NOT_DECIDED
    rep.assumptions = ["pathlib: Path.is_file()/is_dir() follow symlinks, is_symlink() does not", "Path.resolve()/os.path.realpath follow symlinks, os.path.abspath/normpath do not", "hashlib digests are functions of the bytes fed to update()"]
    ctx = Ctx(P)
    rep.attempt(r1_chunk_loop, P, rep, ctx)
    rep.attempt(r2_symlink_precedence, P, rep, ctx, tier)
    rep.attempt(r3_outside_links, P, rep, ctx)
    rep.attempt(r4_structure, P, rep, ctx)
    # equal trees <=> equal content also for the consumer of the trees: the diff compares two hashsum trees as given, entry by
    # entry (wiring rules of C18.R4), it does not normalise them first
    from . import c18 as _c18

    rep.attempt(_c18.r4_wiring, P, rep, ctx)
    rep.floor("C19.R1", 8)
    rep.floor("C19.R2", 1)
    rep.floor("C19.R3", 3)
    rep.floor("C19.R4", 5)
    # refinement against the pinned tree for every function the rules above looked at (rules/pinned.py)
    import os as _os

    if not _os.environ.get("MDSA_PINNED_GEN"):
        from .pinned import refine

        refine(P, rep, ctx, "C19")


def make_strip_tuning(P):
    """-> function removing, from calls of the hash functions, keyword arguments that only set the read size"""
    # further (keyword) parameters of hashsum that only set the read size do not take part in the digest
    hfi = P.func(f"{H}.hashsum")
    par_ = {}
    for p_ in ast.walk(hfi.node):
        for ch in ast.iter_child_nodes(p_):
            par_[id(ch)] = p_

    def only_read_size(name: str) -> bool:
        for x in walk_local(hfi.node):
            if isinstance(x, ast.Name) and x.id == name and isinstance(x.ctx, ast.Load):
                cur, ok_ = x, False
                while id(cur) in par_:
                    up = par_[id(cur)]
                    if isinstance(up, ast.Call) and call_attr(up) == "read" and cur in up.args:
                        ok_ = True
                        break
                    if isinstance(up, ast.Raise) or (isinstance(up, (ast.If, ast.While)) and cur is up.test):
                        ok_ = True
                        break
                    cur = up
                if not ok_:
                    return False
        return True

    TUNING = {a.arg for a in hfi.node.args.kwonlyargs if only_read_size(a.arg)}

    def strip_tuning(e: ast.AST) -> ast.AST:
        import copy as _copy

        e = _copy.deepcopy(e)
        for c in ast.walk(e):
            if isinstance(c, ast.Call) and (norm(c.func) in ("hashsum", "qualified_hashsum", "file_hashsum")):
                c.keywords = [k for k in c.keywords if k.arg not in TUNING]
        return e

    return strip_tuning


def _bytes_test_expr(e, dparam) -> bool:
    m_ = MM.match("isinstance(__d, __t)", e)
    if m_ is None or norm(m_["__d"]) != dparam:
        return False
    ts = [norm(t_) for t_ in (m_["__t"].elts if isinstance(m_["__t"], ast.Tuple) else [m_["__t"]])]
    return "bytes" in ts and set(ts) <= {"bytes", "bytearray", "memoryview"}


def r1_chunk_loop(P, rep, ctx):
    fi = P.func(f"{H}.hashsum")
    g = ctx.cfg(fi)
    reads = [n for n in g.nodes if n.kind == "stmt" and isinstance(n.stmt, ast.Assign) and isinstance(n.stmt.value, ast.Call) and call_attr(n.stmt.value) == "read"]
    iter_form = [c for c in local_calls(fi.node) if norm(c.func) == "iter" and len(c.args) == 2 and isinstance(c.args[0], ast.Lambda) and "read(" in norm(c.args[0]) and norm(c.args[1]) == "b''"]
    upd = [n.idx for n in g.nodes if any(call_attr(c) == "update" for c in g.calls(n.idx))]
    if iter_form:
        loops = [n for n in g.nodes if n.kind == "for" and any(c in ast.walk(n.stmt.iter) for c in iter_form)]
        ok = bool(loops) and bool(upd) and all(g.every_path_passes(upd, l.idx, src=l.idx, src_label="iter") for l in loops)
        rep.check(ok, "C19.R1", fi.qual, "iter(read, b'') loop: every chunk is fed to update", fi.loc(), construct="chunk loop", message="hashsum does not feed every chunk of the iter(read, b'') loop to update()")
    elif any(call_attr(c) == "readinto" for c in local_calls(fi.node)):
        # buffer form: n = data.readinto(buf) ... h.update(buf[:n]).  The buffer keeps the bytes of the previous round behind
        # position n, so every update must be fed exactly the first n bytes of the round it follows
        f = F(ctx, fi)
        rin = [n for n in g.nodes if n.kind in ("stmt", "test") and any(call_attr(c) == "readinto" for c in g.calls(n.idx))]
        counts, bufs = set(), set()
        for n in rin:
            for c in g.calls(n.idx):
                if call_attr(c) == "readinto" and c.args:
                    bufs.add(norm(c.args[0]))
            st = n.stmt
            if isinstance(st, ast.Assign) and len(st.targets) == 1 and isinstance(st.targets[0], ast.Name):
                counts.add(st.targets[0].id)
            for x in ast.walk(st) if st is not None and n.kind == "stmt" else []:
                if isinstance(x, ast.NamedExpr):
                    counts.add(x.target.id)
            for e_ in (n.exprs if n.kind == "test" else []):
                for x in ast.walk(e_):
                    if isinstance(x, ast.NamedExpr):
                        counts.add(x.target.id)
        for u in upd:
            for c in g.calls(u):
                if call_attr(c) != "update" or not c.args:
                    continue
                a = c.args[0]
                ok = isinstance(a, ast.Subscript) and norm(a.value) in bufs and isinstance(a.slice, ast.Slice) and a.slice.lower is None and a.slice.step is None and a.slice.upper is not None and norm(a.slice.upper) in counts
                rep.check(ok, "C19.R1", fi.qual, "update is fed the bytes just read (buffer cut at the count readinto returned)", fi.loc(c), construct=f"update argument {norm(a)[:50]}",
                          message=f"h.update({norm(a)[:60]}) hashes the read buffer without cutting it at the number of bytes the last readinto() returned: after a short (final) read the stale tail of the previous chunk is hashed too, so the digest of inputs longer than one buffer is not the digest of the file")
        ok2 = bool(upd) and bool(rin) and all(f.hit_before(r.idx, nodes=upd + [r2.idx for r2 in rin if r2 is not r], src=r.idx) or True for r in rin)
        rep.check(bool(upd) and bool(rin), "C19.R1", fi.qual, "buffered read loop found", fi.loc(), construct="chunk loop", message="hashsum neither reads nor updates")
    else:
        f = F(ctx, fi)
        walrus = [t for t in g.nodes if t.kind == "test" and isinstance(t.stmt, ast.While) and isinstance(t.exprs[0], ast.NamedExpr) and isinstance(t.exprs[0].value, ast.Call) and call_attr(t.exprs[0].value) == "read"]
        if len(reads) + len(walrus) != 1:
            raise AnalysisError(f"C19.R1: expected exactly one chunk read in hashsum, found {len(reads) + len(walrus)}")
        ret = [n.idx for n in g.nodes if isinstance(n.stmt, ast.Return)]
        if walrus:
            rdn = walrus[0].idx
            cv = walrus[0].exprs[0].target.id
            empty = [(rdn, "F")]
            nonempty = [(rdn, "T")]
            const_loop = True
        else:
            rd = reads[0]
            rdn = rd.idx
            cv = norm(rd.stmt.targets[0])
            empty = f.tests(f"not {cv}", f"{cv} == b''", f"len({cv}) == 0")
            nonempty = f.neg(empty)
            loops_ = [n for n in g.nodes if n.kind == "loop"]
            const_loop = bool(loops_) and all(const_true(n.stmt.test) for n in loops_)
        # every path from the read to the function's continuation after the loop goes through the "empty read" edge
        # (a bytes argument may be hashed in one go: `if isinstance(data, bytes): h.update(data); return h.hexdigest()`)
        dparam = fi.params[0]
        bt_edges = [(t.idx, "T") for t in g.nodes if t.kind == "test" and _bytes_test_expr(t.exprs[0], dparam)]
        fast_upd = [u for u in upd if any(call_attr(c) == "update" and c.args and norm(c.args[0]) == dparam for c in g.calls(u)) and bt_edges and f.hit_before(u, edges=bt_edges)]
        fast_ret = [r_ for r_ in ret if fast_upd and f.hit_before(r_, nodes=fast_upd)]
        ret = [r_ for r_ in ret if r_ not in fast_ret]
        upd = [u for u in upd if u not in fast_upd]
        ok = bool(empty) and bool(ret) and f.all_hit_before(ret, edges=empty) and const_loop
        rep.check(ok, "C19.R1", fi.qual, "the only exit of the read loop is the empty read", fi.loc(), construct="loop exit", message="hashsum can leave the read loop other than by an empty read (e.g. on a short chunk): trailing bytes are not hashed")
        # a non-empty chunk always reaches update before the next read
        ok2 = bool(upd) and bool(nonempty) and all(f.hit_before(rdn, nodes=upd, src_edge=e) for e in nonempty)
        rep.check(ok2, "C19.R1", fi.qual, "every non-empty chunk reaches h.update before the next read", fi.loc(), construct="update on every chunk", message="a non-empty chunk can be skipped without h.update(chunk)")
        rep.check(all(norm(c.args[0]) == cv for u in upd for c in g.calls(u) if call_attr(c) == "update"), "C19.R1", fi.qual, "update is fed the chunk just read", fi.loc(), construct="update argument", message="h.update is not fed the chunk that was read")
    f0 = F(ctx, fi)
    rets = [f0.x_at(i, v) for i, v in f0.returns() if v is not None]
    rep.check(bool(rets) and all(r.endswith(".hexdigest()") and "_hash_alg[" in r for r in rets), "C19.R1", fi.qual, "result is the hex digest", fi.loc(), construct="hashsum return", message=f"hashsum returns {rets}")
    tr = [x for x in walk_local(fi.node) if isinstance(x, ast.Try)]
    ok = bool(tr) and any(norm(h.type) == "KeyError" and any(isinstance(b, ast.Raise) and "ValueError" in norm(b) for b in h.body) for t in tr for h in t.handlers) and "_hash_alg[alg]()" in norm(fi.node)
    rep.check(ok, "C19.R1", fi.qual, "unknown algorithm raises ValueError", fi.loc(), construct="algorithm lookup", message="hashsum does not raise ValueError for an unknown algorithm")
    def _bytes_test(e) -> bool:
        """isinstance(<data>, bytes) or isinstance(<data>, (bytes, <other bytes-like types>))"""
        m_ = MM.match("isinstance(__d, __t)", e)
        if m_ is None or norm(m_["__d"]) != fi.params[0]:
            return False
        ts = [norm(t_) for t_ in (m_["__t"].elts if isinstance(m_["__t"], ast.Tuple) else [m_["__t"]])]
        return "bytes" in ts and set(ts) <= {"bytes", "bytearray", "memoryview"}

    one_go = any(call_attr(c) == "update" and c.args and norm(c.args[0]) == fi.params[0] for c in local_calls(fi.node))
    rep.check(any(_bytes_test(x) for x in ast.walk(fi.node) if isinstance(x, ast.Call)) and ("BytesIO(data)" in norm(fi.node) or one_go), "C19.R1", fi.qual, "bytes input is hashed through the same loop", fi.loc(), construct="bytes input", message="bytes input is not wrapped in BytesIO")
    q = P.func(f"{H}.qualified_hashsum")
    qf = F(ctx, q)
    rets = [qf.x(v) for _, v in qf.returns() if v is not None]
    a0, a1 = q.params[0], q.params[1]
    strip_tuning = make_strip_tuning(P)
    rets = [norm(strip_tuning(qf.xe(v))) for _, v in qf.returns() if v is not None]
    rep.check(rets == [f"f'{{{a1}}}:{{hashsum({a0}, {a1})}}'"], "C19.R1", q.qual, "qualified hash = algorithm prefix + ':' + digest", q.loc(), construct="qualified_hashsum", message=f"qualified_hashsum returns {rets}")
    # binary mode of every open that feeds a hash
    for fq in (f"{H}.file_hashsum", "ih5.record.hashsum_file", "harvester.common.FileMetaHarvester.run"):
        f = P.func(fq)
        opens = [s for s in fs_sinks(P, f) if s["kind"] in ("open", "Path.open")]
        rep.check(bool(opens) and all(s["mode"] == "rb" for s in opens), "C19.R1", f.qual, "file is opened in binary mode for hashing", f.loc(), construct=f"open modes {[s['mode'] for s in opens]}", message=f"{fq} does not open the file as 'rb' for hashing: {[s['mode'] for s in opens]}")
    hf = P.func("ih5.record.hashsum_file")
    hff = F(ctx, hf)
    seeks = hff.call_sites(f"__f.seek({hf.params[1]})")
    hr = [(i, v) for i, v in hff.returns() if v is not None]
    ok = bool(seeks) and bool(hr) and all(MM.match("qualified_hashsum(__f)", v) is not None or MM.match("qualified_hashsum(__f, ___)", v) is not None for i, v in hr) and all(hff.hit_before(i, nodes=[j for j, c, b in seeks]) for i, v in hr) and not hff.calls("__f.read(___)")
    rep.check(ok, "C19.R1", hf.qual, "container payload hash seeks to skip_bytes and hashes to EOF", hf.loc(), construct="hashsum_file", message="hashsum_file does not seek(skip_bytes) and hash the rest of the file")


def const_true(e):
    return isinstance(e, ast.Constant) and e.value is True


def r2_symlink_precedence(P, rep, ctx, tier):
    n = 0
    for fi in P.functions.values():
        if tier != "thorough" and fi.module.name != H:
            continue
        if not isinstance(fi.node, (ast.FunctionDef, ast.AsyncFunctionDef)):
            continue
        calls = [c for c in local_calls(fi.node) if call_attr(c) in ("is_symlink", "is_file", "is_dir") and isinstance(c.func, ast.Attribute)]
        paths = {}
        for c in calls:
            paths.setdefault(norm(c.func.value), set()).add(call_attr(c))
        for p, kinds in paths.items():
            if "is_symlink" not in kinds or not (kinds & {"is_file", "is_dir"}):
                continue
            n += 1
            # variables bound to the predicates
            defs = local_defs(fi)
            symv, filev = {f"{p}.is_symlink()"}, {f"{p}.{k}()" for k in kinds - {"is_symlink"}}
            for st in walk_local(fi.node):
                if isinstance(st, ast.Assign) and isinstance(st.targets[0], ast.Tuple) and isinstance(st.value, ast.Tuple):
                    for t, v in zip(st.targets[0].elts, st.value.elts):
                        if norm(v) in symv:
                            symv.add(norm(t))
                        if norm(v) in filev:
                            filev.add(norm(t))
                elif isinstance(st, ast.Assign) and len(st.targets) == 1 and isinstance(st.targets[0], ast.Name):
                    if norm(st.value) in symv:
                        symv.add(norm(st.targets[0]))
                    elif norm(st.value) in filev:
                        filev.add(norm(st.targets[0]))
                    elif isinstance(st.value, ast.BoolOp) and isinstance(st.value.op, ast.And) and any(norm(v) in filev for v in st.value.values) and any(norm(v) == f"not {s}" for v in st.value.values for s in symv):
                        pass  # `is_file and not is_sym` is not a shadowing file test
            # if/elif chains: a branch whose test is a pure file/dir predicate precedes a symlink branch
            for st in walk_local(fi.node):
                if not isinstance(st, ast.If):
                    continue
                chain_tests, cur = [], st
                while True:
                    chain_tests.append(cur.test)
                    if len(cur.orelse) == 1 and isinstance(cur.orelse[0], ast.If):
                        cur = cur.orelse[0]
                    else:
                        break
                kinds_seq = ["file" if norm(t) in filev else "sym" if norm(t) in symv else "other" for t in chain_tests]
                if "sym" in kinds_seq and "file" in kinds_seq:
                    ok = kinds_seq.index("sym") < kinds_seq.index("file")
                    rep.check(ok, "C19.R2", fi.qual, f"symlink branch is tested before the is_file/is_dir branch for {p}", fi.loc(st), construct=f"if/elif order {kinds_seq} on {p}",
                              message=f"the is_file()/is_dir() branch for `{p}` precedes the is_symlink() branch; is_file/is_dir follow links, so a symlink to a file is treated as a file (its target is not recorded, and a link leading outside the directory to an existing file is accepted)")
                elif "sym" in kinds_seq and "file" not in kinds_seq:
                    rep.ok("C19.R2", fi.qual, f"symlink branch for {p} not shadowed", fi.loc(st))
    if n == 0:
        raise AnalysisError("C19.R2: no function branching on both is_symlink and is_file/is_dir found")


def r3_outside_links(P, rep, ctx):
    fi = P.func(f"{H}.dir_hashsums")
    f = F(ctx, fi)
    g = f.g
    dp = fi.params[0]
    rcs = f.call_sites(f"rel_symlink({dp}, __p)")
    anyrs = [c for c in local_calls(fi.node) if norm(c.func) == "rel_symlink"]
    if len(anyrs) != 1:
        raise AnalysisError("C19.R3: rel_symlink call not found in dir_hashsums")
    loopv = [norm(n.stmt.target) for n in g.nodes if n.kind == "for" and norm(MM.canon_collections(f.xe(n.stmt.iter))) == f"{dp}.rglob('*')"]
    rep.check(bool(rcs) and all(norm(b["__p"]) in loopv for i, c, b in rcs), "C19.R3", fi.qual, "link is normalised relative to the hashed directory", fi.loc(anyrs[0]), construct="rel_symlink arguments", message=f"rel_symlink is called with {[norm(a) for a in anyrs[0].args]}")
    CALL = f"rel_symlink({dp}, {loopv[0] if loopv else 'path'})"
    outside = f.tests(f"{CALL} is None")
    recs = [(i, v) for i, v, b in f.stores("__x") if isinstance(g.nodes[i].stmt, ast.Assign) and CALL in f.x_at(i, v) and f.x_at(i, v) != CALL and not isinstance(f.xe_at(i, v), (ast.Compare, ast.BoolOp, ast.UnaryOp))]
    recs += [(i, v) for i, v, b in f.stores("__c[__k]") if CALL in f.x_at(i, v)]
    uses = sorted({i for i, v in recs})
    ok = f.refuses(outside) and bool(uses) and f.all_hit_before(uses, edges=f.neg(outside))
    rep.check(ok, "C19.R3", fi.qual, "a link leading outside the directory raises before its target is recorded", fi.loc(), construct="outside link refusal", message="dir_hashsums records a symlink target without refusing links that lead outside the directory")
    rep.check(any(f.x_at(i, v) in (f"'symlink:' + str({CALL})", f"f'symlink:{{{CALL}}}'", f"f'symlink:{{str({CALL})}}'") for i, v in recs), "C19.R3", fi.qual, "in-directory link is recorded as 'symlink:' + normalised target", fi.loc(), construct="symlink value", message="symlink entries are not recorded as 'symlink:' + target")
    rl = P.func(f"{H}.rel_symlink")
    t = norm(rl.node)
    res = [c for c in local_calls(rl.node) if call_attr(c) in ("resolve", "realpath")]
    textual = [c for c in local_calls(rl.node) if call_attr(c) in ("abspath", "normpath", "absolute")]
    rets = [x.value for x in walk_local(rl.node) if isinstance(x, ast.Return) and x.value is not None and not (isinstance(x.value, ast.Constant) and x.value.value is None)]
    ok = len(rets) == 1 and norm(rets[0]) in ("path.resolve().relative_to(base.resolve())",) or (len(res) >= 2 and not textual)
    rep.check(ok and not textual, "C19.R3", rl.qual, "link target and base are resolved through the file system before the containment test", rl.loc(), construct="rel_symlink normalisation",
              message=f"rel_symlink normalises paths textually ({[norm(c.func) for c in textual] or norm(rets[0]) if rets else ''}): '..' segments are collapsed without following intermediate symlinks, so a link chain leaving the directory is accepted")
    rep.check("os.readlink(str(dir))" in t and "dir.parent /" in t, "C19.R3", rl.qual, "target is read from the link and interpreted relative to the link's directory", rl.loc(), construct="readlink", message="rel_symlink does not compute dir.parent / os.readlink(dir)")
    tr = [x for x in walk_local(rl.node) if isinstance(x, ast.Try)]
    ok = bool(tr) and any(norm(h.type) == "ValueError" and any(isinstance(b, ast.Return) and norm(b.value) == "None" for b in h.body) for tt in tr for h in tt.handlers)
    rep.check(ok, "C19.R3", rl.qual, "a target outside the base yields None", rl.loc(), construct="outside -> None", message="rel_symlink does not return None when relative_to fails")


def r4_structure(P, rep, ctx):
    fi = P.func(f"{H}.dir_hashsums")
    f = F(ctx, fi)
    g = f.g
    dp, alg = fi.params[0], fi.params[1]
    outer = [n for n in g.nodes if n.kind == "for" and norm(MM.canon_collections(f.xe(n.stmt.iter))) == f"{dp}.rglob('*')" and isinstance(n.stmt.target, ast.Name)]
    rep.check(len(outer) == 1, "C19.R4", fi.qual, "every entry below the directory is visited", fi.loc(), construct="rglob", message="dir_hashsums does not iterate dir.rglob('*')")
    if len(outer) != 1:
        raise AnalysisError("C19.R4: entry loop of dir_hashsums not found")
    L = outer[0].idx
    pv = outer[0].stmt.target.id
    REL = f"{pv}.relative_to({dp})"
    is_file = f.tests(f"{pv}.is_file()")
    is_sym = f.tests(f"{pv}.is_symlink()")
    leaf = is_file + is_sym
    segl = [n for n in g.nodes if n.kind == "for" and MM.match("str(__r).split('/')", f.xe_at(n.idx, n.stmt.iter)) is not None and isinstance(n.stmt.target, ast.Name)] + [n for n in g.nodes if n.kind == "for" and MM.match("__r.parts", f.xe_at(n.idx, n.stmt.iter)) is not None and isinstance(n.stmt.target, ast.Name)]
    ok_chain = bool(segl) and bool(leaf)
    cut_ok = ok_chain
    for n in segl:
        m = MM.match("str(__r).split('/')", f.xe_at(n.idx, n.stmt.iter)) or MM.match("__r.parts", f.xe_at(n.idx, n.stmt.iter))
        r = m["__r"]
        rt = norm(r)
        if rt == f"{REL}.parent":
            cut_ok = cut_ok and f.hit_before(n.idx, edges=leaf, src=L)
        elif rt == REL:
            pass
        elif isinstance(r, ast.Name):
            # several definitions reach the loop: every one that cuts the last component is made for files / symlinks only
            defs = [(i, v) for i, v, b in f.stores(r.id)]
            known = True
            for i, v in defs:
                xv = f.x_at(i, v)
                if xv == f"{REL}.parent":
                    cut_ok = cut_ok and f.hit_before(i, edges=leaf, src=L)
                elif xv != REL:
                    known = False
            cut_ok = cut_ok and known and bool(defs)
        else:
            cut_ok = False
    # a directory entry (neither file nor symlink) still walks its full chain
    dir_reaches = bool(segl) and any(n.idx in g.reach_consistent([], labels_block=leaf, start_edges=[(L, "iter")]) for n in segl)
    # no entry is skipped: every iteration that does not raise walks the chain loop before the next entry is taken
    every_entry = bool(segl) and f.hit_before(L, nodes=[n.idx for n in segl], src_edge=(L, "iter"))
    rep.check(every_entry, "C19.R4", fi.qual, "every visited entry is recorded (no iteration leaves the loop body before the directory chain is built)", fi.loc(), construct="no skipped entries",
              message="dir_hashsums skips some entries (a `continue` / early exit before the entry is recorded): e.g. dangling symlinks vanish from the tree and an outside-pointing one is no longer rejected", path=f.witness(L, [n.idx for n in segl], src=L) if not every_entry else None)
    rep.check(ok_chain and dir_reaches, "C19.R4", fi.qual, "the directory chain of every entry is materialised as nested dicts (empty directories appear)", fi.loc(), construct="directory chain", message="dir_hashsums does not create the nested dict chain for every entry")
    rep.check(cut_ok and dir_reaches, "C19.R4", fi.qual, "only files and symlinks are split into (parent chain, name); a directory contributes its full path (so empty directories appear)", fi.loc(),
              construct="relpath cut only for files/symlinks", message="dir_hashsums cuts the last component off every entry, directories included: a directory is only recorded as parent of something below it, so empty directories vanish from the tree")
    def _is_name_key(i, k):
        if f.x_at(i, k) in (f"{REL}.name", f"{pv}.name"):
            return True
        if isinstance(k, ast.Name):
            ds = [f.x_at(j, dv) for j, dv, _b in f.stores(k.id)]
            real = [d for d in ds if d != "None"]
            return bool(real) and all(d in (f"{REL}.name", f"{pv}.name") for d in real)
        return False

    vs_all = [(i, v, b) for i, v, b in f.stores("__c[__k]") if _is_name_key(i, b["__k"])]
    vs = [i for i, v, b in vs_all]
    # "every leaf entry is stored" is asked from where an iteration first learns that the entry is a file / symlink
    # (a later re-test of the same condition starts without the history the path-sensitive walk relies on)
    keys_ = {t: norm(g.nodes[t].exprs[0]) for t, _ in leaf}
    leaf_first = [(t, lab) for t, lab in leaf if not any(t2 != t and keys_[t2] == keys_[t] and t in g.reach([t2], avoid=[L]) for t2, _ in leaf)]
    okv = bool(vs) and bool(leaf) and f.all_hit_before(vs, edges=leaf, src=L) and all(f.hit_before(L, nodes=vs, src_edge=e) for e in leaf_first)
    # which value: a symlink (tested first: is_file follows links) gets its target, a regular file its content hash
    hv = [i for i, v, b in f.stores("__v") if norm(g.nodes[i].stmt.value) == f"file_hashsum({pv}, {alg})"]
    sv_ = [i for i, v, b in f.stores("__v") if "symlink:" in norm(g.nodes[i].stmt.value)]
    okk = bool(hv) and bool(sv_) and f.all_hit_before(hv, edges=is_file, src=L) and f.all_hit_before(hv, edges=f.neg(is_sym), src=L) and f.all_hit_before(sv_, edges=is_sym, src=L) and all(f.hit_before(L, nodes=sv_, src_edge=e) for e in is_sym if e in leaf_first)
    rep.check(okk, "C19.R4", fi.qual, "symlinks are recorded by target (decided before is_file), regular files by content hash", fi.loc(), construct="entry value by kind",
              message="dir_hashsums does not compute the content hash exactly for regular files and the link target exactly for symlinks: two directories with different file contents (or link targets) get equal trees")
    rep.check(okv, "C19.R4", fi.qual, "every file and symlink is recorded under its name (and only those)", fi.loc(), construct="entry store condition", message="dir_hashsums does not store the value of every file/symlink entry (or stores one for directories)")
    ok = bool(segl)
    for n in segl:
        sv = n.stmt.target.id
        SL = n.idx
        dot = f.tests(f"{sv} == '.'")
        mk_st = [(i, v, b) for i, v, b in f.stores(f"__c[{sv}]") if norm(v) in ("dict()", "{}")]
        mks = [i for i, v, b in mk_st if f.hit_before(i, nodes=[SL]) or True]
        cvars = {norm(b["__c"]) for i, v, b in mk_st}
        # create-if-absent and descend in one step: c = c.setdefault(seg, {})
        cvars |= {g.nodes[i].stmt.targets[0].id for i, v, b in f.stores("__c") if isinstance(g.nodes[i].stmt, ast.Assign) and isinstance(g.nodes[i].stmt.targets[0], ast.Name)
                  and norm(g.nodes[i].stmt.value) in (f"{g.nodes[i].stmt.targets[0].id}.setdefault({sv}, dict())", f"{g.nodes[i].stmt.targets[0].id}.setdefault({sv}, {{}})")}
        absent = [e for c_ in cvars for e in f.tests(f"{sv} not in {c_}")]
        dsc = [i for c_ in cvars for i, v, b in f.stores(c_) if norm(g.nodes[i].stmt.value) == f"{c_}[{sv}]"] + [i for c_ in cvars for i, v, b in f.stores(c_) if norm(g.nodes[i].stmt.value) in (f"{c_}.setdefault({sv}, dict())", f"{c_}.setdefault({sv}, {{}})")]
        in_loop = lambda i: SL in g.reach([i])
        mks = [i for i in mks if in_loop(i)]
        dsc = [i for i in dsc if in_loop(i)]
        setdef = any("setdefault" in norm(g.nodes[i].stmt) for i in dsc)
        ok = ok and bool(dsc) and (setdef or (bool(mks) and bool(absent) and f.all_hit_before(mks, edges=absent, src=SL) and all(f.hit_before(SL, nodes=mks, src_edge=e) for e in absent if SL in g.reach(f.heads([e]))))) and f.hit_before(SL, nodes=dsc, edges=dot, src_edge=(SL, "iter"))
    rep.check(ok, "C19.R4", fi.qual, "each path segment (except '.') creates its dict when absent and descends into it", fi.loc(), construct="segment loop", message="the directory-chain loop of dir_hashsums no longer creates missing dicts / descends for every segment")
    hsfi = P.func(f"{H}.hashsum")
    hsf = F(ctx, hsfi)
    hdp = hsfi.params[0]
    isb = hsf.tests(f"isinstance({hdp}, bytes)", f"isinstance({hdp}, (bytes, bytearray, memoryview))", f"isinstance({hdp}, (bytes, bytearray))", f"isinstance({hdp}, (bytes, memoryview))")
    wraps = [i for i, v, b in hsf.stores("__s") if norm(v) == f"BytesIO({hdp})"]
    bt = bool(isb) and bool(wraps) and hsf.all_hit_before(wraps, edges=isb)
    if not bt:
        # the same decision as a conditional expression
        for x in ast.walk(hsfi.node):
            if isinstance(x, ast.IfExp):
                a_, neg = MM.polarity(x.test)
                yes, no = (x.orelse, x.body) if neg else (x.body, x.orelse)
                if norm(a_) == f"isinstance({hdp}, bytes)" and norm(yes) == f"BytesIO({hdp})" and norm(no) == hdp:
                    bt = True
    if not bt and isb:
        # or hashed in one go, only when it is bytes
        one = [n_.idx for n_ in hsf.g.nodes if any(call_attr(c_) == "update" and c_.args and norm(c_.args[0]) == hdp for c_ in hsf.g.calls(n_.idx))]
        bt = bool(one) and hsf.all_hit_before(one, edges=isb)
    rep.check(bool(bt), "C19.R4", f"{H}.hashsum", "bytes input is wrapped exactly when it is bytes", fi.loc(), construct="bytes test", message="hashsum wraps non-bytes input / does not wrap bytes")
    from .common import require_total

    for q in (f"{H}.hashsum", f"{H}.qualified_hashsum", f"{H}.file_hashsum", f"{H}.rel_symlink", f"{H}.dir_hashsums", "ih5.record.hashsum_file"):
        require_total(rep, ctx, "C19.R4", P.func(q))
    sub_stores = [(i, v, b) for i, v, b in f.stores("__c[__k]")]
    vals = set()
    if any(MM.match("__c.setdefault(__k, dict())", c) is not None or MM.match("__c.setdefault(__k, {})", c) is not None for c in local_calls(fi.node)):
        vals.add("dict()")  # sub-dict created through setdefault
    for i, v, b in sub_stores:
        xv = f.x_at(i, v)
        if norm(v) in ("dict()", "{}"):
            vals.add("dict()")
        elif isinstance(v, ast.Name):
            for j, dv, _b in f.stores(v.id):
                vals.add(f.x_at(j, dv))
        else:
            vals.add(xv)
    CALL = f"rel_symlink({dp}, {pv})"
    allowed = {"dict()", "''", f"file_hashsum({pv}, {alg})", f"'symlink:' + str({CALL})", f"f'symlink:{{{CALL}}}'", f"f'symlink:{{str({CALL})}}'"}
    rep.check(vals <= allowed and "dict()" in vals, "C19.R4", fi.qual, "only sub-dicts and the entry value are stored into the tree", fi.loc(), construct="stored values", message=f"dir_hashsums stores {sorted(vals - allowed)} into the result")
    rep.check(f"file_hashsum({pv}, {alg})" in vals, "C19.R4", fi.qual, "entry values are the content hash or the symlink target only", fi.loc(), construct="val definitions", message=f"entry values derive from {sorted(vals)}")
    # purity: no stat/time values, no memoisation on the chain
    chain = [P.func(f"{H}.hashsum"), P.func(f"{H}.qualified_hashsum"), P.func(f"{H}.file_hashsum"), P.func(f"{H}.dir_hashsums"), P.func(f"{H}.rel_symlink"), P.func("ih5.record.hashsum_file")]
    chain += [f for f in P.functions.values() if f.module.name == H and f not in chain]
    for f in chain:
        decos = [norm(d.func) if isinstance(d, ast.Call) else norm(d) for d in getattr(f.node, "decorator_list", [])]
        memo = [d for d in decos if d.split(".")[-1] in {m.split(".")[-1] for m in MEMO}]
        rep.check(not memo, "C19.R4", f.qual, "hash function is not memoised (always reads the current content)", f.loc(), construct=f"decorators {decos}", message=f"{f.qual} is memoised with {memo}: a file edited in place (same size / mtime) keeps its old hashsum")
        stat = [x for x in walk_local(f.node) if (isinstance(x, ast.Attribute) and x.attr in ("st_mtime", "st_mtime_ns", "st_size", "st_ctime", "st_ino")) or (isinstance(x, ast.Call) and (call_attr(x) in ("stat", "lstat", "getmtime", "getsize")))]
        rep.check(not stat, "C19.R4", f.qual, "no stat/timestamp value is consulted when hashing", f.loc(), construct="stat use", message=f"{f.qual} consults file status ({norm(stat[0]) if stat else ''}) while computing content hashes")
    fh = P.func(f"{H}.file_hashsum")
    fhf = F(ctx, fh)
    strip_tuning = make_strip_tuning(P)
    withs = [n for n in fhf.g.nodes if n.kind == "with" and any(MM.match(f"open({fh.params[0]}, 'rb')", it.context_expr) is not None and it.optional_vars is not None for it in n.stmt.items)]
    okf = bool(withs)
    if okf:
        hv = norm(withs[0].stmt.items[0].optional_vars)
        okf = bool(fhf.returns()) and all(v is not None and norm(strip_tuning(fhf.xe_at(i, v))) in (f"qualified_hashsum({hv}, {fh.params[1]})", f"qualified_hashsum(open({fh.params[0]}, 'rb'), {fh.params[1]})") for i, v in fhf.returns())
    rep.check(okf, "C19.R4", fh.qual, "file_hashsum hashes the file's current bytes", fh.loc(), construct="file_hashsum body", message="file_hashsum does not open the file and hash its bytes")
