"""C09 — Containers behave identically on plain HDF5 and on IH5 records.

Lock-step equality of two executions over all histories is not decided (the overlay semantics behind it are C01's).
Decided is the mechanism the anchors name: R1 the container code uses raw objects only through the H5*Like protocols;
R2 the IH5 classes implement every protocol member with a compatible parameter list; R3 keyword arguments the container
passes to raw calls are exactly those the IH5 implementation consumes; R4 driver dispatch is closed over the driver enum.
"""
from __future__ import annotations

import ast
from typing import Dict, List, Optional, Set

from mdsa.astutil import call_attr, call_recv, chain, kwarg, local_calls, norm
from mdsa.cfg import walk_local
from mdsa.loader import AnalysisError, NoFold

from .c08 import protocol_members
from mdsa import match as M

from .sem import F
from .common import Ctx, local_defs
from .wrapmodel import W, factory_uses, is_raw_expr

I = "container.interface"
DR = "container.drivers"
O = "ih5.overlay"
EXPLANATION = (
    "R1 layering: every attribute or method used on an expression of raw role (self.__wrapped__, self._raw, self._mc.__wrapped__, and "
    "locals/loop variables/callback parameters derived from them by protocol navigation) in container/interface.py and wrappers.py must "
    "be a member of the H5NodeLike/H5GroupLike/H5FileLike/H5DatasetLike protocols parsed from util/types.py; factory-made methods forward "
    "protocol names only. R2 EXHAUST + arity: IH5Record / IH5Group / IH5Dataset / IH5AttributeManager define every protocol member in the "
    "repo (not inherited from object) with a parameter list accepting the protocol's call shape. R3 AGREE: the keyword set of the copy "
    "call made by MetadorGroup.copy equals the set consumed (popped) by IH5Group.copy + h5_copy_from_to before their unknown-keyword raise; "
    "create_dataset(data=) is a named parameter. R4: METADOR_DRIVERS derives from the enum; get_driver_type / get_source / to_h5filelike "
    "handle every enum member or raise."
)
NOT_DECIDED = "that the same operation sequence succeeds/fails at the same steps and leaves the same data on both drivers (runtime; overlay semantics are C01's)"
MAPPING_MEMBERS = {"__getitem__", "__setitem__", "__delitem__", "__iter__", "__len__", "__contains__", "keys", "values", "items", "get"}
NODE_RETURNING = {"get", "require_group", "create_group", "create_dataset", "require_dataset", "__getitem__"}


def run(P, rep, tier):
    rep.explanation = EXPLANATION
    rep.not_decided = NOT_DECIDED
    rep.assumptions = ["h5py.File/Group/Dataset implement the protocols of util/types.py (they were derived from h5py)", "names requested through the documented pass-through __getattr__s (_self_SUPPORTED, dataset attributes) are outside the IH5 subset"]
    ctx = Ctx(P)
    rep.attempt(r1_protocol_only, P, rep, ctx)
    rep.attempt(r2_ih5_implements, P, rep, ctx)
    rep.attempt(r2b_visit_semantics, P, rep, ctx)
    rep.attempt(r3_kwargs_agree, P, rep, ctx)
    rep.attempt(r4_driver_dispatch, P, rep, ctx)
    # the IH5 driver can only behave like a plain HDF5 file if the overlay is transparent: the structural
    # necessary conditions of C01 (child resolution, deletion/substitution markers, move/copy via the overlay)
    # are part of this check as well (rule ids C01.R1/R2/R3/R6)
    from . import c01

    for fn in (c01.r1_children, c01.r2_delete_marker, c01.r3_create, c01.r4_markers, c01.r6_move_copy, c01.r7_snapshot_before_mutation, c01.r8_resolution_owner, c01.r9_handle_provenance, c01.r10_copy_into_patch_callers, c01.r12_raw_containers_stay_inside):
        rep.attempt(fn, P, rep, ctx)
    # copy semantics (what is copied, attribute switch, children) are part of the driver agreement: the IH5 copy is
    # implemented in h5_copy_from_to, the HDF5 one by h5py (rule ids C05.R4)
    from . import c05

    rep.attempt(c05.r4_copy_coverage, P, rep, ctx)
    from .common import r_path_prefix_tests

    rep.attempt(r_path_prefix_tests, P, rep, ctx, "C01.R11", {"ih5.overlay", "ih5.record"})
    rep.attempt(r_path_prefix_tests, P, rep, ctx, "C06.R11", {"container.interface", "container.wrappers"})
    # an operation that only one driver supports: rewriting a stored dataset in place (h5py allows it, an IH5 dataset of an
    # earlier patch refuses) -- the container code replaces datasets instead (rule id C06.R8)
    from . import c06

    rep.attempt(c06.r8_replace_not_rewrite, P, rep, ctx)
    # the IH5 driver finds its containers by name: a record must not pick up the files of a sibling record
    # (name-language rule of C03.R3)
    from . import c03

    rep.attempt(c03.r3_name_language, P, rep, ctx)
    # an exception inside `with container:` must not roll the session back on one driver only
    rep.attempt(c03.r7_discard_is_the_users_call, P, rep, ctx)
    # membership / listings are answered by the wrapper layer itself, segment by segment, on both drivers (C08.R3 / R6): the raw
    # containers differ in how they answer for paths that run through a dataset
    from . import c08 as _c08

    rep.attempt(_c08.r3_listings, P, rep, ctx)
    rep.attempt(_c08.r6_membership, P, rep, ctx)
    rep.floor("C09.R1", 45, "raw uses")
    rep.floor("C09.R2", 40)
    rep.floor("C09.R3", 3)
    rep.floor("C09.R4", 5)
    # refinement against the pinned tree for every function the rules above looked at (rules/pinned.py)
    import os as _os

    if not _os.environ.get("MDSA_PINNED_GEN"):
        from .pinned import refine

        refine(P, rep, ctx, "C09")


def all_protocol_members(P) -> Set[str]:
    out: Set[str] = set()
    for p in ("H5NodeLike", "H5GroupLike", "H5FileLike", "H5DatasetLike"):
        out |= set(protocol_members(P, p))
    return out


class RawTracker:
    """Which expressions of a function denote raw h5 nodes (as opposed to data / strings)."""

    def __init__(self, fi):
        self.fi = fi
        self.raw_names: Set[str] = set()
        f = fi
        # callback handed to a raw visititems: its 2nd parameter is a raw node
        if fi.parent is not None:
            for c in local_calls(fi.parent.node):
                if call_attr(c) == "visititems" and any(isinstance(a, ast.Name) and a.id == fi.name for a in c.args) and len(fi.params) >= 2:
                    rt = RawTracker(fi.parent)
                    if rt.is_raw(c.func.value):
                        self.raw_names.add(fi.params[1])
        for a in fi.node.args.args + fi.node.args.kwonlyargs:
            if a.annotation is not None and any(k in norm(a.annotation) for k in ("H5GroupLike", "H5DatasetLike", "H5FileLike", "H5NodeLike")):
                self.raw_names.add(a.arg)
        changed = True
        while changed:
            changed = False
            for st in walk_local(fi.node):
                if isinstance(st, (ast.Assign, ast.AnnAssign)) and st.value is not None:
                    tg = st.targets if isinstance(st, ast.Assign) else [st.target]
                    v = st.value
                    if isinstance(v, ast.Call) and norm(v.func) == "cast" and len(v.args) == 2:
                        v = v.args[1]
                    if self.is_raw(v):
                        for t in tg:
                            if isinstance(t, ast.Name) and t.id not in self.raw_names:
                                self.raw_names.add(t.id)
                                changed = True
                elif isinstance(st, ast.NamedExpr) and self.is_raw(st.value) and st.target.id not in self.raw_names:
                    self.raw_names.add(st.target.id)
                    changed = True
                elif isinstance(st, (ast.For, ast.comprehension)):
                    it = st.iter
                    if isinstance(it, ast.Call) and isinstance(it.func, ast.Attribute) and self.is_raw(it.func.value):
                        if it.func.attr == "values" and isinstance(st.target, ast.Name) and st.target.id not in self.raw_names:
                            self.raw_names.add(st.target.id)
                            changed = True
                        if it.func.attr == "items" and isinstance(st.target, ast.Tuple) and len(st.target.elts) == 2 and isinstance(st.target.elts[1], ast.Name) and st.target.elts[1].id not in self.raw_names:
                            self.raw_names.add(st.target.elts[1].id)
                            changed = True

    def is_raw(self, e: ast.AST) -> bool:
        if e is None:
            return False
        if isinstance(e, ast.Call) and norm(e.func) == "cast" and len(e.args) == 2:
            return self.is_raw(e.args[1])
        if isinstance(e, ast.Name):
            return e.id in self.raw_names
        if isinstance(e, ast.Attribute):
            t = norm(e)
            if t in ("self.__wrapped__", "obj.__wrapped__", "self._raw", "self._mc.__wrapped__", "self._container.__wrapped__", "self._self_container.__wrapped__"):
                return True
            if e.attr in ("parent", "file") and self.is_raw(e.value):
                return True
            if t in ("obj.node", "stored_obj.node", "self.node"):
                return True  # StoredMetadata.node is a raw dataset
            return False
        if isinstance(e, ast.Subscript):
            return self.is_raw(e.value) and norm(e.slice) != "()"
        if isinstance(e, ast.Call) and isinstance(e.func, ast.Attribute) and e.func.attr in NODE_RETURNING and self.is_raw(e.func.value):
            return True
        return False


def r1_protocol_only(P, rep, ctx):
    members = all_protocol_members(P)
    mapping = MAPPING_MEMBERS
    n = 0
    funcs = [f for f in P.functions.values() if f.module.name in (I, W) and isinstance(f.node, (ast.FunctionDef, ast.AsyncFunctionDef))]
    for fi in funcs:
        owner = fi
        while owner.parent is not None:
            owner = owner.parent
        if owner.cls is not None and owner.cls.name == "WithDefaultQueryStartNode":
            continue  # its __wrapped__ is the container TOC, not a raw h5 object
        rt = RawTracker(fi)
        for x in walk_local(fi.node):
            if isinstance(x, ast.Attribute) and rt.is_raw(x.value):
                if x.attr == "__wrapped__":
                    continue
                n += 1
                ok = x.attr in members
                rep.check(ok, "C09.R1", fi.qual, f"raw use `.{x.attr}` is a protocol member ({norm(x)[:50]})", fi.loc(x), construct=f"{norm(x)[:90]}",
                          message=f"the container code uses `{norm(x)[:80]}` on a raw object; `.{x.attr}` is not part of the H5*Like protocols, so it may exist on one driver only")
            # attribute managers: X.attrs.<m>
            if isinstance(x, ast.Attribute) and isinstance(x.value, ast.Attribute) and x.value.attr == "attrs" and rt.is_raw(x.value.value):
                n += 1
                rep.check(x.attr in mapping, "C09.R1", fi.qual, f"attribute-manager use `.attrs.{x.attr}` is a MutableMapping member", fi.loc(x), construct=norm(x)[:90], message=f"`{norm(x)[:80]}`: .{x.attr} is not part of the MutableMapping interface the protocol promises for attrs")
    for u in factory_uses(P):
        n += 1
        rep.check(u.method in members, "C09.R1", u.where, f"factory forwards protocol method {u.method}", P.module(W).relpath + f":{u.node.lineno}", construct=f"_wrap_method({u.method!r})", message=f"_wrap_method forwards {u.method!r}, which is not a protocol member")
    rep.extra_coverage["raw_uses_checked"] = n


IMPL = {"H5GroupLike": f"{O}.IH5Group", "H5FileLike": "ih5.record.IH5Record", "H5DatasetLike": f"{O}.IH5Dataset", "H5NodeLike": f"{O}.IH5Group"}


def _arity(node: ast.AST):
    a = node.args
    pos = [x.arg for x in a.posonlyargs + a.args]
    if pos and pos[0] in ("self", "cls"):
        pos = pos[1:]
    nd = len(a.defaults)
    required = len(pos) - nd
    return required, len(pos), a.vararg is not None, a.kwarg is not None


def r2_ih5_implements(P, rep, ctx):
    for proto, impl in IMPL.items():
        for m, pnode in protocol_members(P, proto).items():
            hit = P.lookup_method(impl, m)
            defined = hit is not None and (hit[0].startswith("ih5."))
            rep.check(defined, "C09.R2", impl, f"{impl.rsplit('.', 1)[-1]} implements {proto}.{m}", P.cls(impl).module.relpath, construct=f"{impl.rsplit('.', 1)[-1]}.{m}",
                      message=f"{impl} does not implement protocol member {proto}.{m}: container operations using it work on h5py but fail on IH5")
            if not defined or not hasattr(hit[1], "node") or not isinstance(pnode, (ast.FunctionDef, ast.AsyncFunctionDef)):
                continue
            is_prop = any(norm(d) == "property" for d in pnode.decorator_list)
            impl_prop = any(norm(d) == "property" for d in hit[1].node.decorator_list)
            if is_prop or impl_prop:
                rep.check(is_prop == impl_prop, "C09.R2", hit[1].qual, f"{m} is a property on both sides", hit[1].loc(), construct=f"{m} property-ness", message=f"{m} is a property in the protocol but not in {impl} (or vice versa)")
                continue
            pr, pm, pva, pkw = _arity(pnode)
            ir, im, iva, ikw = _arity(hit[1].node)
            ok = ir <= pr and (im >= pm or iva) and (not pva or iva or im > pm) and (not pkw or ikw or im > pm)
            rep.check(ok, "C09.R2", hit[1].qual, f"{m}: parameter list accepts the protocol's call shape ({pr}..{pm}{'+*' if pva else ''}{'+**' if pkw else ''})", hit[1].loc(), construct=f"{m} arity impl {ir}..{im}{'+*' if iva else ''}{'+**' if ikw else ''} vs protocol {pr}..{pm}",
                      message=f"{hit[1].qual} takes {ir}..{im} positional parameters{' +*args' if iva else ''}{' +**kwargs' if ikw else ''}, the protocol's call shape is {pr}..{pm}{' +*args' if pva else ''}{' +**kwargs' if pkw else ''}")
    am = f"{O}.IH5AttributeManager"
    for m in sorted(MAPPING_MEMBERS):
        hit = P.lookup_method(am, m)
        rep.check(hit is not None and hit[0].startswith("ih5."), "C09.R2", am, f"IH5AttributeManager implements MutableMapping.{m}", P.cls(am).module.relpath, construct=f"IH5AttributeManager.{m}", message=f"IH5AttributeManager lacks {m}")
    for q in (f"{O}.IH5Group.attrs", f"{O}.IH5Dataset.attrs"):
        f = P.func(q)
        ff = F(ctx, f)
        rep.check(bool(ff.returns()) and all(v is not None and ff.x(v) == "IH5AttributeManager(self._record, self._gpath, self._cidx)" for _, v in ff.returns()), "C09.R2", f.qual, "attrs is the overlay attribute manager of the node", f.loc(), construct="attrs", message=f"{q} does not return the overlay attribute manager")


def r2b_visit_semantics(P, rep, ctx):
    """h5py semantics of visit/visititems: stop at the first callback result that is not None (identity test)."""
    fi = P.func(f"{O}.IH5Group.visititems")
    f = F(ctx, fi)
    g = f.g
    cb = fi.params[1]
    calls = f.call_sites(f"{cb}(__p, __n)")
    rets = [(i, v) for i, v in f.returns() if v is not None]
    # every value returned is the callback's result, and it is returned exactly when it is not None
    CALLX = None
    ok = bool(calls) and bool(rets)
    if ok:
        i0, c0, b0 = calls[0]
        nvar = f.x(b0["__n"])
        CALLX = f"{cb}(self._rel_path({nvar}._gpath), {nvar})"
        stop = f.tests(f"{CALLX} is not None")
        other = [t for t in g.nodes if t.kind == "test" and any(M.match(f"{cb}(___)", x) is not None for x in walk_local(f.xe_at(t.idx, t.exprs[0]))) and t.idx not in f.test_nodes(stop)]
        ok = bool(stop) and not other and all(f.x_at(i, v) == CALLX for i, v in rets) and all(f.hit_before(i, edges=stop) for i, v in rets) and not f.reaches(stop, [n.idx for n in g.nodes if n.kind == "loop"] ) 
    shown = [norm(t.exprs[0]) for t in g.nodes if t.kind == "test" and CALLX is not None and "(" in f.x_at(t.idx, t.exprs[0]) and cb + "(" in f.x_at(t.idx, t.exprs[0])]
    rep.check(ok, "C09.R2", fi.qual, "IH5 visititems stops exactly when the callback returns something that is not None (as h5py does)", fi.loc(), construct="visititems stop test",
              message=f"IH5Group.visititems decides whether to stop with `{shown}`: h5py stops on any result that is not None, so falsy results (0, False, '') behave differently on the two drivers")
    d = sorted({f.x(c) for i, c, b in calls})
    rep.check(bool(calls) and all(f.x(b["__p"]) == f"self._rel_path({f.x(b['__n'])}._gpath)" for i, c, b in calls), "C09.R2", fi.qual, "callback receives the path relative to the visited group and the node", fi.loc(), construct=f"callback call {d}", message=f"visititems calls the callback as {d}")
    # the container's wrappers hand the user's callback result back to the raw traversal (which stops on it) and the
    # traversal's result back to the user
    for q_ in (f"{W}.MetadorGroup.visititems", f"{W}.MetadorGroup.visit"):
        wfi = P.func(q_)
        wf_ = F(ctx, wfi)
        ucb = wfi.params[1]
        inner_ok = True
        n_inner = 0
        for nf in list(wfi.nested.values()) + [x_ for x_ in ast.walk(wfi.node) if isinstance(x_, ast.Lambda)]:
            if isinstance(nf, ast.Lambda):
                calls_ = [c for c in ast.walk(nf.body) if isinstance(c, ast.Call) and isinstance(c.func, ast.Name) and c.func.id == ucb]
                if calls_:
                    n_inner += 1
                    inner_ok = inner_ok and isinstance(nf.body, ast.Call) and nf.body in calls_
                continue
            nff = F(ctx, nf)
            calls_ = nff.call_sites(f"{ucb}(___)")
            if not calls_:
                continue
            n_inner += 1
            rets_ = [v_ for _, v_ in nff.returns() if v_ is not None and not (isinstance(v_, ast.Constant) and v_.value is None)]
            inner_ok = inner_ok and bool(rets_) and all(M.match(f"{ucb}(___)", nff.xe(v_)) is not None for v_ in rets_) and all(isinstance(nff.g.nodes[i].stmt, (ast.Return, ast.Assign, ast.AnnAssign)) for i, c, b in calls_)
        outer_rets = [v_ for _, v_ in wf_.returns() if v_ is not None]
        outer_ok = bool(outer_rets) and all(isinstance(wf_.xe(v_), ast.Call) and norm(wf_.xe(v_).func).endswith((".visititems", ".visit")) for v_ in outer_rets) and not [p_ for p_ in wf_.g.pred.get(wf_.g.exit, []) if not isinstance(wf_.g.nodes[p_].stmt, ast.Return)]
        rep.check(n_inner >= 1 and inner_ok and outer_ok, "C09.R2", wfi.qual, "the wrapper passes the callback's result to the raw traversal and the traversal's result to the caller", wfi.loc(), construct=f"{wfi.name} result plumbing",
                  message=f"MetadorGroup.{wfi.name} drops the user callback's result (or the traversal's result): a callback that returns a value no longer stops the visit / the caller gets None, unlike plain h5py")
    vfi = P.func(f"{O}.IH5Group.visit")
    v = F(ctx, vfi)
    okv = False
    from .c05 import callback_form

    for _, rv in v.returns():
        m = M.match("self.visititems(__l)", v.xe(rv)) if rv is not None else None
        if m is None:
            continue
        ps, body = callback_form(v, m["__l"])
        if ps is not None and len(ps) == 2 and isinstance(body, ast.AST) and M.match(f"{vfi.params[1]}({ps[0]})", body) is not None:
            okv = True
    rep.check(okv, "C09.R2", vfi.qual, "visit is visititems on the names", vfi.loc(), construct="visit", message="IH5Group.visit is not derived from visititems")
    init = [i for i, v_, b in f.stores("__s") if f.x(v_) in ("list(reversed(self._get_children()))", "self._get_children()[::-1]")]
    push = [n.idx for n in g.nodes if n.kind == "stmt" and isinstance(n.stmt, ast.AugAssign) and isinstance(n.stmt.op, ast.Add) and M.match("reversed(__c._get_children())", n.stmt.value) is not None] + f.calls("__s.extend(reversed(__c._get_children()))")
    isgrp = f.tests("isinstance(__c, IH5Group)")
    pops = f.calls("__s.pop()")
    ok = bool(init) and bool(push) and bool(isgrp) and bool(pops) and f.all_hit_before(push, edges=isgrp) and all(f.hit_before(l, nodes=push, src_edge=e) for e in isgrp for l in [n.idx for n in g.nodes if n.kind == "loop"])
    rep.check(ok, "C09.R2", fi.qual, "pre-order traversal of all descendants in alphabetical order", fi.loc(), construct="traversal order", message="visititems does not traverse all descendants depth-first in key order")


def r3_kwargs_agree(P, rep, ctx):
    mc = P.func(f"{W}.MetadorGroup.copy")
    d = local_defs(mc)
    star = {k.value.id for c in local_calls(mc.node) if call_attr(c) == "copy" and isinstance(c.func, ast.Attribute) and "__wrapped__" in norm(c.func.value) for k in c.keywords if k.arg is None and isinstance(k.value, ast.Name)}
    ck = [v for nm_ in star for k, v in d.get(nm_, []) if v is not None]
    if len(ck) != 1 or not isinstance(ck[0], ast.Dict):
        raise AnalysisError("C09.R3: copy_kwargs literal not found")
    passed = {k.value for k in ck[0].keys if isinstance(k, ast.Constant)}
    consumed: Set[str] = set()
    for q in (f"{O}.IH5Group.copy", f"{O}.h5_copy_from_to"):
        f = P.func(q)
        for c in local_calls(f.node):
            if call_attr(c) == "pop" and norm(call_recv(c)) == "kwargs" and c.args:
                if isinstance(c.args[0], ast.Constant):
                    consumed.add(c.args[0].value)
                elif isinstance(c.args[0], ast.Name):
                    for loop in (x for x in walk_local(f.node) if isinstance(x, ast.For) and norm(x.target) == c.args[0].id and isinstance(x.iter, (ast.List, ast.Tuple))):
                        consumed |= {e.value for e in loop.iter.elts if isinstance(e, ast.Constant)}
    # the values: a deep copy that follows links, names the target explicitly (name=None) and copies attributes unless
    # asked not to -- what h5py does by default and what the IH5 implementation implements
    vals = {k.value: norm(v) for k, v in zip(ck[0].keys, ck[0].values) if isinstance(k, ast.Constant)}
    want_vals = {"name": "None", "shallow": "False", "expand_soft": "True", "expand_external": "True", "expand_refs": "True"}
    diff_vals = {k: vals.get(k) for k, w in want_vals.items() if vals.get(k) != w}
    rep.check(not diff_vals, "C09.R3", mc.qual, f"the raw copy is requested deep, link-expanding, with an explicit target name: {want_vals}", mc.loc(), construct="copy kwargs values",
              message=f"MetadorGroup.copy asks the raw copy for {diff_vals}: e.g. a shallow copy leaves out everything below the first level (and its metadata) although the user asked for a full copy")
    mcf = F(ctx, mc)
    opt = {kw: sorted({mcf.x(c) for i, c, b in mcf.call_sites(f"kwargs.pop('{kw}', ___)")}) for kw in ("without_attrs", "without_meta")}
    rep.check(all(v == [f"kwargs.pop('{kw}', False)"] for kw, v in opt.items()), "C09.R3", mc.qual, "attributes and metadata are copied unless the caller opts out (both switches default to False)", mc.loc(), construct="copy option defaults",
              message=f"MetadorGroup.copy reads its switches as {opt}: by default attributes / metadata would not be copied, unlike a plain h5py copy of the same nodes")
    nm_pops = [mcf.x(c) for i, c, b in mcf.call_sites("kwargs.pop('name', __d)")]
    rep.check(bool(nm_pops) and all(M.match("kwargs.pop('name', __s.name.split('/')[-1])", M.pat(t)) is not None for t in nm_pops), "C09.R3", mc.qual, "without an explicit name the copy is named after the last path segment of the source", mc.loc(), construct="copy default name",
              message=f"MetadorGroup.copy derives the default target name as {nm_pops}: not the last segment of the source's path")
    rep.check(passed <= consumed, "C09.R3", mc.qual, f"keywords passed to the raw copy {sorted(passed)} are all consumed by the IH5 implementation {sorted(consumed)}", mc.loc(), construct=f"copy kwargs {sorted(passed)} vs {sorted(consumed)}",
              message=f"MetadorGroup.copy passes {sorted(passed - consumed)} to the raw copy, which IH5Group.copy/h5_copy_from_to reject as unknown keyword: copy works on h5py but raises on IH5")
    h = P.func(f"{O}.h5_copy_from_to")
    hf = F(ctx, h)
    unk = hf.tests(h.params[3], f"len({h.params[3]})")
    rep.check(hf.refuses(unk), "C09.R3", h.qual, "unknown keywords are refused on IH5 (as h5py does)", h.loc(), construct="unknown kwargs refusal", message="h5_copy_from_to silently ignores unknown keywords")
    cd = P.func(f"{O}.IH5Group.create_dataset")
    rep.check("data" in cd.params and "shape" in cd.params and "dtype" in cd.params, "C09.R3", cd.qual, "create_dataset accepts data= / shape= / dtype= like h5py", cd.loc(), construct="create_dataset params", message="IH5Group.create_dataset lacks the data/shape/dtype parameters the container uses")
    # raw calls with explicit keywords made by the container
    for fi in (f for f in P.functions.values() if f.module.name in (I, W, "packer.utils")):
        for c in local_calls(fi.node):
            if call_attr(c) == "create_dataset" and c.keywords:
                kws = {k.arg for k in c.keywords if k.arg}
                rep.check(kws <= set(cd.params) | {"compression", "compression_opts"}, "C09.R3", fi.qual, f"create_dataset keywords {sorted(kws)} are accepted by IH5", fi.loc(c), construct=norm(c)[:90], message=f"{norm(c)[:80]} passes keywords IH5Group.create_dataset rejects: {sorted(kws - set(cd.params))}")


def r4_driver_dispatch(P, rep, ctx):
    en = P.cls(f"{DR}.MetadorDriverEnum")
    members = [k for k in en.attrs if not k.startswith("_")]
    if len(members) < 2:
        raise AnalysisError("C09.R4: driver enum members not found")
    m = P.module(DR)
    rep.check(norm(m.assigns.get("METADOR_DRIVERS")) == "MetadorDriverEnum.to_dict()" and norm(m.assigns.get("METADOR_DRIVER_CLASSES")) == "tuple(METADOR_DRIVERS.values())", "C09.R4", DR, "driver tables derive from the enum", m.relpath, construct="METADOR_DRIVERS", message="METADOR_DRIVERS / METADOR_DRIVER_CLASSES are not derived from MetadorDriverEnum")
    td = en.methods.get("to_dict")
    okt = False
    if td is not None:
        tf = F(ctx, td)
        for _, v in tf.returns():
            x = tf.xe(v) if v is not None else None
            if isinstance(x, ast.DictComp) and len(x.generators) == 1 and not x.generators[0].ifs and norm(x.generators[0].iter) in ("iter(cls)", "cls") and norm(x.key) == norm(x.generators[0].target) and norm(x.value) == norm(x.generators[0].target) + ".value":
                okt = True
    rep.check(okt, "C09.R4", en.qual, "to_dict covers every member", m.relpath, construct="to_dict", message="MetadorDriverEnum.to_dict does not map every member")
    gs = P.func(f"{DR}.get_source")
    gf = F(ctx, gs)
    g = gf.g
    handled = set()
    dv = gs.params[1]
    for mem in members:
        rc = gs.params[0]
        subj = [dv, f"{dv} or get_driver_type({rc})", f"get_driver_type({rc}) if {dv} is None else {dv}", f"{dv} if {dv} is not None else get_driver_type({rc})"]
        e = gf.tests(*[p_ for sj in subj for p_ in (f"({sj}) == MetadorDriverEnum.{mem}", f"({sj}) is MetadorDriverEnum.{mem}", f"MetadorDriverEnum.{mem} == ({sj})")])
        vals = [i for i, v in gf.returns() if v is not None and not (isinstance(v, ast.Constant) and v.value is None)]
        if e and all(gf.hit_before(g.exit, nodes=vals, src_edge=x) for x in e):
            handled.add(mem)
    rep.check(handled == set(members), "C09.R4", gs.qual, f"get_source handles every driver {sorted(members)}", gs.loc(), construct=f"get_source handles {sorted(handled)}", message=f"get_source has no branch for driver(s) {sorted(set(members) - handled)}: it falls through to None and the container cannot be re-opened")
    gd = P.func(f"{DR}.get_driver_type")
    df = F(ctx, gd)
    g = df.g
    ALL_DRIVERS = ("METADOR_DRIVERS.items()", "MetadorDriverEnum.to_dict().items()")
    lp = [n for n in g.nodes if n.kind == "for" and df.x(n.stmt.iter) in ALL_DRIVERS]
    # the same scan written as a comprehension / generator expression
    lp += [c for x in walk_local(gd.node) if isinstance(x, (ast.GeneratorExp, ast.ListComp)) for c in x.generators if df.x(c.iter) in ALL_DRIVERS]
    falls = [p for p in g.pred.get(g.exit, []) if not isinstance(g.nodes[p].stmt, ast.Return)]
    falls += [i for i, v in df.returns() if v is None or (isinstance(v, ast.Constant) and v.value is None)]
    if not df.raises():
        falls.append("no raise")
    rep.check(bool(lp) and not falls, "C09.R4", gd.qual, "get_driver_type checks every driver class and raises for unknown objects", gd.loc(), construct="get_driver_type", message="get_driver_type can fall through without a result")
    thf = P.func(f"{DR}.to_h5filelike")
    th = F(ctx, thf)
    obj, mode, drv = thf.params[0], thf.params[1], thf.params[2]
    known = th.tests(f"isinstance({obj}, METADOR_DRIVER_CLASSES)")
    unsupported = th.tests("not issubclass(__d, METADOR_DRIVER_CLASSES)")
    opens = [(i, c, b) for i, c, b in th.call_sites(f"__d(cast(Any, {obj}), {mode})") + th.call_sites(f"__d({obj}, {mode})")]
    rets = [(i, v) for i, v in th.returns() if v is not None]
    passthru = [i for i, v in rets if th.x_at(i, v) in (obj, f"cast(H5FileLike, {obj})")]
    opened = [i for i, c, b in opens]
    ok = (bool(known) and bool(unsupported) and bool(opens) and bool(passthru) and th.all_hit_before(passthru, edges=known) and th.refuses(unsupported) and th.all_hit_before(opened, nodes=th.test_nodes(unsupported))
          and th.all_hit_before(opened, edges=th.neg(known)) and all(th.x_at(i, b["__d"]) in (f"{drv} or h5py.File", f"h5py.File if {drv} is None else {drv}", f"{drv} if {drv} is not None else h5py.File", drv) for i, c, b in opens))
    rep.check(ok, "C09.R4", thf.qual, "objects of a known driver pass through, other inputs are opened with a supported driver class or refused", thf.loc(), construct="to_h5filelike", message="to_h5filelike does not restrict drivers to METADOR_DRIVER_CLASSES")
    rep.check(norm(en.attrs.get("IH5")) == "IH5Record" and norm(en.attrs.get("HDF5")) == "h5py.File", "C09.R4", en.qual, "drivers are h5py.File and IH5Record (IH5MFRecord is a subclass)", m.relpath, construct="enum values", message="driver enum values changed")
