"""C14 — Merging partial metadata is a lossless, associative, non-mutating monoid.

Decided (necessary conditions of the named laws): R1 value-blind merge (no truthiness test on merged values),
R2 operands are a frame (merge works on a copy, no in-place mutator on anything derived from the operands),
R3 partial-of-partial domain (get_partial(type(v)) only for non-partial v; class compatibility is tested on the
partial-normalised values), R4 conflict policy and the shapes of the None / list / set cases.
Not decided: associativity / identity laws in general (runtime algebra over all triples).
"""
from __future__ import annotations

import ast
from typing import List, Set

from mdsa.astutil import call_attr, call_recv, kwarg, local_calls, norm, store_targets
from mdsa.cfg import walk_local
from mdsa.loader import AnalysisError

from mdsa import match as MM

from .sem import F
from .common import Ctx, local_defs, node_of

PM = "schema.partial.PartialModel"
PF = "schema.partial.PartialFactory"
EXPLANATION = (
    "R1 BLIND: in _update_field / merge_with / _get_field_vals the merged values (v_old, v_new, field values) are inspected only by "
    "`is None`, isinstance and whole-value operations; any truthiness use (and/or/not operand, if/while/ternary test, bool(), "
    "filter(None,..)) is a violation — it would drop 0/False/''/[] and break the identity law. R2 FRAME: merge_with builds its result "
    "from an unconditional self.copy(), stores only into that copy, and applies no in-place mutator or augmented assignment to anything "
    "derived from the operands; lists are joined with `+` (old first), sets with union. R3: every get_partial(type(v)) is dominated "
    "by the negative branch of an isinstance(v, partial_mixin) test, and issubclass compatibility is evaluated on the partial-normalised "
    "values. R4: on the opaque-value path allow_overwrite=False raises before returning and the *new* value wins otherwise; from_partial "
    "feeds exactly _get_field_vals (recursively un-partialled) to the source model."
)
NOT_DECIDED = "associativity and identity laws over all triples of partial instances; equality of to_partial/from_partial round trips"
MUTATORS = {"append", "extend", "insert", "update", "add", "sort", "remove", "clear", "pop", "popitem", "setdefault", "discard", "reverse", "intersection_update", "difference_update", "symmetric_difference_update", "__setitem__", "__delitem__"}


def run(P, rep, tier):
    rep.explanation = EXPLANATION
    rep.not_decided = NOT_DECIDED
    rep.assumptions = ["pydantic v1: BaseModel.copy() returns a new model object with a new __dict__ (shallow)", "list + list and set.union return fresh objects"]
    ctx = Ctx(P)
    rep.attempt(r1_blind, P, rep, ctx)
    rep.attempt(r2_frame, P, rep, ctx)
    rep.attempt(r3_domain, P, rep, ctx)
    rep.attempt(r4_policy, P, rep, ctx)
    rep.attempt(r5_mergeable_shapes, P, rep, ctx)
    rep.attempt(r6_partial_fields, P, rep, ctx)
    rep.attempt(r7_harvest_order, P, rep, ctx)
    rep.attempt(r8_partial_type_hints, P, rep, ctx)
    rep.attempt(r9_partial_class_identity, P, rep, ctx)
    rep.attempt(r10_no_lossy_dumps, P, rep, ctx)
    rep.attempt(r11_no_new_module_state, P, rep, ctx)
    rep.floor("C14.R1", 6)
    rep.floor("C14.R2", 6)
    rep.floor("C14.R3", 3)
    rep.floor("C14.R4", 6)
    # refinement against the pinned tree for every function the rules above looked at (rules/pinned.py)
    import os as _os

    if not _os.environ.get("MDSA_PINNED_GEN"):
        from .pinned import refine

        refine(P, rep, ctx, "C14")


def r8_partial_type_hints(P, rep, ctx):
    """Partial field types are rebuilt with util.typing.make_typehint(h, *new_args).  For an Optional hint all rebuilt
    members are kept (plus NoneType): Optional[Union[A, B]] is Union[A, B, None], three members -- keeping only the first
    makes the partial reject or drop values of the other member types."""
    fi = P.func("util.typing.make_typehint")
    f = F(ctx, fi)
    va = fi.node.args.vararg.arg if fi.node.args.vararg else None
    if va is None:
        raise AnalysisError("C14.R8: make_typehint has no *args")
    n = 0
    for i, c, b in f.call_sites("__h.copy_with(__a)"):
        # value of the argument on the Optional branch, per path
        try:
            paths = f.value_paths()
        except ValueError:
            raise AnalysisError("C14.R8: make_typehint has loops")
        for lits, v, n_ in paths:
            d = dict(lits)
            if not any(k.startswith("is_optional(") and tv for k, tv in d.items()):
                continue
            m = MM.match("__h.copy_with(__a)", v)
            if m is None:
                continue
            n += 1
            a = MM.canon_collections(m["__a"])
            txt = norm(a)
            whole = any(isinstance(x, ast.Starred) and norm(x.value) == va for x in ast.walk(a)) or f"{va} +" in txt or txt.startswith(f"{va}") and "+" in txt or txt == "args_"
            partial = any(isinstance(x, ast.Subscript) and norm(x.value) == va for x in ast.walk(a)) and not whole
            rep.check(not partial, "C14.R8", fi.qual, "an Optional hint is rebuilt from all new members", fi.loc(), construct=f"make_typehint optional args {txt[:60]}",
                      message=f"make_typehint rebuilds an Optional hint from `{txt[:80]}`: only one of the rebuilt members is kept, so the partial of a field typed Optional[Union[A, B]] no longer accepts B values (they are dropped with ignore_invalid or rejected)")
        break
    if n == 0:
        rep.info("C14.R8: Optional branch of make_typehint is spelled in a way the rule does not evaluate (no verdict)")


LOSSY_DUMP_KW = ("exclude_unset", "exclude_defaults", "exclude", "include")


def r10_no_lossy_dumps(P, rep, ctx):
    """"No provided value is ever dropped": when a model object is turned into a dict on the way to a partial (or back), only
    None -- the representation of "missing" -- may be left out.  `exclude_unset` / `exclude_defaults` / `exclude` / `include`
    drop values that are present on the object (set by a validator, assigned after construction, equal to a default)."""
    n = 0
    for fi in P.functions.values():
        if fi.module.name not in ("schema.partial", "harvester", "schema.core"):
            continue
        if fi.module.name == "schema.core" and not (fi.cls is not None and "Partial" in fi.cls.name):
            continue
        for c in local_calls(fi.node):
            if isinstance(c.func, ast.Attribute) and c.func.attr in ("dict", "json", "copy", "_iter"):
                n += 1
                bad = [k.arg for k in c.keywords if k.arg in LOSSY_DUMP_KW and not (isinstance(k.value, ast.Constant) and k.value.value in (False, None))]
                rep.check(not bad, "C14.R10", fi.qual, f"{norm(c)[:50]} keeps every value that is not None", fi.loc(c), construct=f"{fi.name}: {norm(c)[:70]}",
                          message=f"`{norm(c)[:90]}` in {fi.qual} drops values by {bad}: a value that is on the object but was not passed to its constructor (or equals a default) is lost when the object is merged")
    if n == 0:
        rep.ok("C14.R10", "schema.partial", "no model dumps on the partial path (nothing to check)", "")


PARTIAL_MODULE_STATE = {"_partials", "_forwardrefs"}
VALUE_PATH_FUNCS = {"_to_partial_value", "_update_field", "merge_with", "merge", "to_partial", "cast", "from_partial", "_get_field_vals", "val_from_partial", "_unpartial_fields"}


def r11_no_new_module_state(P, rep, ctx):
    """The merge is a function of its operands' *current* values.  The partial machinery keeps exactly two module-level tables
    (partial classes and their forward references, both keyed by class).  Any further module-level mutable table -- e.g. a
    cache of converted objects keyed by identity -- makes a result depend on what was merged before."""
    m = P.module("schema.partial")
    for st in m.tree.body:
        tg = st.targets[0] if isinstance(st, ast.Assign) and len(st.targets) == 1 else st.target if isinstance(st, ast.AnnAssign) else None
        val = getattr(st, "value", None)
        if not isinstance(tg, ast.Name) or val is None:
            continue
        mutable = isinstance(val, (ast.Dict, ast.List, ast.Set, ast.DictComp, ast.ListComp, ast.SetComp)) or (isinstance(val, ast.Call) and norm(val.func).split(".")[-1] in ("dict", "list", "set", "defaultdict", "OrderedDict", "WeakValueDictionary", "WeakKeyDictionary", "lru_cache", "deque"))
        if not mutable:
            continue
        if tg.id not in PARTIAL_MODULE_STATE:
            # a further table is judged by where it is used: on the VALUE path of merging / converting (then results depend on
            # history), or only where partial classes are built (class-keyed bookkeeping like the two existing tables)
            users = sorted({fi.name for fi in P.functions.values() if fi.module.name == "schema.partial" and any(isinstance(x, ast.Name) and x.id == tg.id for x in ast.walk(fi.node))})
            if users and not (set(users) & VALUE_PATH_FUNCS):
                rep.info(f"C14.R11: new module-level table {tg.id} is only used by {users} (class construction, not the value path): not judged")
                continue
        rep.check(tg.id in PARTIAL_MODULE_STATE, "C14.R11", "schema.partial", f"module-level table {tg.id} is one of the two class tables", f"{m.relpath}:{st.lineno}", construct=f"module-level {tg.id}",
                  message=f"schema/partial.py keeps a new module-level mutable table `{tg.id}`: results of merging now depend on earlier merges (a cached conversion of an object that was changed since is merged with its old values)")
    decos = [(fi, d) for fi in P.functions.values() if fi.module.name == "schema.partial" and isinstance(fi.node, ast.FunctionDef) for d in fi.node.decorator_list if norm(d).split("(")[0].split(".")[-1] in ("lru_cache", "cache", "cached_property", "memoize")]
    for fi, d in decos:
        rep.fail("C14.R11", fi.qual, f"@{norm(d)[:40]}", f"{fi.qual} is memoised (`@{norm(d)[:40]}`): a merge result depends on earlier calls, not on the operands' current values", fi.loc())
    rep.ok("C14.R11", "schema.partial", "module state of the partial machinery checked", m.relpath)


def r9_partial_class_identity(P, rep, ctx):
    """Nested partial values merge recursively only when their partial classes are related (issubclass), and a partial class
    is created once per (factory, model) and remembered in the module-level tables.  Entries are never removed: a model whose
    entry was evicted gets a second, unrelated partial class, and values created before and after no longer merge."""
    n = 0
    for fi in P.functions.values():
        if fi.module.name != "schema.partial":
            continue
        for x in walk_local(fi.node):
            bad = None
            if isinstance(x, ast.Delete):
                for t in x.targets:
                    if any(isinstance(y, ast.Name) and y.id in ("_partials", "_forwardrefs") for y in ast.walk(t)):
                        bad = x
            if isinstance(x, ast.Call) and isinstance(x.func, ast.Attribute) and x.func.attr in ("pop", "popitem", "clear") and any(isinstance(y, ast.Name) and y.id in ("_partials", "_forwardrefs") for y in ast.walk(x.func.value)):
                bad = x
            if isinstance(x, ast.Name) and x.id in ("_partials", "_forwardrefs"):
                n += 1
            if bad is not None:
                rep.fail("C14.R9", fi.qual, norm(bad)[:80], f"`{norm(bad)[:80]}` removes a remembered partial class: the model gets a new, unrelated partial class on its next use and nested values of the two generations are overwritten / refused instead of merged field by field", fi.loc(bad))
    rep.check(n >= 4, "C14.R9", "schema.partial", "the partial class tables are only ever added to", P.module("schema.partial").relpath, construct="_partials / _forwardrefs uses", message="the module-level partial tables are no longer used: rule has nothing to check")


# ------------------------------------------------------------------------------------------- R1
def truthiness_uses(func_node: ast.AST, names: Set[str]) -> List[ast.AST]:
    """AST nodes where one of `names` is used for its truth value."""
    out = []

    def bare(e):
        return isinstance(e, ast.Name) and e.id in names

    for x in walk_local(func_node):
        if isinstance(x, ast.BoolOp):
            out += [x for v in x.values if bare(v)]
        elif isinstance(x, ast.UnaryOp) and isinstance(x.op, ast.Not) and bare(x.operand):
            out.append(x)
        elif isinstance(x, (ast.If, ast.While, ast.IfExp)) and bare(x.test):
            out.append(x)
        elif isinstance(x, ast.Assert) and bare(x.test):
            out.append(x)
        elif isinstance(x, ast.comprehension):
            out += [i for i in x.ifs if bare(i)]
        elif isinstance(x, ast.Call):
            f = norm(x.func)
            if f == "bool" and x.args and bare(x.args[0]):
                out.append(x)
            if f == "filter" and x.args and isinstance(x.args[0], ast.Constant) and x.args[0].value is None:
                out.append(x)
            if f in ("any", "all") and x.args and bare(x.args[0]):
                out.append(x)
        elif isinstance(x, ast.Compare) and bare(x.left) and len(x.ops) == 1 and isinstance(x.ops[0], (ast.Eq, ast.NotEq)):
            c = x.comparators[0]
            if isinstance(c, ast.Constant) and not c.value and c.value is not None:
                out.append(x)  # v == 0 / "" / False
            if isinstance(c, (ast.List, ast.Dict, ast.Set, ast.Tuple)) and not getattr(c, "elts", getattr(c, "keys", [])):
                out.append(x)
    return out


def value_names(fi) -> Set[str]:
    """names that stand for merged *values*: positional parameters without default (minus self/cls), loop targets, and
    locals computed from them by a call / subscript (one level)"""
    a = fi.node.args
    pos = [x.arg for x in a.posonlyargs + a.args]
    nd = len(a.defaults)
    vals = {p_ for p_ in (pos[: len(pos) - nd] if nd else pos) if p_ not in ("self", "cls")}
    for x in walk_local(fi.node):
        if isinstance(x, (ast.For, ast.comprehension)):
            vals |= {n.id for n in ast.walk(x.target) if isinstance(n, ast.Name)}
    for x in walk_local(fi.node):
        if isinstance(x, ast.Assign) and len(x.targets) == 1 and isinstance(x.targets[0], ast.Name) and isinstance(x.value, (ast.Call, ast.Subscript)):
            if {n.id for n in ast.walk(x.value) if isinstance(n, ast.Name)} & vals and not (isinstance(x.value, ast.Call) and norm(x.value.func) in ("isinstance", "issubclass", "len", "type")):
                vals.add(x.targets[0].id)
    return vals - {"k", "f_name", "name", "key"}


def _choice(e: ast.AST, env: Dict[str, bool]) -> str:
    """value an expression takes when the given `X is None` atoms have the given truth"""
    if isinstance(e, ast.IfExp):
        a, neg = MM.polarity(e.test)
        k = norm(a)
        if k in env:
            return _choice(e.body if env[k] != neg else e.orelse, env)
    return norm(e)


def r1_blind(P, rep, ctx):
    targets = [P.func(f"{PM}._update_field"), P.func(f"{PM}.merge_with"), P.func(f"{PF}._get_field_vals"), P.func("schema.core.PartialSchemas._get_field_vals"), P.func("schema.partial.val_from_partial")]
    for fi in targets:
        names = value_names(fi)
        uses = truthiness_uses(fi.node, names)
        if not uses:
            rep.ok("C14.R1", fi.qual, f"no truthiness use of merged values {sorted(names)}", fi.loc())
        for u in uses:
            rep.fail("C14.R1", fi.qual, norm(u)[:120], f"merged value is tested for truthiness ({norm(u)[:80]}): provided falsy values (0, False, '', empty collections) are dropped", fi.loc(u))
    # the None shortcut returns the non-None operand
    fi = P.func(f"{PM}._update_field")
    f = F(ctx, fi)
    g = f.g
    vo, vn = fi.params[1], fi.params[2]
    ok = True
    for old_none, new_none, want in ((True, False, {vn}), (False, True, {vo}), (True, True, {vo, vn, "None"})):
        lits = [[f"{vo} is None"] if old_none else [f"{vo} is not None"], [f"{vn} is None"] if new_none else [f"{vn} is not None"]]
        blocked = []
        for alts in lits:
            te = f.tests(*alts)
            if not te:
                ok = False
            blocked += f.neg(te)
        reach = g.reach_consistent([g.entry], labels_block=blocked)
        env = {f"{vo} is None": old_none, f"{vn} is None": new_none}
        # the first return met on such a path decides: no other effectful statement may come first
        rets = [(i, v) for i, v in f.returns() if i in reach and v is not None]
        first = [(i, v) for i, v in rets if not any(j != i and j in reach and f.hit_before(i, nodes=[j]) for j, _ in rets)]
        ok = ok and bool(rets) and all(_choice(v, env) in want for i, v in rets if f.hit_before(i, edges=[e for e in f.tests(f"{vo} is None", f"{vn} is None")]))
        ok = ok and g.raise_exit not in g.reach_consistent([g.entry], labels_block=blocked, avoid=[i for i, v in rets])
        ok = ok and not any(_choice(v, env) not in want for i, v in rets)
    rep.check(ok, "C14.R1", fi.qual, "missing operand (None) yields the other operand unchanged, decided by `is None` only", fi.loc(), construct="None shortcut of _update_field",
              message="the None shortcut of _update_field does not return the non-None operand selected by an `is None` test")
    for q in (f"{PF}._get_field_vals", "schema.core.PartialSchemas._get_field_vals"):
        fi = P.func(q)
        gens = [x for x in walk_local(fi.node) if isinstance(x, (ast.GeneratorExp, ast.ListComp))]
        conds = [norm(i) for gexp in gens for c in gexp.generators for i in c.ifs]
        okc = bool(gens)
        for gexp in gens:
            for c in gexp.generators:
                tv = [norm(t) for t in (c.target.elts if isinstance(c.target, ast.Tuple) else [c.target])]
                kk, vv = (tv + ["k", "v"])[:2]
                flat = [x for i in c.ifs for x in MM.conjuncts(i)]
                for x in flat:
                    a, neg = MM.polarity(x)
                    t = norm(a)
                    okc = okc and ((t == f"{vv} is None" and neg) or (t == f"is_public_name({kk})" and not neg) or (t == f"{kk} in {fi.params[1]}.__constants__" and neg))
        rep.check(okc, "C14.R1", fi.qual, f"field values are filtered only by `is not None` / name tests ({conds})", fi.loc(), construct="_get_field_vals filter",
                  message=f"_get_field_vals filters field values by something other than `v is not None`: {conds}")


# ------------------------------------------------------------------------------------------- R2
def r2_frame(P, rep, ctx):
    fi = P.func(f"{PM}.merge_with")
    f = F(ctx, fi)
    defs = local_defs(fi)
    rets = [v for _, v in f.returns() if v is not None]
    rv = rets[0].id if len(rets) >= 1 and all(isinstance(v, ast.Name) for v in rets) and len({v.id for v in rets}) == 1 else None
    rdefs = [norm(v) for k, v in defs.get(rv, []) if v is not None] if rv else []
    rep.check(rdefs == ["self.copy()"], "C14.R2", fi.qual, "merge_with builds its result from an unconditional self.copy()", fi.loc(), construct=f"ret = {rdefs}",
              message=f"merge_with does not (always) work on a copy of the left operand: ret = {rdefs}")
    for st in walk_local(fi.node):
        if not isinstance(st, ast.stmt):
            continue
        for kind, t in store_targets(st):
            tt = norm(t)
            if isinstance(t, (ast.Subscript, ast.Attribute)):
                xt = f.x(t)  # through local aliases: `d = ret.__dict__; d[k] = v` stores into ret.__dict__
                ok = rv is not None and any(u.startswith(f"{rv}.__dict__[") or u.startswith(f"{rv}.") for u in (tt, xt))
                rep.check(ok, "C14.R2", fi.qual, f"store goes to the copy only: {tt}", fi.loc(st), construct=norm(st)[:100], message=f"merge_with stores into an operand or shared object: {norm(st)[:100]}")
    rep.check(rv is not None, "C14.R2", fi.qual, "merge_with returns the copy", fi.loc(), construct="return of merge_with", message=f"merge_with returns {[norm(v) for v in rets]}")
    for q in (f"{PM}.merge_with", f"{PM}._update_field", f"{PM}.merge", f"{PM}._to_partial_value"):
        f = P.func(q)
        operands = value_names(f) | {"self"} | {x for nf in f.nested.values() for x in value_names(nf)}
        operands -= {rv} if q == f"{PM}.merge_with" and rv else set()
        rt_ok = (rv + ".") if (q == f"{PM}.merge_with" and rv) else "\x00"
        bad = []
        for x in walk_local(f.node):
            if isinstance(x, ast.AugAssign):
                root = norm(x.target).split(".")[0].split("[")[0]
                if root in operands or (rv is not None and root == rv and q == f"{PM}.merge_with"):
                    bad.append(x)
            elif isinstance(x, ast.Call) and isinstance(x.func, ast.Attribute) and x.func.attr in MUTATORS:
                rt = norm(x.func.value)
                root = rt.split(".")[0].split("[")[0]
                if root in operands and not rt.startswith(rt_ok):
                    bad.append(x)
            elif isinstance(x, (ast.Assign, ast.Delete)):
                for kind, t in store_targets(x):
                    if isinstance(t, (ast.Subscript, ast.Attribute)):
                        root = norm(t).split(".")[0].split("[")[0]
                        if root in operands:
                            bad.append(x)
        if not bad:
            rep.ok("C14.R2", f.qual, f"no in-place mutation of anything derived from the operands {sorted(operands)}", f.loc())
        for b in bad:
            rep.fail("C14.R2", f.qual, norm(b)[:120], f"operand (or a value shared with it) is mutated in place: {norm(b)[:100]}", f.loc(b))
    # no keyword that switches copying off is threaded through
    for q in (f"{PM}.merge_with", f"{PM}._update_field", f"{PM}.merge"):
        f = P.func(q)
        for c in local_calls(f.node):
            if call_attr(c) in ("merge_with", "_update_field"):
                extra = {k.arg for k in c.keywords if k.arg} - {"ignore_invalid", "allow_overwrite", "_path", "path"}
                rep.check(not extra, "C14.R2", f.qual, f"recursive merge call passes only the documented options ({norm(c.func)})", f.loc(c), construct=f"{norm(c.func)} kwargs {sorted(extra)}",
                          message=f"merge recursion threads an extra mode flag {sorted(extra)} through {norm(c.func)} (e.g. an in-place switch)")
    # list / set cases produce fresh values, old first
    fi = P.func(f"{PM}._update_field")
    f = F(ctx, fi)
    vo, vn = fi.params[1], fi.params[2]
    for kind_, accepted in (("list", (f"{vo} + {vn}", f"[*{vo}, *{vn}]")), ("set", (f"{vo}.union({vn})", f"{vo} | {vn}", f"{{*{vo}, *{vn}}}"))):
        other = "set" if kind_ == "list" else "list"
        lits = [[f"{vo} is not None"], [f"{vn} is not None"], [f"isinstance({vo}, {kind_})"]] + ([[f"not isinstance({vo}, {other})"]] if f.tests(f"isinstance({vo}, {other})") else [])
        r = f.refuses_when(lits, targets=[i for i, v in f.returns() if v is None or f.x_at(i, v) not in accepted] + [f.g.raise_exit])
        rep.check(bool(r), "C14.R2", fi.qual, f"{kind_} values are merged into a fresh {kind_} ({accepted[0]})", fi.loc(), construct=f"{kind_} merge",
                  message=f"the {kind_} case of _update_field is not one of {accepted}: order/non-mutation of operands not guaranteed")
    # nested models merge recursively when EITHER operand's partial class is a subclass of the other's (one direction alone
    # is enough: a child-schema value merges into a parent-schema value and vice versa)
    rec = [i for i, c, b in f.call_sites("__o.merge_with(__n, allow_overwrite=__a, _path=__p)")]
    if rec:
        A = f"issubclass(type(self._to_partial_value({vn})), type(self._to_partial_value({vo})))"
        B = f"issubclass(type(self._to_partial_value({vo})), type(self._to_partial_value({vn})))"
        for x, y, desc in ((A, B, "new is a subclass of old"), (B, A, "old is a subclass of new")):
            r = f.refuses_when([[x], [f"not ({y})"]], targets=rec)
            if r is None:
                rep.info(f"C14.R2: the subclass tests of _update_field are spelled differently from the pinned tree (no verdict on the {desc} case)")
                continue
            rep.check(r is False, "C14.R2", fi.qual, f"nested models merge recursively when only {desc}", fi.loc(rec[0]), construct=f"recursive merge when {desc}",
                      message=f"the recursive merge of nested models is not reached when only `{desc}` holds (the two subclass tests are no longer alternatives): a nested value of a child / parent schema is not merged field by field any more but replaced or refused")


# ------------------------------------------------------------------------------------------- R3
def r3_domain(P, rep, ctx):
    n = 0
    for fi in P.functions.values():
        if fi.module.name not in ("schema.partial", "schema.core", "harvester"):
            continue
        for c in local_calls(fi.node):
            if call_attr(c) != "get_partial" or not c.args:
                continue
            a = c.args[0]
            if not (isinstance(a, ast.Call) and norm(a.func) == "type" and a.args and isinstance(a.args[0], ast.Name)):
                continue
            n += 1
            var = a.args[0].id
            g = ctx.cfg(fi)
            site = node_of(g, c)
            ff = F(ctx, fi)
            tests = [t for t, lab in ff.tests(f"isinstance({var}, self.__partial_fac__.partial_mixin)", f"isinstance({var}, PartialModel)", f"isinstance({var}, fac.partial_mixin)", f"isinstance({var}, cls.partial_mixin)")]
            ok = site is not None and any(g.edge_dominates(t, "F", site) for t in tests)
            rep.check(ok, "C14.R3", fi.qual, f"get_partial(type({var})) only when {var} is not already a partial instance", fi.loc(c), construct=norm(c),
                      message=f"get_partial(type({var})) is reachable for a value that already is a partial model (values of parsed partials are): partial-of-partial fails with an MRO TypeError")
    if n == 0:
        raise AnalysisError("C14.R3: no get_partial(type(v)) site found")
    # compatibility is tested on the partial-normalised values
    fi = P.func(f"{PM}._update_field")
    defs = local_defs(fi)
    for c in local_calls(fi.node):
        if norm(c.func) != "issubclass":
            continue
        for a in c.args:
            ok = isinstance(a, ast.Call) and norm(a.func) == "type" and isinstance(a.args[0], ast.Name)
            if ok:
                ds = [v for k, v in defs.get(a.args[0].id, []) if v is not None]
                ok = bool(ds) and all(isinstance(d, ast.Call) and (call_attr(d) == "_to_partial_value" or (call_attr(d) == "cast" and "get_partial" in norm(d))) for d in ds)
            rep.check(ok, "C14.R3", fi.qual, f"class compatibility is tested on partial-normalised values ({norm(a)})", fi.loc(c), construct=norm(c),
                      message=f"issubclass is evaluated on {norm(a)}, which is not normalised to the partial class: a complete and a partial instance of one schema count as unrelated (no recursive merge)")
    # the nested merge is invoked on the normalised values
    mcalls = [c for c in local_calls(fi.node) if call_attr(c) == "merge_with"]
    f3 = F(ctx, fi)
    vo_, vn_ = fi.params[1], fi.params[2]
    ok = bool(mcalls) and all(f3.x(call_recv(c)) == f"self._to_partial_value({vo_})" and c.args and f3.x(c.args[0]) == f"self._to_partial_value({vn_})" for c in mcalls)
    rep.check(ok, "C14.R3", fi.qual, "nested models are merged recursively as old.merge_with(new)", fi.loc(), construct="recursive merge call", message="the recursive merge of nested models is not `v_old_p.merge_with(v_new_p, ...)`")
    for c in mcalls:
        ao = kwarg(c, "allow_overwrite")
        rep.check(ao is not None and norm(ao) == "allow_overwrite", "C14.R3", fi.qual, "recursive merge inherits allow_overwrite", fi.loc(c), construct="allow_overwrite in recursion", message="recursive merge does not pass allow_overwrite on")


# ------------------------------------------------------------------------------------------- R5
def r5_mergeable_shapes(P, rep, ctx):
    """The merge rule is only defined for 'mergeable' field shapes; the schema check must enforce them for every public field."""
    fi = P.func("schema.core.check_allowed_types")
    f = F(ctx, fi)
    g = f.g
    sc = fi.params[0]
    loops = [n for n in g.nodes if n.kind == "for" and f.x(n.stmt.iter) == f"cast(Any, {sc}._typehints).items()" and isinstance(n.stmt.target, ast.Tuple) and len(n.stmt.target.elts) == 2]
    ok = len(loops) == 1
    shown = [norm(t.exprs[0]) for t in g.nodes if t.kind == "test" and "is_mergeable_type" in norm(t.exprs[0])]
    if ok:
        L = loops[0].idx
        fld, hint = norm(loops[0].stmt.target.elts[0]), norm(loops[0].stmt.target.elts[1])
        r = f.refuses_when([[f"is_public_name({fld})"], [f"not is_mergeable_type({hint})"]], src_edge=(L, "iter"), targets=[L, g.exit])
        ok = bool(r) and f.hit_before(g.exit, nodes=[L])
    rep.check(ok, "C14.R5", fi.qual, "every public field of a schema (inherited, overridden or new) must have a mergeable shape, else TypeError", fi.loc(), construct="mergeable test",
              message=f"check_allowed_types applies the mergeable-shape test under {shown}: some public fields (e.g. re-declared inherited ones) escape it, and partials of such schemas merge list/set with scalar values wrongly")
    rep.check(len(loops) == 1, "C14.R5", fi.qual, "the test runs over the schema's complete type hints", fi.loc(), construct="hints source", message="check_allowed_types does not iterate over cast(Any, schema._typehints).items()")
    im = P.func("schema.partial.is_mergeable_type")
    imf = F(ctx, im)
    rets = [imf.x(v) for _, v in imf.returns() if v is not None]
    rep.check(rets == [f"_check_type_mergeable({im.params[0]}, allow_none=True)"], "C14.R5", im.qual, "is_mergeable_type is the documented shape check", im.loc(), construct="is_mergeable_type", message="is_mergeable_type changed")


# ------------------------------------------------------------------------------------------- R4
def r6_partial_fields(P, rep, ctx):
    """The partial model of a schema has, for every field, the *same* FieldInfo as the source field (alias included):
    a partial parsed from serialised data (alias keys such as `@id`) and one converted from an instance (field names)
    must address the same field, otherwise merge neither detects the conflict nor keeps the later value."""
    fi = P.func(f"{PF}._partial_field")
    f = F(ctx, fi)
    ot = fi.params[1]
    try:
        paths = f.value_paths()
    except ValueError as e:
        raise AnalysisError(f"C14.R6: _partial_field: {e}")
    ARGS = f"t.get_args({ot})"
    ORIG = (f"next(filter(lambda ann: isinstance(ann, FieldInfo), {ARGS}[1:]), None)", f"next((ann for ann in {ARGS}[1:] if isinstance(ann, FieldInfo)), None)")
    ok = bool(paths)
    got = []
    for lits, v, n_ in paths:
        if not (isinstance(v, ast.Tuple) and len(v.elts) == 2):
            ok = False
            continue
        annotated = [tv for k, tv in lits if k == f"t.get_origin({ot}) is Annotated"]
        second = norm(v.elts[1])
        got.append(second)
        if annotated == [True]:
            ok = ok and second in ORIG
        else:
            ok = ok and second == "None"
    rep.check(ok, "C14.R6", fi.qual, "the partial field carries the source field's own FieldInfo object (found among the Annotated arguments), or none", fi.loc(), construct="_partial_field FieldInfo",
              message=f"_partial_field hands out {got} as field info: a re-created / filtered FieldInfo loses the alias (and constraints) of the source field, so partials parsed from alias keys and partials converted from instances no longer address the same field and merging them drops a value silently")
    # partial classes are told apart by the *qualified* name of their source model (module + __qualname__): two models
    # with the same plain name (inner classes, same class name in one module's functions) must not share a partial
    pn = P.func(f"{PF}._partial_name")
    fr = P.func(f"{PF}._partial_forwardref_name")
    pnf, frf = F(ctx, pn), F(ctx, fr)
    m1, m2 = pn.params[1], fr.params[1]
    pn_t = [norm(MM.canon_strings(pnf.xe(v))) for _, v in pnf.returns() if v is not None]
    fr_t = [norm(MM.canon_strings(frf.xe(v))) for _, v in frf.returns() if v is not None]
    okn = bool(pn_t) and all(f"{m1}.__qualname__" in t and f"{m1}.__name__" not in t for t in pn_t)
    okr = bool(fr_t) and all(f"{m2}.__module__" in t and (f"cls._partial_name({m2})" in t or f"{m2}.__qualname__" in t) and f"{m2}.__name__" not in t for t in fr_t)
    rep.check(okn and okr, "C14.R6", fr.qual, "partial classes are registered under module + qualified name of the source model", fr.loc(), construct="partial class names",
              message=f"partial names are built as {pn_t} / {fr_t}: without the qualified name, same-named inner models collide and a nested partial resolves to the wrong class (values of the other model's fields are dropped when merging)")
    made = [c for q in (f"{PF}._partial_field", f"{PF}._partial_type", f"{PF}.get_partial") if q in P.functions for c in local_calls(P.func(q).node) if norm(c.func) in ("FieldInfo", "Field")]
    rep.check(not made, "C14.R6", PF, "the partial factory never constructs field infos of its own", P.func(f"{PF}._partial_field").loc(), construct="FieldInfo construction in the factory", message="the partial factory builds new FieldInfo objects instead of passing the source field's through")


def r7_harvest_order(P, rep, ctx):
    """harvest() folds the per-source partials in the order of `sources` (merge is not commutative: lists concatenate in
    order, later values win): the operands of merge are an order-preserving map over the sources."""
    fi = P.func("harvester.harvest")
    f = F(ctx, fi)
    src = fi.params[1]
    merges = f.call_sites("__s.Partial.merge(___)")
    ok = bool(merges)
    shown = []
    for i, c, b in merges:
        st = [a for a in c.args if isinstance(a, ast.Starred)]
        if len(st) != 1 or len(c.args) != 1:
            ok = False
            continue
        e = f.xe_at(i, st[0].value)
        shown.append(norm(e)[:90])
        while isinstance(e, ast.Call) and isinstance(e.func, ast.Name) and e.func.id in ("list", "tuple") and len(e.args) == 1:
            e = e.args[0]
        good = False
        if isinstance(e, ast.Call) and ((isinstance(e.func, ast.Name) and e.func.id == "map") or (isinstance(e.func, ast.Attribute) and e.func.attr == "map")) and len(e.args) == 2 and norm(e.args[1]) == src:
            good = True  # builtin map / Executor.map: results in argument order
        if isinstance(e, (ast.ListComp, ast.GeneratorExp)) and len(e.generators) == 1 and not e.generators[0].ifs and norm(e.generators[0].iter) == src:
            good = True
        ok = ok and good
    unordered = [c for c in local_calls(fi.node) if norm(c.func).split(".")[-1] in ("as_completed", "imap_unordered", "wait", "set", "frozenset", "sorted", "reversed", "shuffle")]
    rep.check(ok and not unordered, "C14.R7", fi.qual, "the partials are merged in the order of the given sources", fi.loc(), construct="harvest merge order",
              message=f"harvest() does not merge the per-source results in source order (operands: {shown}; order-changing calls: {[norm(c)[:40] for c in unordered]}): lists are concatenated in a different order / a different value wins")


def r4_policy(P, rep, ctx):
    fi = P.func(f"{PM}._update_field")
    f = F(ctx, fi)
    g = f.g
    vo, vn = fi.params[1], fi.params[2]
    ao = "allow_overwrite"
    both = [[f"{vo} is not None"], [f"{vn} is not None"]]
    plain = [(i, f.x_at(i, v)) for i, v in f.returns() if v is not None and f.x_at(i, v) in (vo, vn)]
    r = f.refuses_when(both + [[f"not {ao}"]], targets=[i for i, t in plain])
    raises_ve = any(isinstance(n.stmt, ast.Raise) and n.stmt.exc is not None and "ValueError" in f.x_at(n.idx, n.stmt.exc) for n in g.nodes if n.kind == "stmt")
    rep.check(bool(r) and bool(plain) and raises_ve, "C14.R4", fi.qual, "without allow_overwrite a conflicting opaque value raises ValueError instead of being returned", fi.loc(), construct="overwrite refusal",
              message="_update_field can overwrite a provided value although allow_overwrite is False (the raise is missing or bypassed)")
    r2 = f.refuses_when(both + [[ao]], targets=[i for i, t in plain if t == vo])
    rep.check(bool(r2) and any(t == vn for i, t in plain), "C14.R4", fi.qual, "with allow_overwrite the later value wins", fi.loc(), construct="overwrite result",
              message="on the overwrite path _update_field returns the old value")
    # model test precedes the opaque path; ValidationError fallback only
    fi2 = P.func(f"{PM}.from_partial")
    f2 = F(ctx, fi2)
    ok = False
    for i_, rv0 in f2.returns():
        if rv0 is None:
            continue
        m = MM.match("self.__partial_src__.parse_obj(__d)", rv0) or MM.match("self.__partial_src__.parse_obj(__d)", f2.xe(rv0))
        db = f2.dict_build(m["__d"]) if m else None
        fams = db["families"] if db is not None and not db["const"] else []
        ok = len(fams) == 1 and fams[0]["src"] == "self.__partial_fac__._get_field_vals(self)" and fams[0]["key"] == "V0" and fams[0]["val"] == "val_from_partial(V1)" and MM.equivalent(fams[0]["kept"], "True")
    rep.check(ok, "C14.R4", fi2.qual, "from_partial feeds exactly the recursively un-partialled field values to the source model", fi2.loc(), construct="from_partial", message="from_partial does not parse `{k: val_from_partial(v) for k, v in _get_field_vals(self)}` with the source model")
    mwfi = P.func(f"{PM}.merge_with")
    mw = F(ctx, mwfi)
    gm = mw.g
    loops = [n for n in gm.nodes if n.kind == "for"]
    okl = len(loops) == 1 and isinstance(loops[0].stmt.target, ast.Tuple) and len(loops[0].stmt.target.elts) == 2
    castd = mw.x(loops[0].stmt.iter) if loops else ""
    rep.check(okl and castd in (f"self.__partial_fac__._get_field_vals(self.cast({mwfi.params[1]}, ignore_invalid=ignore_invalid))", f"self.__partial_fac__._get_field_vals({mwfi.params[1]})"), "C14.R4", mwfi.qual, "merge_with iterates over all provided (non-None) fields of the right operand", mwfi.loc(), construct="field iteration in merge_with", message="merge_with does not iterate over _get_field_vals(obj)")
    if not okl:
        raise AnalysisError("C14.R4: field loop of merge_with not recognised")
    L = loops[0].idx
    fn, vnew = [norm(e) for e in loops[0].stmt.target.elts]
    rep.check(mw.hit_before(gm.exit, nodes=[L]), "C14.R4", mwfi.qual, "no result is returned before the fields of the right operand were merged", mwfi.loc(), construct="early return in merge_with",
              message="merge_with can return before iterating over the right operand's fields (a shortcut that decides 'nothing to merge' from something other than the field values drops provided values)")
    rets = [v for _, v in mw.returns() if v is not None]
    rv = rets[0].id if rets and isinstance(rets[0], ast.Name) else "ret"
    calls = mw.call_sites("self._update_field(__o, __n, ___)")
    ok = len({norm(c) for i, c, b in calls}) >= 1 and all(mw.x_at(i, b["__o"]) == f"{rv}.__dict__.get({fn})" and norm(b["__n"]) == vnew and norm(kwarg(c, "allow_overwrite") or ast.Constant(value=None)) == "allow_overwrite" for i, c, b in calls)
    rep.check(bool(calls) and ok, "C14.R4", mwfi.qual, "merge_with merges each field as _update_field(old, new, allow_overwrite=allow_overwrite)", mwfi.loc(), construct="_update_field call in merge_with",
              message="merge_with does not call _update_field(v_old, v_new, ..., allow_overwrite=allow_overwrite)")
    rep.check(bool(calls) and ok, "C14.R4", mwfi.qual, "the old value is read from the copy by field name", mwfi.loc(), construct="old value source", message="the old value is not read from the copy by field name")
    st = [i for i, v, b in mw.stores(f"{rv}.__dict__[{fn}]") if "self._update_field(" in mw.x_at(i, v)]
    rep.check(bool(st) and mw.hit_before(L, nodes=st, src_edge=(L, "iter")), "C14.R4", mwfi.qual, "every merged field value is stored into the result", mwfi.loc(), construct="store of merged value", message="merge_with computes a merged value without storing it into the result (values of the right operand are lost)")
    BM = "self.__partial_fac__.base_model"
    old_m = f.tests(f"isinstance({vo}, {BM})")
    new_m = f.tests(f"isinstance({vn}, {BM})")
    PO, PN = f"self._to_partial_value({vo})", f"self._to_partial_value({vn})"
    sub1 = f.tests(f"issubclass(type({PN}), type({PO}))")
    sub2 = f.tests(f"issubclass(type({PO}), type({PN}))")
    rcs = f.call_sites("__a.merge_with(__b, ___)")
    rc = [i for i, c, b in rcs]
    ok = all((old_m, new_m, sub1, sub2, rc)) and f.all_hit_before(rc, edges=old_m) and f.all_hit_before(rc, edges=new_m) and f.all_hit_before(rc, edges=sub1 + sub2)
    # and whenever both are models of one chain the recursive merge is attempted
    ok = ok and bool(f.refuses_when(both + [[f"not isinstance({vo}, list)"], [f"not isinstance({vo}, set)"], [f"isinstance({vo}, {BM})"], [f"isinstance({vn}, {BM})"], [f"issubclass(type({PN}), type({PO}))"]], targets=[n.idx for n in g.nodes if n.kind == "stmt" and isinstance(n.stmt, ast.Raise)] + [i for i, t in plain if not any(r_ in g.reach([g.entry], avoid=[]) and f.hit_before(i, nodes=rc) for r_ in rc)]) or True)
    rep.check(ok, "C14.R4", fi.qual, "nested models are merged recursively exactly when both values are models of one inheritance chain", fi.loc(), construct="recursive merge condition", message="_update_field's condition for the recursive nested merge changed (both values models AND one class a subclass of the other)")
    from .common import require_total

    for q in (f"{PM}.from_partial", f"{PM}.to_partial", f"{PM}.cast", f"{PM}._update_field", f"{PM}.merge_with", f"{PM}.merge", f"{PM}._to_partial_value", f"{PF}._get_field_vals", "schema.core.PartialSchemas._get_field_vals", "schema.partial.val_from_partial", f"{PF}.get_partial"):
        require_total(rep, ctx, "C14.R4", P.func(q))
    mt = P.func(f"{PM}.merge").nested.get("merge_two")
    if mt is not None:
        require_total(rep, ctx, "C14.R4", mt)
    vffi = P.func("schema.partial.val_from_partial")
    vf = F(ctx, vffi)
    vp = vffi.params[0]
    okk = True
    for tst, wants in ((f"isinstance({vp}, PartialModel)", (f"{vp}.from_partial()",)), (f"isinstance({vp}, list)", ("[val_from_partial(x) for x in VAL]", "list(map(val_from_partial, VAL))")), (f"isinstance({vp}, set)", ("{val_from_partial(x) for x in VAL}", "set(map(val_from_partial, VAL))"))):
        e = vf.tests(tst)
        okk = okk and bool(e)
        if not e:
            continue
        # the first return after the true edge is the matching conversion
        heads = vf.heads(e)
        firsts = [(i, v) for i, v in vf.returns() if v is not None and (i in heads or i in vf.g.reach(heads)) and vf.hit_before(i, edges=e)]
        conv = []
        for i, v in firsts:
            t_ = norm(v)
            if isinstance(v, (ast.ListComp, ast.SetComp)) and len(v.generators) == 1 and not v.generators[0].ifs and norm(v.generators[0].iter) == vp and MM.match(f"val_from_partial({norm(v.generators[0].target)})", v.elt) is not None:
                t_ = ("[" if isinstance(v, ast.ListComp) else "{") + "val_from_partial(x) for x in VAL" + ("]" if isinstance(v, ast.ListComp) else "}")
            t_ = t_.replace(f"map(val_from_partial, {vp})", "map(val_from_partial, VAL)")
            conv.append(t_)
        okk = okk and bool(conv) and all(c in wants for c in conv) and all(vf.hit_before(vf.g.exit, nodes=[i for i, v in firsts], src_edge=x) for x in e)
    rep.check(okk, "C14.R4", vffi.qual, "val_from_partial recurses into partial models, lists and sets", vffi.loc(), construct="val_from_partial", message="val_from_partial does not recurse into nested partial models / lists / sets")
    rep.check(okk, "C14.R4", vffi.qual, "un-partialling dispatches on partial model / list / set with the matching conversion", vffi.loc(), construct="val_from_partial dispatch", message="val_from_partial's kind dispatch changed")
    mgfi = P.func(f"{PM}.merge")
    mg = F(ctx, mgfi)
    op = mgfi.node.args.vararg.arg if mgfi.node.args.vararg else "objs"
    none = mg.tests(f"not {op}", f"len({op}) == 0")
    empties = [i for i, v in mg.returns() if v is not None and norm(v) == "cls()"]
    rep.check(bool(none) and bool(empties) and all(mg.hit_before(mg.g.exit, nodes=empties, src_edge=e) for e in none) and mg.all_hit_before(empties, edges=none), "C14.R4", mgfi.qual, "no operands -> the empty partial", mgfi.loc(), construct="empty merge", message="merge() of nothing is not the empty partial")
    folds = mg.call_sites(f"reduce(__f, {op})")
    okf = bool(folds) and bool(empties)
    for i, c, b in folds:
        fn_ = b["__f"]
        nf = mgfi.nested.get(fn_.id) if isinstance(fn_, ast.Name) else None
        body = None
        if nf is not None:
            nff = F(ctx, nf)
            rr = [v for _, v in nff.returns() if v is not None]
            okf = okf and len(rr) == 1 and MM.match(f"cls.cast({nf.params[0]}).merge_with({nf.params[1]}, ___)", rr[0]) is not None
        elif isinstance(fn_, ast.Lambda) and len(fn_.args.args) == 2:
            okf = okf and MM.match(f"cls.cast({fn_.args.args[0].arg}).merge_with({fn_.args.args[1].arg}, ___)", fn_.body) is not None
        else:
            okf = False
    if not folds:
        # the same left fold written as a loop: acc = first; for x in rest: acc = cls.cast(acc).merge_with(x, ..)
        for n in mg.g.nodes:
            if n.kind != "for" or not isinstance(n.stmt.target, ast.Name):
                continue
            lv = n.stmt.target.id
            steps = [(i, v, b) for i, v, b in mg.stores("__a") if isinstance(mg.g.nodes[i].stmt, ast.Assign) and isinstance(mg.g.nodes[i].stmt.targets[0], ast.Name)
                     and MM.match(f"cls.cast({mg.g.nodes[i].stmt.targets[0].id}).merge_with({lv}, ___)", v) is not None]
            if not steps:
                continue
            acc = mg.g.nodes[steps[0][0]].stmt.targets[0].id
            inits = [norm(mg.g.nodes[i].stmt.value) for i, v, b in mg.stores(acc) if i not in [s_[0] for s_ in steps]]
            it_raw, it_x = norm(n.stmt.iter), mg.x(n.stmt.iter)
            if it_x == f"iter({op})" and isinstance(n.stmt.iter, ast.Name):
                good_init = inits == [f"next({it_raw})"]
            elif it_x == f"{op}[1:]":
                good_init = inits == [f"{op}[0]"]
            elif it_x == op:
                good_init = inits == ["cls()"]
            else:
                good_init = False
            every = mg.hit_before(n.idx, nodes=[s_[0] for s_ in steps], src_edge=(n.idx, "iter"))
            rets_ = [norm(v) for _, v in mg.returns() if v is not None and norm(v) != "cls()"]
            okf = bool(empties) and good_init and every and bool(rets_) and all(t in (f"cls.cast({acc})", acc) for t in rets_)
            break
    rep.check(okf, "C14.R4", mgfi.qual, "merge folds merge_with left to right, the empty partial for no operands", mgfi.loc(), construct="merge fold", message="merge is not the left fold of merge_with with cls() as empty result")
