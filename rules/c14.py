"""C14 — Merging partial metadata is a lossless, associative, non-mutating monoid.

Decided (necessary conditions of the named laws): R1 value-blind merge (no truthiness test on merged values),
R2 operands are a frame (merge works on a copy, no in-place mutator on anything derived from the operands),
R3 partial-of-partial domain (get_partial(type(v)) only for non-partial v; class compatibility is tested on the
partial-normalised values), R4 conflict policy and the shapes of the None / list / set cases.
Not decided: associativity / identity laws in general (runtime algebra over all triples).
"""
from __future__ import annotations

import ast
from typing import List, Set

from mdsa.astutil import call_attr, call_recv, kwarg, local_calls, norm, store_targets
from mdsa.cfg import walk_local
from mdsa.loader import AnalysisError

from .common import Ctx, local_defs, node_of

PM = "schema.partial.PartialModel"
PF = "schema.partial.PartialFactory"
EXPLANATION = (
    "R1 BLIND: in _update_field / merge_with / _get_field_vals the merged values (v_old, v_new, field values) are inspected only by "
    "`is None`, isinstance and whole-value operations; any truthiness use (and/or/not operand, if/while/ternary test, bool(), "
    "filter(None,..)) is a violation — it would drop 0/False/''/[] and break the identity law. R2 FRAME: merge_with builds its result "
    "from an unconditional self.copy(), stores only into that copy, and applies no in-place mutator or augmented assignment to anything "
    "derived from the operands; lists are joined with `+` (old first), sets with union. R3: every get_partial(type(v)) is dominated "
    "by the negative branch of an isinstance(v, partial_mixin) test, and issubclass compatibility is evaluated on the partial-normalised "
    "values. R4: on the opaque-value path allow_overwrite=False raises before returning and the *new* value wins otherwise; from_partial "
    "feeds exactly _get_field_vals (recursively un-partialled) to the source model."
)
NOT_DECIDED = "associativity and identity laws over all triples of partial instances; equality of to_partial/from_partial round trips"
MUTATORS = {"append", "extend", "insert", "update", "add", "sort", "remove", "clear", "pop", "popitem", "setdefault", "discard", "reverse", "intersection_update", "difference_update", "symmetric_difference_update", "__setitem__", "__delitem__"}


def run(P, rep, tier):
    rep.explanation = EXPLANATION
    rep.not_decided = NOT_DECIDED
    rep.assumptions = ["pydantic v1: BaseModel.copy() returns a new model object with a new __dict__ (shallow)", "list + list and set.union return fresh objects"]
    ctx = Ctx(P)
    rep.attempt(r1_blind, P, rep, ctx)
    rep.attempt(r2_frame, P, rep, ctx)
    rep.attempt(r3_domain, P, rep, ctx)
    rep.attempt(r4_policy, P, rep, ctx)
    rep.attempt(r5_mergeable_shapes, P, rep, ctx)
    rep.floor("C14.R1", 6)
    rep.floor("C14.R2", 6)
    rep.floor("C14.R3", 3)
    rep.floor("C14.R4", 6)


# ------------------------------------------------------------------------------------------- R1
def truthiness_uses(func_node: ast.AST, names: Set[str]) -> List[ast.AST]:
    """AST nodes where one of `names` is used for its truth value."""
    out = []

    def bare(e):
        return isinstance(e, ast.Name) and e.id in names

    for x in walk_local(func_node):
        if isinstance(x, ast.BoolOp):
            out += [x for v in x.values if bare(v)]
        elif isinstance(x, ast.UnaryOp) and isinstance(x.op, ast.Not) and bare(x.operand):
            out.append(x)
        elif isinstance(x, (ast.If, ast.While, ast.IfExp)) and bare(x.test):
            out.append(x)
        elif isinstance(x, ast.Assert) and bare(x.test):
            out.append(x)
        elif isinstance(x, ast.comprehension):
            out += [i for i in x.ifs if bare(i)]
        elif isinstance(x, ast.Call):
            f = norm(x.func)
            if f == "bool" and x.args and bare(x.args[0]):
                out.append(x)
            if f == "filter" and x.args and isinstance(x.args[0], ast.Constant) and x.args[0].value is None:
                out.append(x)
            if f in ("any", "all") and x.args and bare(x.args[0]):
                out.append(x)
        elif isinstance(x, ast.Compare) and bare(x.left) and len(x.ops) == 1 and isinstance(x.ops[0], (ast.Eq, ast.NotEq)):
            c = x.comparators[0]
            if isinstance(c, ast.Constant) and not c.value and c.value is not None:
                out.append(x)  # v == 0 / "" / False
            if isinstance(c, (ast.List, ast.Dict, ast.Set, ast.Tuple)) and not getattr(c, "elts", getattr(c, "keys", [])):
                out.append(x)
    return out


def r1_blind(P, rep, ctx):
    targets = [
        (P.func(f"{PM}._update_field"), {"v_old", "v_new"}),
        (P.func(f"{PM}.merge_with"), {"v_old", "v_new", "v_merged"}),
        (P.func(f"{PF}._get_field_vals"), {"v"}),
        (P.func("schema.core.PartialSchemas._get_field_vals"), {"v"}),
        (P.func("schema.partial.val_from_partial"), {"val", "x"}),
    ]
    for fi, names in targets:
        uses = truthiness_uses(fi.node, names)
        if not uses:
            rep.ok("C14.R1", fi.qual, f"no truthiness use of merged values {sorted(names)}", fi.loc())
        for u in uses:
            rep.fail("C14.R1", fi.qual, norm(u)[:120], f"merged value is tested for truthiness ({norm(u)[:80]}): provided falsy values (0, False, '', empty collections) are dropped", fi.loc(u))
    # the None shortcut returns the non-None operand
    fi = P.func(f"{PM}._update_field")
    g = ctx.cfg(fi)
    tests = [t for t in g.nodes if t.kind == "test" and norm(t.exprs[0]) in ("v_old is None or v_new is None", "v_new is None or v_old is None")]
    ok = False
    for t in tests:
        succ = [b for b, lab in g.succ[t.idx] if lab == "T"]
        rets = [g.nodes[b] for b in succ if isinstance(g.nodes[b].stmt, ast.Return)]
        ok = bool(rets) and all(norm(r.stmt.value) in ("v_old if v_new is None else v_new", "v_new if v_old is None else v_old", "v_new if v_new is not None else v_old", "v_old if v_old is not None else v_new") for r in rets)
    if not tests:
        # alternative: two separate tests
        t1 = [t for t in g.nodes if t.kind == "test" and norm(t.exprs[0]) == "v_old is None"]
        t2 = [t for t in g.nodes if t.kind == "test" and norm(t.exprs[0]) == "v_new is None"]
        ok = bool(t1) and bool(t2) and all(norm(g.nodes[b].stmt.value) == "v_new" for t in t1 for b, lab in g.succ[t.idx] if lab == "T" and isinstance(g.nodes[b].stmt, ast.Return)) and all(
            norm(g.nodes[b].stmt.value) == "v_old" for t in t2 for b, lab in g.succ[t.idx] if lab == "T" and isinstance(g.nodes[b].stmt, ast.Return))
    rep.check(ok, "C14.R1", fi.qual, "missing operand (None) yields the other operand unchanged, decided by `is None` only", fi.loc(), construct="None shortcut of _update_field",
              message="the None shortcut of _update_field does not return the non-None operand selected by an `is None` test")
    for q in (f"{PF}._get_field_vals", "schema.core.PartialSchemas._get_field_vals"):
        fi = P.func(q)
        gens = [x for x in walk_local(fi.node) if isinstance(x, ast.GeneratorExp)]
        conds = [norm(i) for gexp in gens for c in gexp.generators for i in c.ifs]
        flat = []
        for gexp in gens:
            for c in gexp.generators:
                for i in c.ifs:
                    flat += [norm(v) for v in i.values] if isinstance(i, ast.BoolOp) and isinstance(i.op, ast.And) else [norm(i)]
        okc = sorted(flat) in (sorted(["is_public_name(k)", "v is not None"]), ["k not in obj.__constants__"])
        rep.check(okc, "C14.R1", fi.qual, f"field values are filtered only by `is not None` / name tests ({conds})", fi.loc(), construct="_get_field_vals filter",
                  message=f"_get_field_vals filters field values by something other than `v is not None`: {conds}")


# ------------------------------------------------------------------------------------------- R2
def r2_frame(P, rep, ctx):
    fi = P.func(f"{PM}.merge_with")
    defs = local_defs(fi)
    rdefs = [norm(v) for k, v in defs.get("ret", []) if v is not None]
    rep.check(rdefs == ["self.copy()"], "C14.R2", fi.qual, "merge_with builds its result from an unconditional self.copy()", fi.loc(), construct=f"ret = {rdefs}",
              message=f"merge_with does not (always) work on a copy of the left operand: ret = {rdefs}")
    for st in walk_local(fi.node):
        if not isinstance(st, ast.stmt):
            continue
        for kind, t in store_targets(st):
            tt = norm(t)
            if isinstance(t, (ast.Subscript, ast.Attribute)):
                ok = tt.startswith("ret.__dict__[") or tt.startswith("ret.")
                rep.check(ok, "C14.R2", fi.qual, f"store goes to the copy only: {tt}", fi.loc(st), construct=norm(st)[:100], message=f"merge_with stores into an operand or shared object: {norm(st)[:100]}")
    rets = [norm(x.value) for x in walk_local(fi.node) if isinstance(x, ast.Return)]
    rep.check(rets == ["ret"], "C14.R2", fi.qual, "merge_with returns the copy", fi.loc(), construct=f"return {rets}", message=f"merge_with returns {rets}")
    for q, operands in ((f"{PM}.merge_with", {"self", "obj", "v_old", "v_new"}), (f"{PM}._update_field", {"self", "v_old", "v_new", "v_old_p", "v_new_p"}), (f"{PM}.merge", {"x", "y", "objs"}), (f"{PM}._to_partial_value", {"val", "self"})):
        f = P.func(q)
        bad = []
        for x in walk_local(f.node):
            if isinstance(x, ast.AugAssign):
                root = norm(x.target).split(".")[0].split("[")[0]
                if root in operands or root == "ret":
                    bad.append(x)
            elif isinstance(x, ast.Call) and isinstance(x.func, ast.Attribute) and x.func.attr in MUTATORS:
                rt = norm(x.func.value)
                root = rt.split(".")[0].split("[")[0]
                if root in operands and not rt.startswith("ret."):
                    bad.append(x)
            elif isinstance(x, (ast.Assign, ast.Delete)):
                for kind, t in store_targets(x):
                    if isinstance(t, (ast.Subscript, ast.Attribute)):
                        root = norm(t).split(".")[0].split("[")[0]
                        if root in operands - {"ret"}:
                            bad.append(x)
        if not bad:
            rep.ok("C14.R2", f.qual, f"no in-place mutation of anything derived from the operands {sorted(operands)}", f.loc())
        for b in bad:
            rep.fail("C14.R2", f.qual, norm(b)[:120], f"operand (or a value shared with it) is mutated in place: {norm(b)[:100]}", f.loc(b))
    # no keyword that switches copying off is threaded through
    for q in (f"{PM}.merge_with", f"{PM}._update_field", f"{PM}.merge"):
        f = P.func(q)
        for c in local_calls(f.node):
            if call_attr(c) in ("merge_with", "_update_field"):
                extra = {k.arg for k in c.keywords if k.arg} - {"ignore_invalid", "allow_overwrite", "_path", "path"}
                rep.check(not extra, "C14.R2", f.qual, f"recursive merge call passes only the documented options ({norm(c.func)})", f.loc(c), construct=f"{norm(c.func)} kwargs {sorted(extra)}",
                          message=f"merge recursion threads an extra mode flag {sorted(extra)} through {norm(c.func)} (e.g. an in-place switch)")
    # list / set cases produce fresh values, old first
    fi = P.func(f"{PM}._update_field")
    g = ctx.cfg(fi)
    for kind_, test_txt, accepted in (("list", "isinstance(v_old, list)", ("v_old + v_new", "[*v_old, *v_new]")), ("set", "isinstance(v_old, set)", ("v_old.union(v_new)", "v_old | v_new", "{*v_old, *v_new}"))):
        tests = [t for t in g.nodes if t.kind == "test" and norm(t.exprs[0]) == test_txt]
        ok = bool(tests)
        for t in tests:
            rets = [g.nodes[b] for b, lab in g.succ[t.idx] if lab == "T" and isinstance(g.nodes[b].stmt, ast.Return)]
            ok = ok and bool(rets) and all(norm(r.stmt.value) in accepted for r in rets)
        rep.check(ok, "C14.R2", fi.qual, f"{kind_} values are merged into a fresh {kind_} ({accepted[0]})", fi.loc(), construct=f"{kind_} merge",
                  message=f"the {kind_} case of _update_field is not one of {accepted}: order/non-mutation of operands not guaranteed")


# ------------------------------------------------------------------------------------------- R3
def r3_domain(P, rep, ctx):
    n = 0
    for fi in P.functions.values():
        if fi.module.name not in ("schema.partial", "schema.core", "harvester"):
            continue
        for c in local_calls(fi.node):
            if call_attr(c) != "get_partial" or not c.args:
                continue
            a = c.args[0]
            if not (isinstance(a, ast.Call) and norm(a.func) == "type" and a.args and isinstance(a.args[0], ast.Name)):
                continue
            n += 1
            var = a.args[0].id
            g = ctx.cfg(fi)
            site = node_of(g, c)
            tests = [t.idx for t in g.nodes if t.kind == "test" and norm(t.exprs[0]) in (f"isinstance({var}, self.__partial_fac__.partial_mixin)", f"isinstance({var}, PartialModel)", f"isinstance({var}, fac.partial_mixin)")]
            ok = site is not None and any(g.edge_dominates(t, "F", site) for t in tests)
            rep.check(ok, "C14.R3", fi.qual, f"get_partial(type({var})) only when {var} is not already a partial instance", fi.loc(c), construct=norm(c),
                      message=f"get_partial(type({var})) is reachable for a value that already is a partial model (values of parsed partials are): partial-of-partial fails with an MRO TypeError")
    if n == 0:
        raise AnalysisError("C14.R3: no get_partial(type(v)) site found")
    # compatibility is tested on the partial-normalised values
    fi = P.func(f"{PM}._update_field")
    defs = local_defs(fi)
    for c in local_calls(fi.node):
        if norm(c.func) != "issubclass":
            continue
        for a in c.args:
            ok = isinstance(a, ast.Call) and norm(a.func) == "type" and isinstance(a.args[0], ast.Name)
            if ok:
                ds = [v for k, v in defs.get(a.args[0].id, []) if v is not None]
                ok = bool(ds) and all(isinstance(d, ast.Call) and (call_attr(d) == "_to_partial_value" or (call_attr(d) == "cast" and "get_partial" in norm(d))) for d in ds)
            rep.check(ok, "C14.R3", fi.qual, f"class compatibility is tested on partial-normalised values ({norm(a)})", fi.loc(c), construct=norm(c),
                      message=f"issubclass is evaluated on {norm(a)}, which is not normalised to the partial class: a complete and a partial instance of one schema count as unrelated (no recursive merge)")
    # the nested merge is invoked on the normalised values
    mcalls = [c for c in local_calls(fi.node) if call_attr(c) == "merge_with"]
    ok = bool(mcalls) and all(norm(call_recv(c)) == "v_old_p" and c.args and norm(c.args[0]) == "v_new_p" for c in mcalls)
    rep.check(ok, "C14.R3", fi.qual, "nested models are merged recursively as old.merge_with(new)", fi.loc(), construct="recursive merge call", message="the recursive merge of nested models is not `v_old_p.merge_with(v_new_p, ...)`")
    for c in mcalls:
        ao = kwarg(c, "allow_overwrite")
        rep.check(ao is not None and norm(ao) == "allow_overwrite", "C14.R3", fi.qual, "recursive merge inherits allow_overwrite", fi.loc(c), construct="allow_overwrite in recursion", message="recursive merge does not pass allow_overwrite on")


# ------------------------------------------------------------------------------------------- R5
def r5_mergeable_shapes(P, rep, ctx):
    """The merge rule is only defined for 'mergeable' field shapes; the schema check must enforce them for every public field."""
    fi = P.func("schema.core.check_allowed_types")
    g = ctx.cfg(fi)
    loops = [n for n in g.nodes if n.kind == "for" and norm(n.stmt.iter) == "hints.items()"]
    pub = [t.idx for t in g.nodes if t.kind == "test" and norm(t.exprs[0]) == "not is_public_name(field)"]
    mt = [t for t in g.nodes if t.kind == "test" and "is_mergeable_type(hint)" in norm(t.exprs[0])]
    exact = [t.idx for t in mt if norm(t.exprs[0]) == "not is_mergeable_type(hint)"]
    ok = len(loops) == 1 and bool(pub) and bool(exact) and len(exact) == len(mt) and all(g.every_path_passes(exact, loops[0].idx, src=p, src_label="F") for p in pub) and all(g.exit not in g.reach([b for b, l in g.succ[t] if l == "T"]) for t in exact)
    rep.check(ok, "C14.R5", fi.qual, "every public field of a schema (inherited, overridden or new) must have a mergeable shape, else TypeError", fi.loc(), construct=f"mergeable test {[norm(t.exprs[0]) for t in mt]}",
              message=f"check_allowed_types applies the mergeable-shape test under {[norm(t.exprs[0]) for t in mt]}: some public fields (e.g. re-declared inherited ones) escape it, and partials of such schemas merge list/set with scalar values wrongly")
    hd = [norm(v) for k, v in local_defs(fi).get("hints", []) if v is not None]
    rep.check(hd == ["cast(Any, schema._typehints)"], "C14.R5", fi.qual, "the test runs over the schema's complete type hints", fi.loc(), construct=f"hints = {hd}", message=f"check_allowed_types iterates over {hd}")
    im = P.func("schema.partial.is_mergeable_type")
    rep.check("return _check_type_mergeable(hint, allow_none=True)" in norm(im.node), "C14.R5", im.qual, "is_mergeable_type is the documented shape check", im.loc(), construct="is_mergeable_type", message="is_mergeable_type changed")


# ------------------------------------------------------------------------------------------- R4
def r4_policy(P, rep, ctx):
    fi = P.func(f"{PM}._update_field")
    g = ctx.cfg(fi)
    tests = [t.idx for t in g.nodes if t.kind == "test" and norm(t.exprs[0]) == "not allow_overwrite"]
    final = [n.idx for n in g.nodes if n.kind == "stmt" and isinstance(n.stmt, ast.Return) and norm(n.stmt.value) in ("v_new", "v_old") and not any(n.idx in [b for b, lab in g.succ[t.idx]] for t in g.nodes if t.kind == "test" and "is None" in norm(t.exprs[0]))]
    ok = bool(tests) and bool(final)
    for t in tests:
        tsucc = [b for b, lab in g.succ[t] if lab == "T"]
        ok = ok and g.exit not in g.reach(tsucc) and all(any(isinstance(g.nodes[x].stmt, ast.Raise) and "ValueError" in norm(g.nodes[x].stmt) for x in g.reach(tsucc) | set(tsucc)) for _ in [0])
    for f in final:
        ok = ok and any(g.edge_dominates(t, "F", f) for t in tests)
    rep.check(ok, "C14.R4", fi.qual, "without allow_overwrite a conflicting opaque value raises ValueError instead of being returned", fi.loc(), construct="overwrite refusal",
              message="_update_field can overwrite a provided value although allow_overwrite is False (the raise is missing or bypassed)")
    rep.check(bool(final) and all(norm(g.nodes[f].stmt.value) == "v_new" for f in final), "C14.R4", fi.qual, "with allow_overwrite the later value wins", fi.loc(), construct="overwrite result",
              message="on the overwrite path _update_field returns the old value")
    # model test precedes the opaque path; ValidationError fallback only
    fi2 = P.func(f"{PM}.from_partial")
    txt = norm(fi2.node)
    ok = "self.__partial_fac__._get_field_vals(self)" in txt and "val_from_partial(v)" in txt and "self.__partial_src__.parse_obj(fields)" in txt
    rep.check(ok, "C14.R4", fi2.qual, "from_partial feeds exactly the recursively un-partialled field values to the source model", fi2.loc(), construct="from_partial", message="from_partial does not parse `{k: val_from_partial(v) for k, v in _get_field_vals(self)}` with the source model")
    vf = P.func("schema.partial.val_from_partial")
    t = norm(vf.node)
    ok = "isinstance(val, PartialModel)" in t and "val.from_partial()" in t and "[val_from_partial(x) for x in val]" in t and "{val_from_partial(x) for x in val}" in t
    rep.check(ok, "C14.R4", vf.qual, "val_from_partial recurses into partial models, lists and sets", vf.loc(), construct="val_from_partial", message="val_from_partial does not recurse into nested partial models / lists / sets")
    mw = P.func(f"{PM}.merge_with")
    calls = [c for c in local_calls(mw.node) if call_attr(c) == "_update_field"]
    ok = len(calls) == 1 and [norm(a) for a in calls[0].args[:2]] == ["v_old", "v_new"] and norm(kwarg(calls[0], "allow_overwrite") or ast.Constant(value=None)) == "allow_overwrite"
    rep.check(ok, "C14.R4", mw.qual, "merge_with merges each field as _update_field(old, new, allow_overwrite=allow_overwrite)", mw.loc(), construct="_update_field call in merge_with",
              message="merge_with does not call _update_field(v_old, v_new, ..., allow_overwrite=allow_overwrite)")
    d = local_defs(mw)
    olds = [norm(v) for k, v in d.get("v_old", []) if v is not None]
    rep.check(olds == ["ret.__dict__.get(f_name)"], "C14.R4", mw.qual, "the old value is read from the copy by field name", mw.loc(), construct=f"v_old = {olds}", message=f"v_old is computed as {olds}")
    fors = [x for x in walk_local(mw.node) if isinstance(x, ast.For)]
    ok = len(fors) == 1 and norm(fors[0].iter) == "self.__partial_fac__._get_field_vals(obj)"
    rep.check(ok, "C14.R4", mw.qual, "merge_with iterates over all provided (non-None) fields of the right operand", mw.loc(), construct="field iteration in merge_with", message="merge_with does not iterate over _get_field_vals(obj)")
    gm = ctx.cfg(mw)
    lp = [n for n in gm.nodes if n.kind == "for"]
    st = [n.idx for n in gm.nodes if n.kind == "stmt" and norm(n.stmt) == "ret.__dict__[f_name] = v_merged"]
    rep.check(len(lp) == 1 and bool(st) and gm.every_path_passes(st, lp[0].idx, src=lp[0].idx, src_label="iter"), "C14.R4", mw.qual, "every merged field value is stored into the result", mw.loc(), construct="store of merged value", message="merge_with computes a merged value without storing it into the result (values of the right operand are lost)")
    uf = P.func(f"{PM}._update_field")
    gu = ctx.cfg(uf)
    tm = [t.idx for t in gu.nodes if t.kind == "test" and norm(t.exprs[0]) == "old_is_model and new_is_model"]
    tc = [t.idx for t in gu.nodes if t.kind == "test" and norm(t.exprs[0]) == "new_subclass_old or old_subclass_new"]
    rc = [n.idx for n in gu.nodes if isinstance(n.stmt, ast.Return) and "merge_with(" in norm(n.stmt.value)]
    d = local_defs(uf)
    okd = [norm(v) for k, v in d.get("old_is_model", []) if v is not None] == ["isinstance(v_old, self.__partial_fac__.base_model)"] and [norm(v) for k, v in d.get("new_is_model", []) if v is not None] == ["isinstance(v_new, self.__partial_fac__.base_model)"]
    oks = [norm(v) for k, v in d.get("new_subclass_old", []) if v is not None] == ["issubclass(type(v_new_p), type(v_old_p))"] and [norm(v) for k, v in d.get("old_subclass_new", []) if v is not None] == ["issubclass(type(v_old_p), type(v_new_p))"]
    ok = bool(tm) and bool(tc) and bool(rc) and okd and oks and all(gu.edge_dominates(tm[0], "T", r) and gu.edge_dominates(tc[0], "T", r) for r in rc) and all(gu.every_path_passes(tc, gu.exit, src=t, src_label="T") or True for t in tm)
    rep.check(ok, "C14.R4", uf.qual, "nested models are merged recursively exactly when both values are models of one inheritance chain", uf.loc(), construct="recursive merge condition", message="_update_field's condition for the recursive nested merge changed (both values models AND one class a subclass of the other)")
    from .common import require_total

    for q in (f"{PM}.from_partial", f"{PM}.to_partial", f"{PM}.cast", f"{PM}._update_field", f"{PM}.merge_with", f"{PM}.merge", f"{PM}._to_partial_value", f"{PF}._get_field_vals", "schema.core.PartialSchemas._get_field_vals", "schema.partial.val_from_partial", f"{PF}.get_partial"):
        require_total(rep, ctx, "C14.R4", P.func(q))
    mt = P.func(f"{PM}.merge").nested.get("merge_two")
    if mt is not None:
        require_total(rep, ctx, "C14.R4", mt)
    vf2 = P.func("schema.partial.val_from_partial")
    gvf = ctx.cfg(vf2)
    kinds = {norm(t.exprs[0]): t.idx for t in gvf.nodes if t.kind == "test"}
    okk = all(k in kinds for k in ("isinstance(val, PartialModel)", "isinstance(val, list)", "isinstance(val, set)"))
    if okk:
        for k, want in (("isinstance(val, PartialModel)", "val.from_partial()"), ("isinstance(val, list)", "[val_from_partial(x) for x in val]"), ("isinstance(val, set)", "{val_from_partial(x) for x in val}")):
            okk = okk and all(isinstance(gvf.nodes[b].stmt, ast.Return) and norm(gvf.nodes[b].stmt.value) == want for b, l in gvf.succ[kinds[k]] if l == "T")
    rep.check(okk, "C14.R4", vf2.qual, "un-partialling dispatches on partial model / list / set with the matching conversion", vf2.loc(), construct="val_from_partial dispatch", message="val_from_partial's kind dispatch changed")
    mg = P.func(f"{PM}.merge")
    gg = ctx.cfg(mg)
    et = [t.idx for t in gg.nodes if t.kind == "test" and norm(t.exprs[0]) == "not objs"]
    rep.check(bool(et) and all(all(isinstance(gg.nodes[b].stmt, ast.Return) and norm(gg.nodes[b].stmt.value) == "cls()" for b, l in gg.succ[t] if l == "T") for t in et), "C14.R4", mg.qual, "no operands -> the empty partial", mg.loc(), construct="empty merge", message="merge() of nothing is not the empty partial")
    t = norm(mg.node)
    ok = "reduce(merge_two, objs)" in t and "return cls()" in t and "cls.cast(x).merge_with(y," in t
    rep.check(ok, "C14.R4", mg.qual, "merge folds merge_with left to right, the empty partial for no operands", mg.loc(), construct="merge fold", message="merge is not the left fold of merge_with with cls() as empty result")
