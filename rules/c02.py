"""C02 — Committed IH5 containers are never modified again  (also serves C11.R1).

Decided: write ownership (who may open a file writable / unlink), provenance of every written
path, typestate of the newest container, overlay writes only to the newest container behind
the read-only guard.  Not decided: byte identity under a misbehaving HDF5 / OS.
"""
from __future__ import annotations

import ast
from typing import List

from mdsa.astutil import arg_or_kw, call_attr, call_recv, chain, kwarg, local_calls, norm, store_targets
from mdsa.cfg import walk_local
from mdsa.loader import AnalysisError, dotted

from mdsa import match as M

from .sem import F
from .common import (
    fold_str,
    Ctx,
    calls_named,
    files_subscripts,
    fs_sinks,
    guard_nodes,
    guarded_interproc,
    index_kind,
    mode_is_writable,
    node_of,
    slice_roots,
)

EXPLANATION = (
    "Static ownership analysis of the ih5 package: (R1) every file-system sink (h5py.File / open / Path mutators / "
    "shutil / os.*) is enumerated; a writable one must be one of the table's owner sites with exactly the table's mode; "
    "(R2) the path argument of every owner call is sliced backwards and may only derive from the newest container "
    "(index -1), a freshly generated name, or the fresh target record of a merge; (R3) commit/discard are dominated by "
    "the writable-newest test and the not-read-only test, commit reopens 'r' on every normal exit; (R4) every raw "
    "container write in overlay.py targets _files[-1] and is dominated, closed over callers, by _guard_read_only; "
    "(R5, thorough) the same sink enumeration over the whole package."
)
NOT_DECIDED = "byte identity itself (trusts: an h5py.File opened 'r' does not write; the OS); user code bypassing the API"
ASSUMPTIONS = [
    "an h5py.File opened with mode 'r' never modifies its file",
    "open(..., 'rb') never modifies its file",
    "callee resolution is syntactic (self./cls./super()/module functions); dynamic dispatch via getattr with non-constant names is not followed (none in ih5/)",
]

# R1 owner table: function -> list of (sink kind, mode) allowed to be writable, with reason
OWNERS = {
    "ih5.record.IH5Record._new_container": [("h5py.File", "x"), ("h5py.File", "r+")],  # fresh path, created 'x' first
    "ih5.record.IH5Record._open": [("h5py.File", "r+")],  # only the uncommitted newest container, see R1b
    "ih5.record.IH5UserBlock.save": [("open", "r+b")],  # callers restricted by R2
    "ih5.manifest.IH5Manifest.save": [("open", "wb")],  # callers restricted by R2
    "ih5.manifest.IH5MFRecord.commit_patch": [("open", "wb")],  # the sidecar write done in place; its target is pinned by R6 (newest container's sidecar only)
    "ih5.record.IH5Record._delete_latest_container": [("Path.unlink", "w")],  # newest only, see R2/R3
    "ih5.record.IH5Record.delete_files": [("Path.unlink", "w")],  # reachable only from mode 'w' (C03.R2)
}

IH5_MODULES = ("ih5.record", "ih5.overlay", "ih5.manifest", "ih5.skeleton", "ih5.container", "ih5")

RAW_MUTATORS = {"create_group", "create_dataset", "require_group", "require_dataset", "move", "copy", "__setitem__", "__delitem__", "clear", "pop", "update", "modify", "create"}


def run(P, rep, tier):
    rep.explanation = EXPLANATION
    rep.not_decided = NOT_DECIDED
    rep.assumptions = ASSUMPTIONS
    ctx = Ctx(P)
    rep.attempt(r1_sinks, P, rep, ctx, whole_package=False)
    rep.attempt(r1b_open_rplus, P, rep, ctx)
    rep.attempt(r2_provenance, P, rep, ctx)
    rep.attempt(r2_no_internal_truncation, P, rep, ctx)
    rep.attempt(r3_typestate, P, rep, ctx)
    rep.attempt(r4_overlay_writes, P, rep, ctx)
    from . import c11

    # the manifest sidecar of a committed container is only replaced after a successful commit
    rep.attempt(c11.r2_manifest_after_commit, P, rep, ctx, rule="C02.R6")
    from . import c03

    rep.attempt(c03.r_delete_latest, P, rep, ctx, "C02.R2")
    if tier == "thorough":
        rep.attempt(r1_sinks, P, rep, ctx, whole_package=True)
    rep.floor("C02.R1", 9, "file-system sinks in ih5/")
    rep.floor("C02.R2", 6, "owner call sites")
    rep.floor("C02.R4", 11, "raw write sites in overlay.py")
    # refinement against the pinned tree for every function the rules above looked at (rules/pinned.py)
    import os as _os

    if not _os.environ.get("MDSA_PINNED_GEN"):
        from .pinned import refine

        refine(P, rep, ctx, "C02")


# ------------------------------------------------------------------------------------------- R1
def r1_sinks(P, rep, ctx, whole_package):
    rule = "C02.R5" if whole_package else "C02.R1"
    for fi in P.functions.values():
        in_ih5 = fi.module.name in IH5_MODULES
        if whole_package == in_ih5:
            continue
        for s in fs_sinks(P, fi):
            what = f"{s['kind']}(mode={s['mode']!r}) in {fi.qual}"
            loc = fi.loc(s["call"])
            if not mode_is_writable(s["kind"], s["mode"]):
                rep.ok(rule, fi.qual, f"read-only sink {what}", loc)
                continue
            if whole_package:
                # outside ih5/: a writable sink must not be given a container path; the only
                # way to get one is ih5_files / .filename of a record or __files__
                roots = slice_roots(fi, s["path"]) if s["path"] is not None else []
                txt = " ".join(norm(e) for _, e, _ in roots if e is not None)
                bad = any(t in txt for t in ("ih5_files", "__files__", "_files[", ".filename", "find_files"))
                rep.check(not bad, rule, fi.qual, f"writable sink outside ih5/ not fed a container path: {what}", loc,
                          construct=norm(s["call"]), message=f"writable sink outside the ih5 package receives a container file path: {norm(s['call'])}")
                continue
            allowed = OWNERS.get(_owner_qual(fi), [])
            ok = (s["kind"], s["mode"]) in allowed
            rep.check(ok, rule, fi.qual, f"writable sink is an owner site with the table's mode: {what}", loc,
                      construct=norm(s["call"]),
                      message=f"writable file-system sink outside the ownership table: {norm(s['call'])} "
                              f"(allowed here: {allowed or 'none'})")


def _owner_qual(fi):
    f = fi
    while f.parent is not None:
        f = f.parent
    return f.qual


def r1b_open_rplus(P, rep, ctx):
    """_open: the single 'r+' reopen replaces element -1, inside the branch 'hash of newest is None'
    and 'reopen_incomplete_patch', and its path is the newest container's filename."""
    fi = P.func("ih5.record.IH5Record._open")
    g = ctx.cfg(fi)
    rplus = [s for s in fs_sinks(P, fi) if s["kind"] == "h5py.File" and s["mode"] not in ("r",)]
    for s in rplus:
        n = node_of(g, s["call"])
        if n is None:
            continue  # inside comprehension etc. -> caught by R1 (mode table) already
        st = g.nodes[n].stmt
        loc = fi.loc(s["call"])
        # target of the assignment: <ret>.__files__[-1]
        tgt_ok = isinstance(st, ast.Assign) and all(
            isinstance(t, ast.Subscript) and isinstance(t.value, ast.Attribute) and t.value.attr == "__files__" and index_kind(t.slice) == "newest"
            for t in st.targets
        )
        rep.check(tgt_ok, "C02.R1b", fi.qual, "writable reopen replaces element -1 of __files__", loc, construct=norm(st),
                  message=f"writable reopen does not replace the newest container: {norm(st)}")
        # dominated by T-edges of the two conditions
        f = F(ctx, fi)
        for edges, desc in ((f.tests("__r._ublock(-1).hdf5_hashsum is None"), "newest container has no payload hash (uncommitted)"), (f.tests("kwargs.pop('reopen_incomplete_patch', ___)", "reopen_incomplete_patch", "__k.pop('reopen_incomplete_patch', ___)", "__k.get('reopen_incomplete_patch', ___)"), "caller asked for a writable record")):
            dominated = bool(edges) and f.hit_before(n, edges=edges)
            rep.check(dominated, "C02.R1b", fi.qual, f"writable reopen only under condition: {desc}", loc,
                      construct=f"writable reopen / {desc}",
                      message=f"writable reopen in _open is reachable without the condition '{desc}'",
                      path=g.path_text(g.find_path(n)))
        # path provenance: newest filename
        roots = slice_roots(fi, s["path"])
        subs = [k for _, e, _ in roots if e is not None for (_, _, k) in files_subscripts(e)]
        rep.check(bool(subs) and all(k == "newest" for k in subs), "C02.R1b", fi.qual, "writable reopen path derives from element -1 only", loc,
                  construct=norm(s["call"]), message=f"path of the writable reopen does not derive from the newest container only: indices {subs}")
    rep.check(len(rplus) == 1, "C02.R1b", fi.qual, "exactly one non-'r' h5py.File construction in _open", fi.loc(),
              construct="count of writable h5py.File in _open", message=f"{len(rplus)} writable h5py.File constructions in _open (expected exactly 1)")


# ------------------------------------------------------------------------------------------- R2
FRESH_NAME_CALLS = {"_next_patch_filepath", "_base_filename"}
OWNER_CALLS = {
    # method name -> (owner function quals that the call may resolve to, index of path arg (None: receiver))
    "save": 0,
    "_new_container": 0,
    "_fixes_after_merge": 0,
}


def _is_fresh_name(e):
    return isinstance(e, ast.Call) and call_attr(e) in FRESH_NAME_CALLS


def _exclusively_created_here(P, ctx, fi, expr, call):
    """expr is a plain name and an h5py.File(<same name>, 'x') construction dominates the call."""
    if not isinstance(expr, ast.Name) or call is None:
        return False
    g = ctx.cfg(fi)
    site = node_of(g, call)
    if site is None:
        return False
    creators = [node_of(g, s["call"]) for s in fs_sinks(P, fi)
                if s["kind"] == "h5py.File" and s["mode"] == "x" and isinstance(s["path"], ast.Name) and s["path"].id == expr.id]
    creators = [c for c in creators if c is not None]
    rebinds = [n.idx for n in g.nodes if n.kind == "stmt" and any(isinstance(t, ast.Name) and t.id == expr.id for _, t in store_targets(n.stmt))]
    return bool(creators) and not rebinds and g.every_path_passes(creators, site)


def _path_verdict(P, ctx, fi, expr, rep, rule, what, loc, depth=2, loc_call=None):
    """Classify the provenance of a path expression inside fi."""
    if _exclusively_created_here(P, ctx, fi, expr, loc_call):
        rep.ok(rule, fi.qual, f"path of {what} was created exclusively (mode 'x') earlier in the same call", loc)
        return True
    roots = slice_roots(fi, expr, stop=_is_fresh_name)
    problems, facts = [], []
    fresh_with = _fresh_record_vars(fi)
    for kind, e, via in roots:
        if kind == "param":
            # bind through callers (one level per depth)
            if depth == 0:
                problems.append(f"parameter {via} not bound within depth")
                continue
            owner = fi
            callers = [c for c in ctx.cg.callers(owner.qual) if c != owner.qual]
            pidx = [p for p in owner.params if p not in ("self", "cls")].index(via) if via in owner.params else None
            if not callers:
                facts.append(f"param {via}: no repo caller (public entry point)")
                continue
            for cq in callers:
                cfi = P.functions[cq]
                for call in ctx.cg.sites.get((cq, owner.qual), []):
                    a = arg_or_kw(call, pidx, via) if pidx is not None else None
                    if a is None:
                        problems.append(f"argument for {via} not found at {cfi.loc(call)}")
                        continue
                    sub_ok = _path_verdict(P, ctx, cfi, a, rep, rule, f"{what} <- {cq}", cfi.loc(call), depth - 1, loc_call=call)
                    if not sub_ok:
                        problems.append(f"caller {cq} passes a disallowed path")
            continue
        if kind == "iter":
            t = norm(e)
            if any(a in t for a in ("__files__", "_files", "ih5_files")) and not _rooted_at(e, fresh_with):
                problems.append(f"loop variable {via} ranges over the record's file list: {t}")
            continue
        if kind == "with":
            continue
        for sub, root, k in files_subscripts(e):
            if _rooted_at(sub, fresh_with):
                facts.append(f"{norm(sub)} of the fresh record")
                continue
            if k != "newest":
                problems.append(f"{norm(sub)} addresses container index {k}, not the newest")
            else:
                facts.append(f"{norm(sub)} (newest)")
        for c in local_calls(e) if e is not None else []:
            if call_attr(c) == "pop" and isinstance(c.func, ast.Attribute) and isinstance(c.func.value, ast.Attribute) and c.func.value.attr in ("__files__", "_files"):
                if c.args:
                    problems.append(f"{norm(c)} pops a container other than the last")
                else:
                    facts.append(f"{norm(c)} (pops the newest)")
    ok = not problems
    rep.check(ok, rule, fi.qual, f"path of {what} derives only from newest container / fresh name / fresh record", loc,
              construct=f"{what}: {norm(expr)}", message=f"path argument of {what} may address a committed container: " + "; ".join(problems))
    return ok


def _fresh_record_vars(fi):
    """Names bound by `with type(self)(target, "x") as ds` (fresh target record of a merge) or
    `ds = <Cls>._create(...)`."""
    out = set()
    for st in walk_local(fi.node):
        if isinstance(st, ast.With):
            for i in st.items:
                c = i.context_expr
                if isinstance(c, ast.Call) and isinstance(i.optional_vars, ast.Name) and len(c.args) >= 2 and isinstance(c.args[1], ast.Constant) and c.args[1].value in ("x", "w-"):
                    out.add(i.optional_vars.id)
        elif isinstance(st, ast.Assign) and isinstance(st.value, ast.Call) and call_attr(st.value) == "_create":
            for t in st.targets:
                if isinstance(t, ast.Name):
                    out.add(t.id)
    return out


def _rooted_at(e, names):
    ch = chain(e)
    return bool(ch) and ch[0][0] == "name" and ch[0][1] in names


RECORD_CTORS = ("cls", "type(self)", "self.__class__", "IH5Record", "IH5MFRecord", "IH5")


def r2_no_internal_truncation(P, rep, ctx):
    """Only the user asks for mode 'w' (replace the whole record).  Library code that opens a record with a truncating mode,
    or creates one with truncate=True outside the 'w' branch of the constructor, can wipe committed containers that happen
    to live at that path."""
    n = 0
    for fi in P.functions.values():
        if not isinstance(fi.node, (ast.FunctionDef, ast.AsyncFunctionDef)):
            continue
        for c in local_calls(fi.node):
            fn = norm(c.func)
            if fn in RECORD_CTORS or fn.split(".")[-1] in ("IH5Record", "IH5MFRecord"):
                n += 1
                mode = arg_or_kw(c, 1, "mode")
                m = fold_str(P, fi, mode) if mode is not None else "r"
                rep.check(m is None or not m.startswith("w") or fi.module.name not in IH5_MODULES + ("container.drivers", "container", "packer", "packer.utils", "packer.interface"), "C02.R2", fi.qual, f"record opened by library code with a non-truncating mode: {norm(c)[:60]}", fi.loc(c), construct=f"record open mode {norm(c)[:80]}",
                          message=f"{fi.qual} opens a record with the truncating mode {m!r} ({norm(c)[:80]}): if a record already exists at that path its committed containers are deleted")
            if call_attr(c) == "_create" and kwarg(c, "truncate") is not None:
                tv = norm(kwarg(c, "truncate"))
                okc = tv == "False" or (fi.qual == "ih5.record.IH5Record.__init__" and tv in ("mode == 'w'", "'w' == mode"))
                rep.check(okc, "C02.R2", fi.qual, f"_create truncates only for the user's mode 'w': truncate={tv}", fi.loc(c), construct=f"_create truncate={tv}", message=f"{fi.qual} creates a record with truncate={tv}: existing committed containers are deleted without the user having asked for mode 'w'")
    if n < 3:
        raise AnalysisError(f"C02.R2: only {n} record constructions found in the package")


def r2_provenance(P, rep, ctx):
    n_sites = 0
    for fi in P.functions.values():
        if fi.module.name not in IH5_MODULES:
            continue
        for c in local_calls(fi.node):
            nm = call_attr(c)
            loc = fi.loc(c)
            if nm == "save" and isinstance(c.func, ast.Attribute) and c.args:
                _path_verdict(P, ctx, fi, c.args[0], rep, "C02.R2", f"{norm(c.func)}()", loc, loc_call=c)
            elif nm == "_new_container" and c.args:
                # must be a fresh name (or a parameter bound to one)
                roots = slice_roots(fi, c.args[0], stop=_is_fresh_name)
                fresh = any(call_attr(x) in FRESH_NAME_CALLS for _, e, _ in roots if e is not None for x in local_calls(e))
                rep.check(fresh, "C02.R2", fi.qual, "_new_container receives a freshly generated file name", loc, construct=norm(c),
                          message=f"_new_container is given a path that is not generated by {sorted(FRESH_NAME_CALLS)}: {norm(c)}")
            elif nm == "unlink" and isinstance(c.func, ast.Attribute) and _owner_qual(fi) == "ih5.record.IH5Record._delete_latest_container":
                _path_verdict(P, ctx, fi, c.func.value, rep, "C02.R2", "unlink()", loc)
    # _delete_latest_container / delete_files: who may call
    for target, allowed in (
        ("ih5.record.IH5Record._delete_latest_container", {"ih5.record.IH5Record.discard_patch"}),
        ("ih5.record.IH5Record.delete_files", {"ih5.record.IH5Record._create"}),
    ):
        P.func(target)
        callers = set(ctx.cg.callers(target))
        rep.check(callers <= allowed, "C02.R2", target, f"only {sorted(allowed)} may call {target.rsplit('.', 1)[-1]}", P.func(target).loc(),
                  construct=f"callers of {target}", message=f"unexpected callers of {target}: {sorted(callers - allowed)}")
    # delete_files in _create only under `truncate`
    fi = P.func("ih5.record.IH5Record._create")
    g = ctx.cfg(fi)
    f = F(ctx, fi)
    for n in calls_named(g, "delete_files"):
        dominated = f.hit_before(n, edges=f.tests("truncate"))
        rep.check(dominated, "C02.R2", fi.qual, "delete_files only on the truncate branch", fi.loc(g.nodes[n].stmt), construct="delete_files under truncate",
                  message="_create calls delete_files on a path where `truncate` was not requested")


def _negated_name(test, name):
    for x in ast.walk(test):
        if isinstance(x, ast.UnaryOp) and isinstance(x.op, ast.Not) and name in norm(x.operand) and isinstance(x.operand, ast.Name):
            return True
    return False


# ------------------------------------------------------------------------------------------- R3
def r3_typestate(P, rep, ctx):
    # _has_writable reads mode 'r+' of element -1 only
    fi = P.func("ih5.record.IH5Record._has_writable")
    subs = files_subscripts(fi.node)
    rep.check(bool(subs) and all(k == "newest" for _, _, k in subs), "C02.R3", fi.qual, "_has_writable inspects element -1 only", fi.loc(),
              construct="index used by _has_writable", message=f"_has_writable inspects container indices {[k for _, _, k in subs]} (must be the newest only)")
    # on every path the answer can only be true when the newest handle's mode compared equal to 'r+'
    hw = F(ctx, fi)
    try:
        hpaths = hw.value_paths()
    except ValueError as e:
        raise AnalysisError(f"C02.R3: _has_writable: {e}")
    cmp_ok = bool(hpaths)
    # ... and "no" is only answered for a reason that makes an uncommitted patch impossible: no container, closed handle,
    # handle not 'r+', or a recorded payload hash.  (Anything else -- e.g. how *this* object was opened -- hides a patch
    # that another handle of the same record is still writing: merge / commit guards then let the operation through.)
    neg_ok = True
    bad_reason = ""
    for lits, v, n_ in hpaths:
        if isinstance(v, ast.Constant) and not v.value:
            why = False
            for k, tv in lits:
                kp = M.pat(k)
                if not tv and (k in ("self.__files__", "len(self.__files__)") or M.match("__f.mode == 'r+'", kp) is not None or M.match("'r+' == __f.mode", kp) is not None
                               or M.match("self._ublock(__i).hdf5_hashsum is None", kp) is not None or M.match("bool(__f)", kp) is not None
                               or (isinstance(kp, (ast.Name, ast.Subscript)) and "__files__" in hw.x(kp))):
                    why = True
            if not why:
                neg_ok = False
                bad_reason = " & ".join(("" if tv else "not ") + k for k, tv in lits)
            continue
        pos = {k for k, tv in lits if tv}
        for c_ in M.conjuncts(v):
            a_, neg = M.polarity(c_)
            if not neg:
                pos.add(norm(a_))
        cmp_ok = cmp_ok and any(M.match("__f.mode == 'r+'", M.pat(k)) is not None or M.match("'r+' == __f.mode", M.pat(k)) is not None for k in pos)
    rep.check(cmp_ok, "C02.R3", fi.qual, "_has_writable is `mode == 'r+'`", fi.loc(), construct="mode comparison in _has_writable",
              message="_has_writable does not compare the newest container's mode with 'r+'")
    rep.check(neg_ok, "C02.R3", fi.qual, "_has_writable answers False only when there is no container, the newest handle is closed / not 'r+', or its block carries a hash", fi.loc(), construct="negative answers of _has_writable",
              message=f"_has_writable answers False when `{bad_reason}`: an uncommitted patch of the record is hidden from the guards of merge / commit / create_patch")
    # the handle mode alone is not a sound typestate (HDF5 shares open flags between the handles of a process):
    # a container whose user block already carries a payload hash is committed and must never count as writable
    f = F(ctx, fi)
    pos = [(i, v) for i, v in f.returns() if v is not None and not (isinstance(v, ast.Constant) and v.value is False)]
    uncommitted = f.tests("self._ublock(-1).hdf5_hashsum is None", "self._ublock(__f).hdf5_hashsum is None")

    def _needs_uncommitted(i, v):
        # either the returned conjunction contains the atom, or the return is reached only on its true edge
        cj = [M.polarity(c) for c in M.conjuncts(f.xe(v))]
        if any(not neg and M.match("self._ublock(__i).hdf5_hashsum is None", a) is not None for a, neg in cj):
            return True
        return bool(uncommitted) and f.hit_before(i, edges=uncommitted)

    conj_ok = bool(pos) and all(_needs_uncommitted(i, v) for i, v in pos)
    rep.check(conj_ok, "C02.R3", fi.qual, "a container with a recorded payload hash (committed) never counts as writable, whatever mode the handle reports", fi.loc(), construct="_has_writable requires an uncommitted newest container",
              message="_has_writable infers writability from the h5py handle's mode alone: HDF5 shares open flags between handles of one process, so with a second handle on the record open the committed container still reports 'r+' after commit_patch and later writes modify it")
    # _expect_not_ro raises iff mode == 'r'; mode derives from _allow_patching
    fi = P.func("ih5.record.IH5Record._expect_not_ro")
    g = ctx.cfg(fi)
    f = F(ctx, fi)
    ro = f.tests("self.mode == 'r'", "not self._allow_patching", "self.mode != 'r+'")
    ok = f.refuses(ro)
    rep.check(ok, "C02.R3", fi.qual, "_expect_not_ro raises when the record was opened 'r'", fi.loc(), construct="_expect_not_ro",
              message="_expect_not_ro does not raise on every path when mode == 'r'")
    for q in ("commit_patch", "discard_patch", "create_patch"):
        fi = P.func(f"ih5.record.IH5Record.{q}")
        g = ctx.cfg(fi)
        effects = _state_effects(P, fi, g)
        if not effects:
            raise AnalysisError(f"C02.R3: no state effect found in {fi.qual}")
        guards = calls_named(g, "_expect_not_ro")
        f = F(ctx, fi)
        writable = f.tests("self._has_writable")
        for e in effects:
            loc = fi.loc(g.nodes[e].stmt)
            rep.check(g.every_path_passes(guards, e), "C02.R3", fi.qual, f"_expect_not_ro dominates `{g.nodes[e].text()[:60]}`", loc,
                      construct=f"_expect_not_ro before {g.nodes[e].text()}", message=f"{q}: effect reachable without _expect_not_ro (mode 'r' must be strictly read-only)",
                      path=g.path_text(g.find_path(e, avoid=guards)))
            # commit/discard act only when the newest container is writable, create_patch only when it is not;
            # the other outcome of the test must refuse
            need = writable if q in ("commit_patch", "discard_patch") else f.neg(writable)
            dominated = bool(need) and f.hit_before(e, edges=need) and f.refuses(f.neg(need))
            rep.check(dominated, "C02.R3", fi.qual, f"writable-newest test dominates `{g.nodes[e].text()[:60]}`", loc,
                      construct=f"_has_writable before {g.nodes[e].text()}",
                      message=f"{q}: effect reachable without the {'`not self._has_writable` -> raise' if q != 'create_patch' else '`self._has_writable` -> raise'} test")
    # commit_patch: on every normal exit the newest element was reopened 'r'
    fi = P.func("ih5.record.IH5Record.commit_patch")
    g = ctx.cfg(fi)
    reopen = []
    for n in g.nodes:
        st = n.stmt
        if n.kind == "stmt" and isinstance(st, ast.Assign) and isinstance(st.value, ast.Call) and (dotted(st.value.func) or "").endswith("h5py.File"):
            sk = [s for s in fs_sinks(P, fi) if s["call"] is st.value]
            if sk and sk[0]["mode"] == "r" and all(isinstance(t, ast.Subscript) and index_kind(t.slice) == "newest" and norm(t.value).endswith("__files__") for t in st.targets):
                reopen.append(n.idx)
    rep.check(bool(reopen) and g.every_path_passes(reopen, g.exit), "C02.R3", fi.qual, "commit_patch leaves element -1 reopened 'r' on every normal exit", fi.loc(),
              construct="reopen 'r' on all normal exits of commit_patch", message="commit_patch has a normal exit on which the newest container is not reopened read-only",
              path=g.path_text(g.find_path(g.exit, avoid=reopen)))
    # ... and ONLY after the user block was written: the in-memory record may present the newest container as committed
    # (read-only handle, hash recorded) only when the hash is on disk.  A reopen in a `finally:` / `except:` of the try
    # around save() also runs when save() failed: the object then reports a committed patch that the files do not have
    # (merge_files is no longer refused, create_patch stacks a patch on an uncommitted one).
    for t in walk_local(fi.node):
        if not isinstance(t, ast.Try):
            continue
        body_calls = [c for b in t.body for c in local_calls(b)]
        if not any(call_attr(c) == "save" for c in body_calls):
            continue
        cleanup = list(t.finalbody) + [b for h in t.handlers for b in h.body]
        for b in cleanup:
            for x in ast.walk(b):
                bad = isinstance(x, ast.Call) and (dotted(x.func) or "").endswith("h5py.File")
                rep.check(not bad, "C02.R3", fi.qual, "the newest container is reopened as committed only after save() returned normally", fi.loc(b), construct="reopen in the clean-up of the try around save()",
                          message="commit_patch reopens the newest container read-only in a finally/except block around IH5UserBlock.save: after a failed save the record object presents a committed patch whose user block on disk has no hash (merge / create_patch are no longer refused)")
    rep.check(True, "C02.R3", fi.qual, "the newest container is reopened as committed only after save() returned normally", fi.loc(), construct="reopen after save")


def _state_effects(P, fi, g) -> List[int]:
    """Nodes of commit/discard/create_patch that change files or the file list."""
    out = []
    for n in g.nodes:
        if n.kind != "stmt":
            continue
        txt = n.text()
        hit = False
        for c in g.calls(n.idx):
            nm = call_attr(c)
            if nm in ("save", "_new_container", "_delete_latest_container", "unlink", "close", "append", "pop") or (dotted(c.func) or "").endswith("h5py.File"):
                hit = True
        for kind, t in store_targets(n.stmt):
            if any(a in norm(t) for a in ("__files__", "_ublocks", "hdf5_hashsum")):
                hit = True
        if hit:
            out.append(n.idx)
    return out


# ------------------------------------------------------------------------------------------- R4
def overlay_raw_writes(P, ctx, modules=("ih5.overlay", "ih5.skeleton")):
    """(fi, cfg node idx, description, index kind) for each raw container write via X._files[i] / X.__files__[i]."""
    out = []
    for fi in P.functions.values():
        if fi.module.name not in modules or not isinstance(fi.node, (ast.FunctionDef, ast.AsyncFunctionDef)):
            continue
        g = ctx.cfg(fi)
        for n in g.nodes:
            if n.kind not in ("stmt",):
                continue
            st = n.stmt
            for kind, t in store_targets(st):
                ch = chain(t)
                if not ch:
                    continue
                idxs = [i for i, p in enumerate(ch) if p[0] == "attr" and p[1] in ("_files", "__files__")]
                if not idxs:
                    continue
                i = idxs[0]
                # X._files[idx][...]... = v   (at least one more subscript/attr after the container)
                if len(ch) > i + 2 and ch[i + 1][0] == "sub":
                    out.append((fi, n.idx, f"{kind} {norm(t)}", index_kind(ch[i + 1][1])))
            for c in g.calls(n.idx):
                if not isinstance(c.func, ast.Attribute) or c.func.attr not in RAW_MUTATORS:
                    continue
                ch = chain(c.func.value)
                if not ch:
                    continue
                idxs = [i for i, p in enumerate(ch) if p[0] == "attr" and p[1] in ("_files", "__files__")]
                if idxs and len(ch) > idxs[0] + 1 and ch[idxs[0] + 1][0] == "sub":
                    out.append((fi, n.idx, f"call {norm(c.func)}()", index_kind(ch[idxs[0] + 1][1])))
    return out


def r4_overlay_writes(P, rep, ctx):
    for q in ("ih5.overlay.IH5Node._guard_read_only", "ih5.overlay.IH5Node._is_read_only"):
        P.func(q)
    # guard body: raises when _is_read_only
    fi = P.func("ih5.overlay.IH5Node._guard_read_only")
    g = ctx.cfg(fi)
    f = F(ctx, fi)
    ro = f.tests("self._is_read_only", "not self._record._has_writable")
    ok = f.refuses(ro) and f.hit_before(g.exit, nodes=f.test_nodes(ro))
    rep.check(ok, "C02.R4", fi.qual, "_guard_read_only raises when the newest container is not writable", fi.loc(), construct="_guard_read_only body",
              message="_guard_read_only does not raise on every path when the record has no writable container")
    fi = P.func("ih5.overlay.IH5Node._is_read_only")
    f = F(ctx, fi)
    rets = [v for _, v in f.returns() if v is not None]
    rep.check(len(rets) >= 1 and all(M.equivalent(f.xe(v), "not self._record._has_writable") for v in rets), "C02.R4", fi.qual, "_is_read_only == not record._has_writable", fi.loc(), construct="_is_read_only body",
              message=f"_is_read_only is not `not self._record._has_writable`: {f.return_texts()}")
    for fi, n, desc, k in overlay_raw_writes(P, ctx):
        g = ctx.cfg(fi)
        loc = fi.loc(g.nodes[n].stmt)
        rep.check(k == "newest", "C02.R4", fi.qual, f"raw write targets the newest container: {desc}", loc, construct=desc,
                  message=f"raw container write addresses container index {k}, not the newest: {desc}")
        ok, ch = guarded_interproc(ctx, fi, n, {"_guard_read_only"})
        rep.check(ok, "C02.R4", fi.qual, f"_guard_read_only dominates (closed over callers): {desc}", loc, construct="guard before " + desc,
                  message=f"raw container write reachable without _guard_read_only: {desc}", path=ch)
