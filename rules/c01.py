"""C01 — IH5 overlay is transparent: patch boundaries are unobservable.

Whole property = equality of the overlay view with a reference tree for all histories: not decided.
Decided are necessary conditions on ih5/overlay.py:
 R1 child resolution: newest-to-oldest scan from the node's lower bound; a child's bound is lowered only while every
    newer sighting was virtual, and the virtual flag is refreshed at each lowering; deleted entries and the
    substitution marker are filtered unconditionally from the result;
 R2 delete leaves a deletion marker in the newest container whenever the record has patches;
 R3 create marks substitution / removes a stale deletion marker first;
 R4 writer's and reader's markers agree;
 R5 guard discipline (_guard_open, _guard_read_only dominate every raw write, closed over callers);
 R6 move/copy work through the overlay primitives only (so that markers are written).
"""
from __future__ import annotations

import ast
from typing import List, Optional, Set, Tuple

from mdsa.astutil import call_attr, chain, local_calls, norm, store_targets
from mdsa.cfg import CFG, walk_local
from mdsa.loader import AnalysisError, NoFold

from . import c02
from .common import Ctx, guarded_interproc, index_kind, local_defs, node_of

O = "ih5.overlay"
EXPLANATION = (
    "Five structural necessary conditions of overlay transparency, each decided on every path of the anchored functions: "
    "(R1) in IH5InnerNode._children the scan runs newest→oldest from the node's lower bound, every store that lowers an existing "
    "bound is control-dependent on the per-key virtual flag and refreshes that flag from the raw child at the current index on every "
    "path back to the loop, and the result filter drops deletion marks / the substitution attribute unconditionally; (R2) a small "
    "abstract interpretation over 'record may have patches' shows every normal exit of both __delitem__ methods on which the record "
    "may have patches passed the DEL_VALUE store into _files[-1] at the deleted key, after the existence check; (R3) create_group "
    "marks SUBST_KEY on a patch, stale deletion markers are removed before creation; (R4) constants/predicates of writers and readers "
    "agree; (R5) _guard_open and _guard_read_only dominate every raw write (closed over callers); (R6) move == copy then delete via the "
    "overlay API, no raw container access in move/copy."
)
NOT_DECIDED = "equality of the overlay view with the reference tree over all histories and patch placements (runtime values); key validation of create_group names (outside the documented key alphabet quantifier)"

PATCH_TRUE = {"len(self._files) > 1", "len(self._files) >= 2", "self._last_idx > 0", "self._last_idx >= 1", "1 < len(self._files)"}
PATCH_FALSE = {"len(self._files) == 1", "len(self._files) <= 1", "len(self._files) < 2", "self._last_idx == 0", "not len(self._files) > 1"}


def run(P, rep, tier):
    rep.explanation = EXPLANATION
    rep.not_decided = NOT_DECIDED
    rep.assumptions = ["h5py semantics of del / item assignment / attrs on a File opened r+", "keys come from the documented IH5 key alphabet (printable ASCII without '@')"]
    ctx = Ctx(P)
    rep.attempt(r1_children, P, rep, ctx)
    rep.attempt(r2_delete_marker, P, rep, ctx)
    rep.attempt(r3_create, P, rep, ctx)
    rep.attempt(r4_markers, P, rep, ctx)
    rep.attempt(r5_guards, P, rep, ctx)
    rep.attempt(r6_move_copy, P, rep, ctx)
    rep.attempt(r7_snapshot_before_mutation, P, rep, ctx)
    rep.floor("C01.R1", 7)
    rep.floor("C01.R2", 6)
    rep.floor("C01.R3", 4)
    rep.floor("C01.R4", 8)
    rep.floor("C01.R5", 22)


# ------------------------------------------------------------------------------------------- R1
def r1_children(P, rep, ctx):
    fi = P.func(f"{O}.IH5InnerNode._children")
    g = ctx.cfg(fi)
    # outer scan
    outer = [n for n in g.nodes if n.kind == "for" and "range(" in norm(n.stmt.iter) and "_files" in norm(n.stmt.iter)]
    if len(outer) != 1:
        raise AnalysisError("C01.R1: container scan loop of _children not found")
    oi = outer[0]
    it = norm(oi.stmt.iter)
    ivar = norm(oi.stmt.target)
    rep.check(it in ("reversed(range(self._cidx, len(self._files)))", "range(len(self._files) - 1, self._cidx - 1, -1)"), "C01.R1", fi.qual, "scan runs from the newest container down to the node's lower bound", fi.loc(oi.stmt),
              construct=f"scan order {it}", message=f"_children scans containers as `{it}`: resolution must go newest → oldest and stop at the node's lower bound (_cidx)")
    inner = [n for n in g.nodes if n.kind == "for" and norm(n.stmt.iter) in ("obj.keys()", "obj")]
    if len(inner) != 1:
        raise AnalysisError("C01.R1: key loop of _children not found")
    kn = inner[0]
    kvar = norm(kn.stmt.target)
    # stores to the bound map
    bound_stores = [n for n in g.nodes if n.kind == "stmt" and isinstance(n.stmt, ast.Assign) and any(isinstance(t, ast.Subscript) and norm(t.slice) == kvar and isinstance(t.value, ast.Name) for t in n.stmt.targets)]
    maps = {}
    for n in bound_stores:
        for t in n.stmt.targets:
            maps.setdefault(norm(t.value), []).append(n)
    # the bound map is the one returned (through the final comprehension over <map>.items())
    ret = [x for x in walk_local(fi.node) if isinstance(x, ast.Return) and isinstance(x.value, ast.DictComp)]
    if len(ret) != 1:
        raise AnalysisError("C01.R1: result comprehension of _children not found")
    comp = ret[0].value
    src = norm(comp.generators[0].iter)
    bmap = next((m for m in maps if f"{m}.items()" in src), None)
    if bmap is None:
        raise AnalysisError("C01.R1: bound map of _children not identified")
    first_tests = [t.idx for t in g.nodes if t.kind == "test" and norm(t.exprs[0]) == f"{kvar} not in {bmap}"]
    lowering = [n for n in maps[bmap] if not any(g.edge_dominates(t, "T", n.idx) for t in first_tests)]
    firsts = [n for n in maps[bmap] if n not in lowering]
    rep.check(bool(firsts) and all(norm(n.stmt.value) == ivar for n in firsts), "C01.R1", fi.qual, "first (newest) sighting of a child sets its bound to the current container index", fi.loc(),
              construct="first sighting store", message="the first sighting of a child does not record the current container index")
    flagmaps = [m for m in maps if m != bmap]
    if not lowering:
        rep.info("_children never lowers an existing bound (no virtual extension): nothing to check for R1 lowering")
    for n in lowering:
        loc = fi.loc(n.stmt)
        # (a) control dependent on the per-key flag
        tests = [t.idx for t in g.nodes if t.kind == "test" and any(norm(t.exprs[0]) in (f"{m}[{kvar}]", f"{m}.get({kvar})", f"{kvar} in {m} and {m}[{kvar}]") for m in flagmaps)]
        dep = any(g.edge_dominates(t, "T", n.idx) for t in tests)
        rep.check(dep, "C01.R1", fi.qual, "lowering an existing bound is conditional on the child's still-virtual flag", loc, construct=f"lowering store {norm(n.stmt)}",
                  message=f"`{norm(n.stmt)}` lowers the bound of a child without consulting its virtual flag: children of a replaced group reappear")
        # (b) flag refreshed from the raw child at the current index on every path back to the key loop
        refresh = [r.idx for m in flagmaps for r in maps[m] if norm(r.stmt.value) == f"_node_is_virtual(self._get_child_raw({kvar}, {ivar}))"]
        back = g.every_path_passes(refresh, kn.idx, src=n.idx) if refresh else False
        rep.check(back, "C01.R1", fi.qual, "the virtual flag is refreshed from the raw child at the current index whenever the bound is lowered", loc, construct=f"flag refresh after {norm(n.stmt)}",
                  message="after lowering a child's bound the 'still virtual' flag is not refreshed from the node seen in this container: a replace in patch k followed by a touch in patch k+1 slides the bound below k and resurrects the replaced group's old children",
                  path=g.path_text(g.find_path(kn.idx, avoid=refresh, src=n.idx)))
        rep.check(norm(n.stmt.value) in (f"min({norm(n.stmt.targets[0])}, {ivar})", ivar), "C01.R1", fi.qual, "the bound is lowered to the current container index", loc, construct=f"lowered value {norm(n.stmt.value)}",
                  message=f"bound lowered to {norm(n.stmt.value)}")
    for m in flagmaps:
        fs = [r for r in maps[m] if any(g.edge_dominates(t, "T", r.idx) for t in first_tests)]
        rep.check(bool(fs) and all(norm(r.stmt.value) == f"_node_is_virtual(self._get_child_raw({kvar}, {ivar}))" for r in fs), "C01.R1", fi.qual, "flag initialised from the newest sighting", fi.loc(), construct="flag init",
                  message="the virtual flag is not initialised from the newest sighting of the child")
    # result filter
    conds = []
    for c in comp.generators[0].ifs:
        conds += c.values if isinstance(c, ast.BoolOp) and isinstance(c.op, ast.And) else [c]
    tv = [norm(t) for t in (comp.generators[0].target.elts if isinstance(comp.generators[0].target, ast.Tuple) else [])]
    kk, ix = (tv + ["k", "idx"])[:2]
    delc = [c for c in conds if "_node_is_del_mark" in norm(c)]
    ok = len(delc) == 1 and norm(delc[0]) == f"not _node_is_del_mark(self._get_child_raw({kk}, {ix}))"
    rep.check(ok, "C01.R1", fi.qual, "entries whose resolved node is a deletion mark are dropped unconditionally", fi.loc(ret[0]), construct="deletion filter of _children",
              message=f"the result of _children does not drop deletion marks unconditionally (filter: {[norm(c) for c in delc] or 'none'}): deleted entries stay visible")
    subc = [c for c in conds if "SUBST_KEY" in norm(c)]
    ok = len(subc) == 1 and norm(subc[0]) in (f"not self._is_attrs or {kk} != SUBST_KEY", f"{kk} != SUBST_KEY or not self._is_attrs")
    rep.check(ok, "C01.R1", fi.qual, "the substitution marker attribute is hidden from attribute listings", fi.loc(ret[0]), construct="SUBST filter of _children", message="the SUBST marker attribute is not filtered from attribute listings")
    rep.check(norm(comp.key) == kk and norm(comp.value) == ix, "C01.R1", fi.qual, "result maps each child to its resolved bound", fi.loc(ret[0]), construct="result mapping", message="result comprehension does not map child -> bound")
    # resolution by successive child lookup uses _children of each prefix
    ns = P.func(f"{O}.IH5InnerNode._node_seq")
    t = norm(ns.node)
    rep.check("curr._children().get(seg, -1)" in t and "curr._get_child(seg, nxt_cidx)" in t, "C01.R1", ns.qual, "path resolution looks every segment up through _children of the previous node", ns.loc(), construct="_node_seq lookup",
              message="_node_seq does not resolve segments through `curr._children().get(seg)` / `curr._get_child(seg, idx)`")


# ------------------------------------------------------------------------------------------- R2
def may_be_patch_exits(g: CFG, stores: Set[int]) -> Optional[List[int]]:
    """Abstract interpretation over {U: record may have patches, N: known to have none}.  Returns a path
    (node indices) from entry to the normal exit in state U that passes no marker store, or None."""
    start = (g.entry, "U")
    prev = {start: None}
    todo = [start]
    while todo:
        node, st = todo.pop()
        if node == g.exit and st == "U":
            out, x = [], (node, st)
            while x is not None:
                out.append(x[0])
                x = prev[x]
            return list(reversed(out))
        n = g.nodes[node]
        for b, lab in g.succ[node]:
            if b in stores:
                continue  # obligation met on this path
            st2 = st
            if n.kind == "test":
                t = norm(n.exprs[0])
                conj = [norm(v) for v in n.exprs[0].values] if isinstance(n.exprs[0], ast.BoolOp) and isinstance(n.exprs[0].op, ast.And) else [t]
                if t in PATCH_TRUE and lab == "F":
                    st2 = "N"
                elif t in PATCH_FALSE and lab == "T":
                    st2 = "N"
                elif any(c in PATCH_FALSE for c in conj) and lab == "T":
                    st2 = "N"
            key = (b, st2)
            if key not in prev:
                prev[key] = (node, st)
                todo.append(key)
    return None


def _marker_stores(g: CFG, attr: bool) -> List[int]:
    out = []
    for n in g.nodes:
        if n.kind != "stmt" or not isinstance(n.stmt, ast.Assign) or norm(n.stmt.value) != "DEL_VALUE":
            continue
        for t in n.stmt.targets:
            ch = chain(t) or []
            txt = norm(t)
            if attr:
                ok = txt == "self._files[-1][self._gpath].attrs[key]"
            else:
                ok = len(ch) == 4 and ch[1] == ("attr", "_files") and index_kind(ch[2][1]) == "newest" and ch[3][0] == "sub"
            if ok:
                out.append(n.idx)
    return out


def r2_delete_marker(P, rep, ctx):
    for q, attr in ((f"{O}.IH5Group.__delitem__", False), (f"{O}.IH5AttributeManager.__delitem__", True)):
        fi = P.func(q)
        g = ctx.cfg(fi)
        stores = _marker_stores(g, attr)
        rep.check(bool(stores), "C01.R2", fi.qual, "a DEL_VALUE store into the newest container exists", fi.loc(), construct="DEL_VALUE store", message=f"{fi.name} never stores the deletion marker into _files[-1]")
        if not stores:
            continue
        has_idiom = any(n.kind == "test" and any(i in norm(n.exprs[0]) for i in PATCH_TRUE | PATCH_FALSE) for n in g.nodes)
        if not has_idiom and not g.every_path_passes(stores, g.exit):
            raise AnalysisError(f"C01.R2: no recognised 'record has patches' test in {q}")
        bad = may_be_patch_exits(g, set(stores))
        rep.check(bad is None, "C01.R2", fi.qual, "every normal exit on which the record may have patches passed the deletion-marker store", fi.loc(), construct=f"deletion marker on patch paths of {fi.name}",
                  message=f"{fi.name} can return on a patched record without leaving a deletion marker in the newest container: the value from an older container shows through again",
                  path=g.path_text(bad))
        # marker is written at the deleted key (path derived from `key`)
        for s in stores:
            st = g.nodes[s].stmt
            t = st.targets[0]
            keyexpr = t.slice if attr else (chain(t)[3][1])
            if attr:
                ok = norm(keyexpr) == "key"
            else:
                defs = [norm(x.value) for x in walk_local(fi.node) if isinstance(x, ast.Assign) and any(norm(tt) == norm(keyexpr) for tt in x.targets)]
                ok = defs == ["self._abs_path(key)"]
            rep.check(ok, "C01.R2", fi.qual, "the marker is stored at the deleted key", fi.loc(st), construct=f"marker target {norm(t)}", message=f"deletion marker is stored at {norm(t)}, not at the deleted key")
        # existence check first
        ex = [n.idx for n in g.nodes if any(call_attr(c) == "_expect_real_item_idx" for c in g.calls(n.idx))]
        writes = [n for f_, n, d, k in c02.overlay_raw_writes(P, ctx, modules=("ih5.overlay",)) if f_.qual == q]
        rep.check(bool(ex) and all(g.every_path_passes(ex, w) for w in writes), "C01.R2", fi.qual, "existence of the item is checked before anything is written", fi.loc(), construct="existence check before delete",
                  message=f"{fi.name} writes before checking that the item exists (a failing delete would leave an effect / deleting a missing item succeeds)")
        # real delete in the newest container when present there
        dels = [n for n in g.nodes if n.kind == "stmt" and isinstance(n.stmt, ast.Delete)]
        rep.check(bool(dels), "C01.R2", fi.qual, "the entity is really deleted from the newest container when it lives there", fi.loc(), construct="real delete", message=f"{fi.name} never removes the entity from the newest container")
    fi = P.func(f"{O}.IH5InnerNode._expect_real_item_idx")
    t = norm(fi.node)
    rep.check("found_cidx is None or _node_is_del_mark(self._get_child(key, found_cidx))" in t and "raise KeyError" in t, "C01.R2", fi.qual, "_expect_real_item_idx raises for missing or deleted items", fi.loc(),
              construct="_expect_real_item_idx", message="_expect_real_item_idx does not raise KeyError for missing / already deleted items")


# ------------------------------------------------------------------------------------------- R3
def r3_create(P, rep, ctx):
    fi = P.func(f"{O}.IH5Group.create_group")
    g = ctx.cfg(fi)
    marks = [n.idx for n in g.nodes if n.kind == "stmt" and isinstance(n.stmt, ast.Assign) and any(norm(t) == "self._files[-1][path].attrs[SUBST_KEY]" for t in n.stmt.targets)]
    rep.check(bool(marks), "C01.R3", fi.qual, "create_group can mark the new group as substituting", fi.loc(), construct="SUBST_KEY store", message="create_group never sets the substitution marker")
    if marks:
        bad = may_be_patch_exits(g, set(marks))
        rep.check(bad is None, "C01.R3", fi.qual, "on a patched record every created group carries the substitution marker", fi.loc(), construct="SUBST_KEY on patch paths of create_group",
                  message="create_group can return on a patched record without marking the new group as substituting: children of a deleted/older group at that path become visible again", path=g.path_text(bad))
    raw_create = [n.idx for n in g.nodes if any(call_attr(c) == "create_group" and norm(c.func.value) == "self._files[-1]" for c in g.calls(n.idx))]
    tests = [t.idx for t in g.nodes if t.kind == "test" and norm(t.exprs[0]) == "path in self._files[-1] and _node_is_del_mark(self._files[-1][path])"]
    dels = [n.idx for n in g.nodes if n.kind == "stmt" and norm(n.stmt) == "del self._files[-1][path]"]
    ok = bool(raw_create) and bool(tests) and bool(dels) and all(g.every_path_passes(dels, r, src=t, src_label="T") for t in tests for r in raw_create) and all(g.every_path_passes(tests, r) for r in raw_create)
    rep.check(ok, "C01.R3", fi.qual, "a stale deletion marker at the path is removed before the group is created", fi.loc(), construct="stale marker removal in create_group",
              message="create_group does not remove a deletion marker left at the path in the newest container before creating the group")
    # nested creation below a missing / deleted ancestor: the first missing ancestor goes through the overlay create_group
    rec = [n.idx for n in g.nodes if any(call_attr(c) in ("create_group", "_create_virtual") and norm(c.func.value) == "self" for c in g.calls(n.idx))]
    nest_t = [t.idx for t in g.nodes if t.kind == "test" and norm(t.exprs[0]) in ("len(missing_segs) > 1", "len(missing_segs) >= 2", "len(segs) > 1")]
    ok = bool(rec) and bool(raw_create) and ((bool(nest_t) and all(g.every_path_passes(rec, r, src=t, src_label="T") for t in nest_t for r in raw_create) and all(g.every_path_passes(nest_t, r) for r in raw_create)) or all(g.every_path_passes(rec, r) for r in raw_create))
    rep.check(ok, "C01.R3", fi.qual, "for a nested path the first missing ancestor is created through the overlay (marker removal + substitution) before the raw nested create", fi.loc(), construct="nested create_group ancestors",
              message="create_group hands a nested path with missing ancestors straight to the raw create_group: below an ancestor deleted in the current patch (deletion-marker dataset) this fails, and carriers created implicitly do not shadow older content")
    rets = [norm(x.value) for x in walk_local(fi.node) if isinstance(x, ast.Return)]
    rep.check(rets == ["IH5Group(self._record, path, self._last_idx)"], "C01.R3", fi.qual, "the new group's lower bound is the newest container", fi.loc(), construct="create_group result", message=f"create_group returns {rets}")
    exist = [t for t in g.nodes if t.kind == "test" and norm(t.exprs[0]) == "nodes[-1]._gpath == path"]
    rep.check(bool(exist) and all(g.exit not in g.reach([b for b, l in g.succ[t.idx] if l == "T"]) for t in exist) and all(g.every_path_passes([t.idx for t in exist], r) for r in raw_create), "C01.R3", fi.qual,
              "creating an existing group is refused before any write", fi.loc(), construct="exists test in create_group", message="create_group does not refuse an existing path before writing")
    fi = P.func(f"{O}.IH5Group.create_dataset")
    g = ctx.cfg(fi)
    raw = [n.idx for n in g.nodes if any(call_attr(c) == "create_dataset" and norm(c.func.value) == "self._files[-1]" for c in g.calls(n.idx))]
    dels = [n.idx for n in g.nodes if n.kind == "stmt" and norm(n.stmt) == "del self._files[-1][path]"]
    mtests = [t.idx for t in g.nodes if t.kind == "test" and norm(t.exprs[0]) == "path in self._files[-1] and _node_is_del_mark(self._get_child_raw(path, self._last_idx))"]
    ok = bool(raw) and bool(dels) and bool(mtests) and all(g.every_path_passes(dels, r, src=t, src_label="T") for t in mtests for r in raw) and all(g.every_path_passes(mtests, r) for r in raw)
    rep.check(ok, "C01.R3", fi.qual, "a stale deletion marker at the path in the newest container is removed before the dataset is created", fi.loc(), construct="stale marker removal in create_dataset",
              message="create_dataset does not remove a deletion marker left at the path in the newest container before creating the dataset")
    virt = [n.idx for n in g.nodes if any(call_attr(c) == "_create_virtual" for c in g.calls(n.idx))]
    tests = [t.idx for t in g.nodes if t.kind == "test" and norm(t.exprs[0]) == "path not in self._files[-1]"]
    ok = bool(virt) and bool(tests) and all(any(g.edge_dominates(t, "T", v) for t in tests) for v in virt)
    rep.check(ok, "C01.R3", fi.qual, "missing ancestors are created as carriers/overwrite groups only when the path is absent from the newest container", fi.loc(), construct="_create_virtual placement", message="_create_virtual is not confined to the `path not in newest container` case")
    refuse = [t for t in g.nodes if t.kind == "test" and norm(t.exprs[0]) == "isinstance(prev_val, (IH5Group, IH5Dataset))"]
    rep.check(bool(refuse) and all(g.exit not in g.reach([b for b, l in g.succ[t.idx] if l == "T"]) for t in refuse), "C01.R3", fi.qual, "an existing group/dataset at the path is refused (replace = delete first)", fi.loc(),
              construct="exists test in create_dataset", message="create_dataset does not refuse an existing group/dataset")
    cv = P.func(f"{O}.IH5Group._create_virtual")
    gv = ctx.cfg(cv)
    tests = {norm(x.exprs[0]): x.idx for x in gv.nodes if x.kind == "test"}
    t_exists = "nodes[-1]._gpath == path and nodes[-1]._cidx == self._last_idx and (not _node_is_del_mark(nodes[-1]))"
    t_missing = "nodes[-1]._gpath != path or _node_is_del_mark(nodes[-1])"
    t_nested = "len(suf_segs) > 1"
    okv = all(k in tests for k in (t_exists, t_missing, t_nested))
    if okv:
        rets = {n.idx: norm(n.stmt.value) for n in gv.nodes if isinstance(n.stmt, ast.Return)}
        f_ret = [i for i, v in rets.items() if v == "False"]
        t_ret = [i for i, v in rets.items() if v == "True"]
        ow = [n.idx for n in gv.nodes if n.kind == "stmt" and norm(n.stmt) == "self.create_group(f'{nodes[-1]._gpath}/{suf_segs[0]}')"]
        carr = [n.idx for n in gv.nodes if n.kind == "stmt" and norm(n.stmt) == "self._files[-1].create_group(path)"]
        okv = (bool(f_ret) and all(gv.edge_dominates(tests[t_exists], "T", i) for i in f_ret) and bool(t_ret) and bool(ow) and bool(carr)
               and all(gv.edge_dominates(tests[t_missing], "T", i) for i in ow) and gv.every_path_passes(ow, gv.exit, src=tests[t_missing], src_label="T")
               and all(gv.edge_dominates(tests[t_nested], "T", i) and gv.every_path_passes(ow, i) for i in carr) and gv.every_path_passes(carr, gv.exit, src=tests[t_nested], src_label="T")
               and gv.every_path_passes([tests[t_exists]], gv.exit) and all(gv.every_path_passes([tests[t_missing]], i) for i in t_ret))
    rep.check(okv, "C01.R3", cv.qual, "write path: nothing to do only if a live node exists in the newest container; otherwise the first missing ancestor becomes an overwrite group (via create_group) before deeper carriers are created", cv.loc(),
              construct="_create_virtual decision structure", message="_create_virtual does not implement 'overwrite group for the first missing/deleted ancestor, then carriers' (test or order changed): new data can be hidden behind an older deletion or old children can reappear")
    t = norm(cv.node)
    rep.check("self.create_group(f'{nodes[-1]._gpath}/{suf_segs[0]}')" in t and "self._files[-1].create_group(path)" in t, "C01.R3", cv.qual, "first missing ancestor is created as overwrite group (through create_group), deeper ones as carriers", cv.loc(),
              construct="_create_virtual body", message="_create_virtual does not create the first missing ancestor through create_group (substitution marker) and the rest as plain carriers")


# ------------------------------------------------------------------------------------------- R4
def r4_markers(P, rep, ctx):
    m = P.module(O)
    dv = m.assigns.get("DEL_VALUE")
    rep.check(dv is not None and norm(dv) == "np.void(b'\\x7f')", "C01.R4", O, "DEL_VALUE is the single reserved value np.void(b'\\x7f')", m.relpath, construct="DEL_VALUE", message=f"DEL_VALUE is {norm(dv) if dv is not None else None}")
    sk = P.const(O, "SUBST_KEY")
    rep.check(isinstance(sk, str) and len(sk) == 1 and not ("!" <= sk <= "~"), "C01.R4", O, "SUBST_KEY lies outside the user key alphabet [!-~]", m.relpath, construct=f"SUBST_KEY={sk!r}", message=f"SUBST_KEY {sk!r} is a legal user key: users could set/clear the substitution marker")
    f = P.func(f"{O}._is_del_mark")
    rets = [norm(x.value) for x in walk_local(f.node) if isinstance(x, ast.Return)]
    rep.check(rets == ["isinstance(val, np.void) and val.tobytes() == DEL_VALUE.tobytes()"], "C01.R4", f.qual, "_is_del_mark recognises exactly DEL_VALUE", f.loc(), construct="_is_del_mark", message=f"_is_del_mark is {rets}")
    f = P.func(f"{O}._node_is_del_mark")
    t = norm(f.node)
    rep.check("val = node[()] if isinstance(node, h5py.Dataset) else node" in t and "return _is_del_mark(val)" in t, "C01.R4", f.qual, "_node_is_del_mark reads dataset values with [()] and attribute values as is", f.loc(), construct="_node_is_del_mark", message="_node_is_del_mark does not dereference datasets with [()]")
    f = P.func(f"{O}._node_is_virtual")
    rets = [norm(x.value) for x in walk_local(f.node) if isinstance(x, ast.Return)]
    rep.check(rets == ["isinstance(node, h5py.Group) and SUBST_KEY not in node.attrs"], "C01.R4", f.qual, "_node_is_virtual == group without the SUBST_KEY attribute", f.loc(), construct="_node_is_virtual", message=f"_node_is_virtual is {rets}")
    f = P.func(f"{O}.IH5Node._guard_value")
    g = ctx.cfg(f)
    tests = [t for t in g.nodes if t.kind == "test" and norm(t.exprs[0]) == f"_is_del_mark({f.params[1]})"]
    ok = bool(tests) and all(g.exit not in g.reach([b for b, l in g.succ[t.idx] if l == "T"]) for t in tests) and g.every_path_passes([t.idx for t in tests], g.exit)
    rep.check(ok, "C01.R4", f.qual, "_guard_value refuses exactly the marker _is_del_mark recognises", f.loc(), construct="_guard_value marker test", message="_guard_value does not raise for the deletion marker value")
    f = P.func(f"{O}.IH5InnerNode._guard_key")
    g = ctx.cfg(f)
    tests = [t for t in g.nodes if t.kind == "test" and "key == SUBST_KEY" in norm(t.exprs[0]) and "self._is_attrs" in norm(t.exprs[0])]
    ok = bool(tests) and all(g.exit not in g.reach([b for b, l in g.succ[t.idx] if l == "T"]) for t in tests)
    rep.check(ok, "C01.R4", f.qual, "_guard_key refuses the substitution key for attributes", f.loc(), construct="_guard_key SUBST test", message="_guard_key accepts SUBST_KEY as attribute name")
    rx = [c for c in local_calls(f.node) if norm(c.func) == "re.match"]
    rep.check(len(rx) == 1 and norm(rx[0].args[0]) == "'^[!-~]+$'", "C01.R4", f.qual, "keys are restricted to printable ASCII", f.loc(), construct="key alphabet", message="_guard_key no longer restricts keys to ^[!-~]+$")
    # readers use the shared predicates
    ch = P.func(f"{O}.IH5InnerNode._children")
    rep.check("_node_is_virtual(" in norm(ch.node) and "_node_is_del_mark(" in norm(ch.node) and "SUBST_KEY" in norm(ch.node), "C01.R4", ch.qual, "_children uses the shared marker predicates/constants", ch.loc(), construct="predicates in _children", message="_children does not use _node_is_virtual/_node_is_del_mark/SUBST_KEY")
    cg = P.func(f"{O}.IH5Group.create_group")
    rep.check("attrs[SUBST_KEY] = h5py.Empty(None)" in norm(cg.node), "C01.R4", cg.qual, "create_group writes the key _node_is_virtual tests", cg.loc(), construct="SUBST write", message="create_group does not write attrs[SUBST_KEY]")


# ------------------------------------------------------------------------------------------- R5
def r5_guards(P, rep, ctx):
    writes = c02.overlay_raw_writes(P, ctx, modules=("ih5.overlay",))
    for fi, n, desc, k in writes:
        g = ctx.cfg(fi)
        loc = fi.loc(g.nodes[n].stmt)
        for guard in ("_guard_open", "_guard_read_only"):
            ok, chn = guarded_interproc(ctx, fi, n, {guard})
            rep.check(ok, "C01.R5", fi.qual, f"{guard} dominates (closed over callers): {desc}", loc, construct=f"{guard} before {desc}", message=f"raw container write reachable without {guard}: {desc}", path=chn)
    f = P.func(f"{O}.IH5Node._guard_open")
    g = ctx.cfg(f)
    tests = [t for t in g.nodes if t.kind == "test" and norm(t.exprs[0]) == "not self"]
    ok = bool(tests) and all(g.exit not in g.reach([b for b, l in g.succ[t.idx] if l == "T"]) for t in tests)
    rep.check(ok, "C01.R5", f.qual, "_guard_open raises when the record is closed", f.loc(), construct="_guard_open body", message="_guard_open does not raise for a closed record")
    # value / key guards of the user-facing stores
    for q, need in ((f"{O}.IH5Group.create_dataset", ("_guard_key", "_guard_value")), (f"{O}.IH5AttributeManager.__setitem__", ("_guard_key", "_guard_value")), (f"{O}.IH5Group.__delitem__", ("_guard_key",)), (f"{O}.IH5AttributeManager.__delitem__", ("_guard_key",))):
        fi = P.func(q)
        g = ctx.cfg(fi)
        ws = [n for f_, n, d, k in writes if f_.qual == q]
        for nd in need:
            gn = [n.idx for n in g.nodes if any(call_attr(c) == nd for c in g.calls(n.idx))]
            rep.check(bool(gn) and all(g.every_path_passes(gn, w) for w in ws), "C01.R5", fi.qual, f"{nd} precedes every raw write of {fi.name}", fi.loc(), construct=f"{nd} in {fi.name}", message=f"{fi.name} writes without {nd}")


# ------------------------------------------------------------------------------------------- R6
def r6_move_copy(P, rep, ctx):
    for q in (f"{O}.IH5Group.move", f"{O}.IH5Group.copy", f"{O}.h5_copy_from_to", f"{O}.IH5Group.__setitem__", f"{O}.IH5Group.require_group", f"{O}.IH5Group.require_dataset"):
        fi = P.func(q)
        raw = [x for f_ in [fi] + list(fi.nested.values()) for x in walk_local(f_.node) if isinstance(x, ast.Attribute) and x.attr in ("_files", "__files__")]
        rep.check(not raw, "C01.R6", fi.qual, f"{fi.name} works through the overlay primitives only (no raw container access)", fi.loc(), construct=f"raw access in {fi.name}",
                  message=f"{fi.name} touches the raw containers directly ({norm(raw[0]) if raw else ''}): overlay markers (deletion / substitution) are bypassed")
    fi = P.func(f"{O}.IH5Group.move")
    g = ctx.cfg(fi)
    cp = [n.idx for n in g.nodes if any(call_attr(c) == "copy" and norm(c.func.value) == "self" for c in g.calls(n.idx))]
    dl = [n.idx for n in g.nodes if n.kind == "stmt" and isinstance(n.stmt, ast.Delete) and norm(n.stmt) == f"del self[{fi.params[1]}]"]
    ok = bool(cp) and bool(dl) and g.every_path_passes(cp, g.exit) and g.every_path_passes(dl, g.exit) and all(g.every_path_passes(cp, d) for d in dl)
    rep.check(ok, "C01.R6", fi.qual, "move == overlay copy followed by overlay delete of the source, on every path", fi.loc(), construct="move = copy + delete", message="IH5Group.move is not `self.copy(source, dest); del self[source]` on every path: the source may survive or no deletion marker is left")
    cpf = P.func(f"{O}.IH5Group.copy")
    d = local_defs(cpf)
    want = {"src_node": ["self[source] if isinstance(source, str) else source"], "segs": ["self._abs_path(dest).split('/')"], "dst_group": ["self.require_group('/'.join(segs[:-1]) or '/')", "dest if dest.name != '/' else dest['/']"],
            "dst_name": ["segs[-1]", "name"], "name": ["kwargs.pop('name', src_node.name.split('/')[-1])"]}
    got = {k: sorted(norm(v) for kk, v in d.get(k, []) if v is not None) for k in want}
    rep.check(all(got[k] == sorted(v) for k, v in want.items()), "C01.R6", cpf.qual, "copy: a path destination means <parent group>/<last segment>; a group destination means <group>/<given or source name>", cpf.loc(), construct=f"copy destination resolution {got}",
              message=f"IH5Group.copy resolves source/destination differently from h5py ({ {k: v for k, v in got.items() if v != sorted(want[k])} })")
    gcp = ctx.cfg(cpf)
    st = [t for t in gcp.nodes if t.kind == "test" and norm(t.exprs[0]) == "isinstance(dest, str)"]
    segn = [n.idx for n in gcp.nodes if n.kind == "stmt" and norm(n.stmt) == "dst_name = segs[-1]"]
    rep.check(len(st) == 1 and bool(segn) and all(gcp.edge_dominates(st[0].idx, "T", x) for x in segn), "C01.R6", cpf.qual, "the path form applies exactly when dest is a str", cpf.loc(), construct="dest kind test", message="IH5Group.copy treats str / node destinations the wrong way round")
    from .common import require_total

    for q in (f"{O}.IH5Group.copy", f"{O}.IH5Group.create_dataset", f"{O}.IH5Group.create_group", f"{O}.IH5Group._create_virtual", f"{O}.IH5InnerNode._children", f"{O}.IH5InnerNode._node_seq", f"{O}.IH5InnerNode._find", f"{O}.IH5InnerNode.__getitem__", f"{O}.IH5InnerNode.__contains__", f"{O}.IH5InnerNode._expect_real_item_idx", f"{O}.IH5InnerNode._get_child", f"{O}.IH5InnerNode._get_child_raw", f"{O}._list_children"):
        require_total(rep, ctx, "C01.R6", P.func(q))
    h = P.func(f"{O}.h5_copy_from_to")
    gh = ctx.cfg(h)
    writes = [n.idx for n in gh.nodes if any(call_attr(c) in ("create_group", "create_dataset") and norm(c.func.value) == "target_group" for c in gh.calls(n.idx))]
    for txt, what in (("target_path in target_group", "an existing target path is refused (copy never overwrites)"), ("not target_path or target_path[0] == '/'", "an empty or absolute target path is refused"), ("kwargs", "unknown keyword arguments are refused")):
        tt = [t.idx for t in gh.nodes if t.kind == "test" and norm(t.exprs[0]) == txt]
        ok = bool(tt) and all(gh.exit not in gh.reach([b for b, l in gh.succ[t] if l == "T"]) and not (set(writes) & gh.reach([b for b, l in gh.succ[t] if l == "T"])) for t in tt) and all(gh.every_path_passes(tt, w) for w in writes)
        rep.check(ok, "C01.R6", h.qual, f"copy precondition: {what}, before anything is written", h.loc(), construct=f"precondition `{txt}`", message=f"h5_copy_from_to no longer refuses when `{txt}` before writing: the operation succeeds/fails differently from the plain tree")
    fi = P.func(f"{O}.IH5Group.__setitem__")
    rets = [norm(x.value) for x in walk_local(fi.node) if isinstance(x, ast.Return)]
    rep.check(rets == ["self.create_dataset(path, data=value)"], "C01.R6", fi.qual, "group item assignment is create_dataset", fi.loc(), construct="__setitem__", message=f"IH5Group.__setitem__ is {rets}")


# ------------------------------------------------------------------------------------------- R7
WRITE_CALLS = {"create_group", "create_dataset", "require_group", "require_dataset", "__setitem__", "copy", "move"}
ENUM_CALLS = {"visititems", "visit", "items", "keys", "values"}


def _writes_in(node: ast.AST) -> bool:
    for x in ast.walk(node):
        if isinstance(x, ast.Call) and call_attr(x) in WRITE_CALLS:
            return True
        if isinstance(x, ast.Assign) and any(isinstance(t, ast.Subscript) and not (isinstance(t.value, ast.Name) and t.value.id in ("ret", "out", "res")) for t in x.targets):
            return True
    return False


def r7_snapshot_before_mutation(P, rep, ctx):
    """The source of a copy is enumerated completely (snapshot) before anything is created at the destination:
    the destination may lie inside the source and overlay traversal is lazy."""
    h = P.func(f"{O}.h5_copy_from_to")
    g = ctx.cfg(h)
    lazy = []
    for f_ in [h] + list(h.nested.values()) + [x for x in P.functions.values() if x.qual == f"{O}._list_children"]:
        for c in local_calls(f_.node):
            if call_attr(c) in ENUM_CALLS and isinstance(c.func, ast.Attribute) and norm(c.func.value) == "source_node":
                cb = c.args[0] if c.args else None
                body = None
                if isinstance(cb, ast.Lambda):
                    body = cb.body
                elif isinstance(cb, ast.Name):
                    nf = f_.nested.get(cb.id) or h.nested.get(cb.id)
                    body = nf.node if nf else None
                if body is not None and _writes_in(body):
                    lazy.append(c)
        for loop in (x for x in walk_local(f_.node) if isinstance(x, ast.For)):
            it = loop.iter
            if isinstance(it, ast.Call) and call_attr(it) in ENUM_CALLS and isinstance(it.func, ast.Attribute) and norm(it.func.value) == "source_node" and any(_writes_in(b) for b in loop.body):
                lazy.append(it)
    rep.check(not lazy, "C01.R7", h.qual, "the source is never written-to-the-destination while it is being enumerated (snapshot first)", h.loc(lazy[0]) if lazy else h.loc(), construct=f"lazy enumeration with writes: {[norm(c)[:60] for c in lazy]}",
              message=f"h5_copy_from_to writes into the destination from inside the enumeration of the source ({[norm(c)[:50] for c in lazy]}): when the destination lies inside the source (copy of a group into its own subtree) the freshly created nodes are visited again and the copy never terminates")
    snap = [n.idx for n in g.nodes if any(norm(c.func) in ("_list_children",) or (call_attr(c) in ENUM_CALLS and isinstance(c.func, ast.Attribute) and norm(c.func.value) == "source_node") for c in g.calls(n.idx))]
    tgt_create = [n.idx for n in g.nodes if any(call_attr(c) == "create_group" and norm(c.func.value) == "target_group" for c in g.calls(n.idx))]
    if not tgt_create:
        raise AnalysisError("C01.R7: creation of the target group not found in h5_copy_from_to")
    given = [t.idx for t in g.nodes if t.kind == "test" and norm(t.exprs[0]) == "src_children is None"]
    ok = bool(snap) and all(g.every_path_passes(snap + [t for t in given], tc) for tc in tgt_create) and all(g.every_path_passes(snap, tc, src=t, src_label="T") for t in given for tc in tgt_create)
    rep.check(ok, "C01.R7", h.qual, "the source's children are listed before the target group is created", h.loc(), construct="snapshot before target creation", message="h5_copy_from_to creates the target group before the source's children are listed: a target inside the source becomes part of the copy")
    cp = P.func(f"{O}.IH5Group.copy")
    g = ctx.cfg(cp)
    snap = [n.idx for n in g.nodes if any(norm(c.func) == "_list_children" and c.args and norm(c.args[0]) == "src_node" for c in g.calls(n.idx))]
    mk = [n.idx for n in g.nodes if any(call_attr(c) in ("require_group", "create_group") and norm(c.func.value) == "self" for c in g.calls(n.idx))]
    tests = [t.idx for t in g.nodes if t.kind == "test" and norm(t.exprs[0]) == "not isinstance(src_node, H5DatasetLike)"]
    ok = bool(snap) and bool(mk) and (all(g.every_path_passes(snap, m) for m in mk) or (bool(tests) and all(g.every_path_passes(snap, m, src=t, src_label="T") for t in tests for m in mk) and all(g.every_path_passes(tests, m) for m in mk)))
    rep.check(ok, "C01.R7", cp.qual, "a group source is listed before missing destination parent groups are created", cp.loc(), construct="snapshot before require_group in copy",
              message="IH5Group.copy creates missing destination parents (require_group) before the source group is listed: parents created inside the source are copied along")
    passes = any(norm(t) == "kwargs['_src_children']" for st in walk_local(cp.node) if isinstance(st, ast.Assign) for t in st.targets) and "kwargs.pop('_src_children', None)" in norm(h.node)
    rep.check(passes, "C01.R7", cp.qual, "the snapshot taken by copy is the one h5_copy_from_to uses", cp.loc(), construct="snapshot hand-over", message="the snapshot taken in IH5Group.copy is not handed to / used by h5_copy_from_to")
