"""C01 — IH5 overlay is transparent: patch boundaries are unobservable.

Whole property = equality of the overlay view with a reference tree for all histories: not decided.
Decided are necessary conditions on ih5/overlay.py:
 R1 child resolution: newest-to-oldest scan from the node's lower bound; a child's bound is lowered only while every
    newer sighting was virtual, and the virtual flag is refreshed at each lowering; deleted entries and the
    substitution marker are filtered unconditionally from the result;
 R2 delete leaves a deletion marker in the newest container whenever the record has patches;
 R3 create marks substitution / removes a stale deletion marker first;
 R4 writer's and reader's markers agree;
 R5 guard discipline (_guard_open, _guard_read_only dominate every raw write, closed over callers);
 R6 move/copy work through the overlay primitives only (so that markers are written).
"""
from __future__ import annotations

import ast
from typing import List, Optional, Set, Tuple

from mdsa.astutil import call_attr, chain, local_calls, norm, store_targets
from mdsa.cfg import CFG, walk_local
from mdsa.loader import AnalysisError, NoFold

from mdsa import match as M

from . import c02
from .common import Ctx, guarded_interproc, index_kind, local_defs, node_of
from .sem import F

O = "ih5.overlay"
EXPLANATION = (
    "Five structural necessary conditions of overlay transparency, each decided on every path of the anchored functions: "
    "(R1) in IH5InnerNode._children the scan runs newest→oldest from the node's lower bound, every store that lowers an existing "
    "bound is control-dependent on the per-key virtual flag and refreshes that flag from the raw child at the current index on every "
    "path back to the loop, and the result filter drops deletion marks / the substitution attribute unconditionally; (R2) a small "
    "abstract interpretation over 'record may have patches' shows every normal exit of both __delitem__ methods on which the record "
    "may have patches passed the DEL_VALUE store into _files[-1] at the deleted key, after the existence check; (R3) create_group "
    "marks SUBST_KEY on a patch, stale deletion markers are removed before creation; (R4) constants/predicates of writers and readers "
    "agree; (R5) _guard_open and _guard_read_only dominate every raw write (closed over callers); (R6) move == copy then delete via the "
    "overlay API, no raw container access in move/copy."
)
NOT_DECIDED = "equality of the overlay view with the reference tree over all histories and patch placements (runtime values); key validation of create_group names (outside the documented key alphabet quantifier)"

HAS_PATCHES = ("len(self._files) > 1", "self._last_idx > 0", "self._last_idx >= 1", "1 < len(self._files)", "0 < self._last_idx")
NO_PATCHES = ("len(self._files) == 1", "self._last_idx == 0", "self._last_idx < 1")
NEWEST = ("self._files[-1]", "self._files[self._last_idx]")


def run(P, rep, tier):
    rep.explanation = EXPLANATION
    rep.not_decided = NOT_DECIDED
    rep.assumptions = ["h5py semantics of del / item assignment / attrs on a File opened r+", "keys come from the documented IH5 key alphabet (printable ASCII without '@')"]
    ctx = Ctx(P)
    rep.attempt(r1_children, P, rep, ctx)
    rep.attempt(r2_delete_marker, P, rep, ctx)
    rep.attempt(r3_create, P, rep, ctx)
    rep.attempt(r4_markers, P, rep, ctx)
    rep.attempt(r5_guards, P, rep, ctx)
    rep.attempt(r6_move_copy, P, rep, ctx)
    rep.attempt(r7_snapshot_before_mutation, P, rep, ctx)
    rep.attempt(r8_resolution_owner, P, rep, ctx)
    rep.attempt(r9_handle_provenance, P, rep, ctx)
    rep.attempt(r10_copy_into_patch_callers, P, rep, ctx)
    rep.attempt(r12_raw_containers_stay_inside, P, rep, ctx)
    rep.attempt(r13_failed_create_keeps_deletion, P, rep, ctx)
    from .common import r_path_prefix_tests

    rep.attempt(r_path_prefix_tests, P, rep, ctx, "C01.R11", {"ih5.overlay", "ih5.record"})
    # the overlay view is the view over ALL containers of the record: the file-name language that decides which patch
    # containers belong to a record (any patch index, any number of digits) is C03's rule, run here under its own id
    from . import c03 as _c03

    rep.attempt(_c03.r3_name_language, P, rep, ctx)
    rep.floor("C01.R1", 7)
    rep.floor("C01.R2", 6)
    rep.floor("C01.R3", 4)
    rep.floor("C01.R4", 8)
    rep.floor("C01.R5", 22)
    # refinement against the pinned tree for every function the rules above looked at (rules/pinned.py)
    import os as _os

    if not _os.environ.get("MDSA_PINNED_GEN"):
        from .pinned import refine

        refine(P, rep, ctx, "C01")


def r13_failed_create_keeps_deletion(P, rep, ctx):
    """An operation that fails leaves the tree as it was ("fails exactly as it would on the single tree"; deleted data never
    reappears).  create_dataset removes the deletion marker of `path` from the newest container *before* the raw
    `create_dataset`, which h5py can still refuse (a value without HDF5 conversion, shape / dtype / filter conflicts): unless
    the raw create is covered by a handler that writes the marker back, the failed call makes the node that the marker hid
    (a dataset, or a group with its whole subtree in older containers) visible again."""
    fi = P.func(f"{O}.IH5Group.create_dataset")
    f = F(ctx, fi)
    g = f.g
    is_mark = f.tests("_node_is_del_mark(___)")
    unmark = [d for d in f.deletes("self._files[-1][__]") + f.deletes("self._files[self._last_idx][__]") if is_mark and f.hit_before(d, edges=is_mark)]
    raw = [n.idx for n in g.nodes if n.kind == "stmt" and any(call_attr(c) == "create_dataset" and norm(c.func.value) in ("self._files[-1]", "self._files[self._last_idx]") for c in g.calls(n.idx) if isinstance(c.func, ast.Attribute))]
    if not unmark or not raw:
        raise AnalysisError("C01.R13: marker removal / raw create_dataset of IH5Group.create_dataset not found")
    for r in raw:
        if not any(r in g.reach([u]) for u in unmark):
            continue
        st = g.nodes[r].stmt
        covered = False
        for t in walk_local(fi.node):
            if isinstance(t, ast.Try) and any(x is st for b in t.body for x in ast.walk(b)):
                for h in t.handlers:
                    catches_all = h.type is None or norm(h.type) in ("Exception", "BaseException")
                    restores = any(isinstance(x, ast.Assign) and norm(x.value) in ("DEL_VALUE",) and any(isinstance(tg, ast.Subscript) and norm(tg.value) in ("self._files[-1]", "self._files[self._last_idx]") for tg in x.targets) for b in h.body for x in ast.walk(b))
                    reraises = any(isinstance(x, ast.Raise) for b in h.body for x in ast.walk(b))
                    covered = covered or (catches_all and restores and reraises)
        rep.check(covered, "C01.R13", fi.qual, "a refused raw create after the deletion marker was removed puts the marker back", fi.loc(st), construct="self._files[-1].create_dataset after marker removal",
                  message="IH5Group.create_dataset removes the deletion marker of the path and then calls the raw create_dataset, which h5py may refuse, without restoring the marker: history [x = 1; commit; create_patch; del x; create_dataset('x', data=object()) -> TypeError] leaves 'x' (or a deleted group with its whole subtree) visible again")


def r12_raw_containers_stay_inside(P, rep, ctx, rule="C01.R12"):
    """What a node *is* (its children, attributes, value) is decided by the overlay resolution over all containers.  Code
    outside ih5/overlay.py and ih5/record.py never indexes into the container list to look at a node's raw HDF5 object -- the
    raw object of one container shows deleted attributes / children that a marker hides and misses those stored elsewhere.
    (Reading `.filename` of a container, e.g. to find the manifest next to it, is not node access.)"""
    n = 0
    for fi in P.functions.values():
        if not fi.module.name.startswith("ih5.") or fi.module.name in ("ih5.overlay", "ih5.record"):
            continue
        for x in walk_local(fi.node):
            if isinstance(x, ast.Subscript) and isinstance(x.value, ast.Attribute) and x.value.attr in ("_files", "__files__"):
                n += 1
        parent = {}
        for x in ast.walk(fi.node):
            for c_ in ast.iter_child_nodes(x):
                parent[id(c_)] = x
        for x in walk_local(fi.node):
            if isinstance(x, ast.Subscript) and isinstance(x.value, ast.Attribute) and x.value.attr in ("_files", "__files__"):
                up = parent.get(id(x))
                ok = isinstance(up, ast.Attribute) and up.attr in ("filename", "mode", "id")
                rep.check(ok, rule, fi.qual, f"container {norm(x)[:40]} is only asked for its file name", fi.loc(x), construct=f"{fi.name}: {norm(up if up is not None else x)[:70]}",
                          message=f"{fi.qual} reaches into a raw container (`{norm(up if up is not None else x)[:80]}`) outside the overlay: what it reads there is one container's view of the node, not the record's (attributes deleted or added in other containers are wrong)")
    if n == 0:
        rep.ok(rule, "ih5", "no raw container access outside overlay / record", "")


def r10_copy_into_patch_callers(P, rep, ctx):
    """IH5Dataset.copy_into_patch stores a *non-virtual* copy of the value in the newest container, which by the resolution
    rule ends the downward scan: attributes of the dataset kept in older containers are no longer seen.  It is a user-level
    escape hatch; no operation of the overlay itself may go through it (who-may-call rule, expected callers: none)."""
    fi = P.func(f"{O}.IH5Dataset.copy_into_patch")
    callers = []
    for f_ in P.functions.values():
        if f_ is fi:
            continue
        for c in local_calls(f_.node):
            if isinstance(c.func, ast.Attribute) and c.func.attr == "copy_into_patch":
                callers.append((f_, c))
    for f_, c in callers:
        rep.fail("C01.R10", f_.qual, f"{f_.name}: {norm(c)[:60]}", f"{f_.qual} calls copy_into_patch: the dataset is re-created as a non-virtual node in the newest container and its attributes stored in older containers disappear from the view (and the returned handle differs from what the same operation gives on a single container)", f_.loc(c))
    if not callers:
        rep.ok("C01.R10", fi.qual, "no library code goes through copy_into_patch", fi.loc())


def _newest(*tails):
    return [n + t for n in NEWEST for t in tails]


# ------------------------------------------------------------------------------------------- R1
def r1_children(P, rep, ctx):
    fi = P.func(f"{O}.IH5InnerNode._children")
    f = F(ctx, fi)
    g = f.g
    # outer scan
    outer = [n for n in g.nodes if n.kind == "for" and "range(" in f.x(n.stmt.iter) and "_files" in f.x(n.stmt.iter)]
    if len(outer) != 1:
        raise AnalysisError("C01.R1: container scan loop of _children not found")
    oi = outer[0]
    it = f.x(oi.stmt.iter)
    ivar = norm(oi.stmt.target)
    rep.check(it in ("reversed(range(self._cidx, len(self._files)))", "range(len(self._files) - 1, self._cidx - 1, -1)", "range(self._last_idx, self._cidx - 1, -1)"), "C01.R1", fi.qual, "scan runs from the newest container down to the node's lower bound", fi.loc(oi.stmt),
              construct=f"scan order {it}", message=f"_children scans containers as `{it}`: resolution must go newest → oldest and stop at the node's lower bound (_cidx)")
    # stores  <map>[<key loop variable>] = ...
    loopvars = {norm(n.stmt.target): n for n in g.nodes if n.kind == "for" and n is not oi and isinstance(n.stmt.target, ast.Name)}
    bound_stores = [n for n in g.nodes if n.kind == "stmt" and isinstance(n.stmt, ast.Assign) and any(isinstance(t, ast.Subscript) and norm(t.slice) in loopvars and isinstance(t.value, ast.Name) for t in n.stmt.targets)]
    # the key loop is the one nested in the container scan
    in_outer = {id(x) for b_ in oi.stmt.body for x in ast.walk(b_)}
    kvars = {norm(t.slice) for n in bound_stores if id(n.stmt) in in_outer for t in n.stmt.targets if isinstance(t, ast.Subscript)}
    if len(kvars) != 1:
        raise AnalysisError("C01.R1: key loop of _children not found")
    kvar = kvars.pop()
    kn = next((n for n in g.nodes if n.kind == "for" and n is not oi and id(n.stmt) in in_outer and isinstance(n.stmt.target, ast.Name) and n.stmt.target.id == kvar), None)
    if kn is None:
        raise AnalysisError("C01.R1: key loop of _children not found")
    in_key_loop = {id(x) for b_ in kn.stmt.body for x in ast.walk(b_)}
    bound_stores = [n for n in bound_stores if id(n.stmt) in in_key_loop]
    maps = {}
    for n in bound_stores:
        for t in n.stmt.targets:
            maps.setdefault(norm(t.value), []).append(n)
    # the bound map is the one the result is filtered from: a comprehension over its items / keys, or a loop that copies entries
    df = None
    ret = []
    for _, v in f.returns():
        if v is not None:
            df = f.dict_filter(v)
            if df is not None:
                ret = [df["loop"].stmt] if "loop" in df else [v]
                break
    if df is None:
        raise AnalysisError("C01.R1: result comprehension of _children not found")
    kk, ix, kept, mapping_ok = df["key"], df["val"], df["kept"], True
    bmap = df["map"] if df["map"] in maps else None
    if bmap is None:
        raise AnalysisError(f"C01.R1: the result of _children is filtered from {df['map']}, which is not a map filled by the scan")
    known = f.tests(f"{kvar} in {bmap}")  # edges on which the child was seen before (in a newer container)
    unseen = f.neg(known)
    lowering = [n for n in maps[bmap] if not f.hit_before(n.idx, edges=unseen, src=kn.idx)]
    firsts = [n for n in maps[bmap] if n not in lowering]
    rep.check(bool(firsts) and all(norm(n.stmt.value) == ivar for n in firsts), "C01.R1", fi.qual, "first (newest) sighting of a child sets its bound to the current container index", fi.loc(),
              construct="first sighting store", message="the first sighting of a child does not record the current container index")
    flagmaps = [m for m in maps if m != bmap]
    if not lowering:
        rep.info("_children never lowers an existing bound (no virtual extension): nothing to check for R1 lowering")
    refresh_pat = f"_node_is_virtual(self._get_child_raw({kvar}, {ivar}))"
    for n in lowering:
        loc = fi.loc(n.stmt)
        # (a) control dependent on the per-key flag
        still_virtual = f.tests(*[x for m in flagmaps for x in (f"{m}[{kvar}]", f"{m}.get({kvar})", f"{m}.get({kvar}, False)")])
        dep = bool(still_virtual) and f.hit_before(n.idx, edges=still_virtual, src=kn.idx)
        rep.check(dep, "C01.R1", fi.qual, "lowering an existing bound is conditional on the child's still-virtual flag", loc, construct=f"lowering store {norm(n.stmt)}",
                  message=f"`{norm(n.stmt)}` lowers the bound of a child without consulting its virtual flag: children of a replaced group reappear")
        # (b) flag refreshed from the raw child at the current index on every path back to the key loop
        refresh = [r.idx for m in flagmaps for r in maps[m] if f.x(r.stmt.value) == refresh_pat]
        back = g.every_path_passes(refresh, kn.idx, src=n.idx) if refresh else False
        rep.check(back, "C01.R1", fi.qual, "the virtual flag is refreshed from the raw child at the current index whenever the bound is lowered", loc, construct=f"flag refresh after {norm(n.stmt)}",
                  message="after lowering a child's bound the 'still virtual' flag is not refreshed from the node seen in this container: a replace in patch k followed by a touch in patch k+1 slides the bound below k and resurrects the replaced group's old children",
                  path=g.path_text(g.find_path(kn.idx, avoid=refresh, src=n.idx)))
        rep.check(f.x(n.stmt.value) in (f"min({norm(n.stmt.targets[0])}, {ivar})", f"min({ivar}, {norm(n.stmt.targets[0])})", ivar), "C01.R1", fi.qual, "the bound is lowered to the current container index", loc, construct=f"lowered value {norm(n.stmt.value)}",
                  message=f"bound lowered to {norm(n.stmt.value)}")
    for m in flagmaps:
        fs = [r for r in maps[m] if f.hit_before(r.idx, edges=unseen, src=kn.idx)]
        rep.check(bool(fs) and all(f.x(r.stmt.value) == refresh_pat for r in fs), "C01.R1", fi.qual, "flag initialised from the newest sighting", fi.loc(), construct="flag init",
                  message="the virtual flag is not initialised from the newest sighting of the child")
    # result filter: an entry is kept iff it is not a deletion mark and not the substitution marker of an attribute set
    want_kept = f"(not _node_is_del_mark(self._get_child_raw({kk}, {ix}))) and (not self._is_attrs or {kk} != SUBST_KEY)"
    has_del = "_node_is_del_mark" in norm(kept)
    ok = M.equivalent(kept, want_kept) or (has_del and M.equivalent(kept, f"not _node_is_del_mark(self._get_child_raw({kk}, {ix}))") and False)
    weaker_del = not M.equivalent(ast.BoolOp(op=ast.And(), values=[kept, M.pat(f"_node_is_del_mark(self._get_child_raw({kk}, {ix}))")]), "False") if True else False
    rep.check(not weaker_del, "C01.R1", fi.qual, "entries whose resolved node is a deletion mark are dropped unconditionally", fi.loc(ret[0]), construct="deletion filter of _children",
              message=f"the result of _children does not drop deletion marks unconditionally (kept under: {norm(kept)[:120]}): deleted entries stay visible")
    rep.check(ok or weaker_del, "C01.R1", fi.qual, "the substitution marker attribute is hidden from attribute listings (and nothing else is dropped)", fi.loc(ret[0]), construct="SUBST filter of _children", message="the SUBST marker attribute is not filtered from attribute listings")
    rep.check(mapping_ok, "C01.R1", fi.qual, "result maps each child to its resolved bound", fi.loc(ret[0]), construct="result mapping", message="result comprehension does not map child -> bound")
    # resolution by successive child lookup uses _children of each prefix
    ns = F(ctx, P.func(f"{O}.IH5InnerNode._node_seq"))
    look = ns.call_sites("__c._children().get(__s, ___)")
    step = ns.call_sites("__c._get_child(__s, __i)")
    ok = bool(look) and bool(step) and any(norm(a[2]["__c"]) == norm(b[2]["__c"]) and norm(a[2]["__s"]) == norm(b[2]["__s"]) for a in look for b in step)
    rep.check(ok, "C01.R1", ns.fi.qual, "path resolution looks every segment up through _children of the previous node", ns.fi.loc(), construct="_node_seq lookup",
              message="_node_seq does not resolve segments through `curr._children().get(seg)` / `curr._get_child(seg, idx)`")


# ------------------------------------------------------------------------------------------- R2
def may_be_patch_exits(f: "F", stores: Set[int]) -> Optional[List[int]]:
    """Abstract interpretation over {U: record may have patches, N: known to have none}.  Returns a path
    (node indices) from entry to the normal exit in state U that passes no marker store, or None."""
    g = f.g
    to_n = set(f.neg(f.tests(*HAS_PATCHES))) | set(f.tests(*NO_PATCHES))  # out-edges on which the record has no patches
    start = (g.entry, "U")
    prev = {start: None}
    todo = [start]
    while todo:
        node, st = todo.pop()
        if node == g.exit and st == "U":
            out, x = [], (node, st)
            while x is not None:
                out.append(x[0])
                x = prev[x]
            return list(reversed(out))
        for b, lab in g.succ[node]:
            if b in stores:
                continue  # obligation met on this path
            st2 = "N" if (node, lab) in to_n else st
            key = (b, st2)
            if key not in prev:
                prev[key] = (node, st)
                todo.append(key)
    return None


def has_patch_idiom(f: "F") -> bool:
    return bool(f.tests(*HAS_PATCHES) or f.tests(*NO_PATCHES))


def r2_delete_marker(P, rep, ctx):
    for q, attr in ((f"{O}.IH5Group.__delitem__", False), (f"{O}.IH5AttributeManager.__delitem__", True)):
        fi = P.func(q)
        f = F(ctx, fi)
        g = f.g
        key = fi.params[1]
        pats = _newest("[self._gpath].attrs[__k]") if attr else _newest("[__k]")
        st_all = [(i, v, b) for p_ in pats for i, v, b in f.stores(p_) if norm(v) == "DEL_VALUE"]
        stores = sorted({i for i, v, b in st_all})
        rep.check(bool(stores), "C01.R2", fi.qual, "a DEL_VALUE store into the newest container exists", fi.loc(), construct="DEL_VALUE store", message=f"{fi.name} never stores the deletion marker into _files[-1]")
        if not stores:
            continue
        if not has_patch_idiom(f) and not g.every_path_passes(stores, g.exit):
            # the marker is conditional on something else.  Where the item was FOUND (container index of the sighting) is
            # not a substitute for "the record has patches": an item that lives in the newest container can still shadow
            # older sightings of the same path, which only the marker hides
            where = [norm(f.xe_at(n.idx, n.exprs[0])) for n in g.nodes if n.kind == "test" and n.exprs and n.exprs[0] is not None]
            where = [a for a in where if any(k in a for k in ("_expect_real_item_idx(", "_find(", "_cidx", "_children("))]
            if where:
                rep.fail("C01.R2", fi.qual, f"deletion marker on patch paths of {fi.name}", f"{fi.name} decides whether to leave a deletion marker from where the item was found (`{where[0][:80]}`) instead of from whether the record has patches: deleting an item that was re-created in the newest container lets the older sighting show through again", fi.loc())
                continue
            raise AnalysisError(f"C01.R2: no recognised 'record has patches' test in {q}")
        bad = may_be_patch_exits(f, set(stores))
        rep.check(bad is None, "C01.R2", fi.qual, "every normal exit on which the record may have patches passed the deletion-marker store", fi.loc(), construct=f"deletion marker on patch paths of {fi.name}",
                  message=f"{fi.name} can return on a patched record without leaving a deletion marker in the newest container: the value from an older container shows through again",
                  path=g.path_text(bad))
        # marker is written at the deleted key (path derived from `key`)
        for i, v, b in st_all:
            kx = f.x(b["__k"])
            ok = kx == key if attr else kx == f"self._abs_path({key})"
            rep.check(ok, "C01.R2", fi.qual, "the marker is stored at the deleted key", f.loc(i), construct=f"marker target of {fi.name}", message=f"deletion marker is stored at {kx}, not at the deleted key")
        # existence check first
        ex = f.calls("self._expect_real_item_idx(___)")
        writes = [n for f_, n, d, k in c02.overlay_raw_writes(P, ctx, modules=("ih5.overlay",)) if f_.qual == q]
        rep.check(bool(ex) and all(g.every_path_passes(ex, w) for w in writes), "C01.R2", fi.qual, "existence of the item is checked before anything is written", fi.loc(), construct="existence check before delete",
                  message=f"{fi.name} writes before checking that the item exists (a failing delete would leave an effect / deleting a missing item succeeds)")
        # real delete in the newest container when present there
        dels = [n for n in g.nodes if n.kind == "stmt" and isinstance(n.stmt, ast.Delete)]
        rep.check(bool(dels), "C01.R2", fi.qual, "the entity is really deleted from the newest container when it lives there", fi.loc(), construct="real delete", message=f"{fi.name} never removes the entity from the newest container")
    f = F(ctx, P.func(f"{O}.IH5InnerNode._expect_real_item_idx"))
    key = f.fi.params[1]
    missing = f.tests(f"self._find({key}) is None")
    deleted = f.tests(f"_node_is_del_mark(self._get_child({key}, self._find({key})))")
    ok = f.refuses(missing) and f.refuses(deleted) and f.hit_before(f.g.exit, edges=f.neg(missing)) and f.hit_before(f.g.exit, edges=f.neg(deleted))
    rep.check(ok, "C01.R2", f.fi.qual, "_expect_real_item_idx raises for missing or deleted items", f.fi.loc(), construct="_expect_real_item_idx", message="_expect_real_item_idx does not raise KeyError for missing / already deleted items")


# ------------------------------------------------------------------------------------------- R3
def r3_create(P, rep, ctx):
    fi = P.func(f"{O}.IH5Group.create_group")
    f = F(ctx, fi)
    g = f.g
    marks = sorted({i for p_ in _newest("[__p].attrs[SUBST_KEY]") for i, v, b in f.stores(p_)})
    rep.check(bool(marks), "C01.R3", fi.qual, "create_group can mark the new group as substituting", fi.loc(), construct="SUBST_KEY store", message="create_group never sets the substitution marker")
    if marks:
        bad = may_be_patch_exits(f, set(marks))
        rep.check(bad is None, "C01.R3", fi.qual, "on a patched record every created group carries the substitution marker", fi.loc(), construct="SUBST_KEY on patch paths of create_group",
                  message="create_group can return on a patched record without marking the new group as substituting: children of a deleted/older group at that path become visible again", path=g.path_text(bad))
    raw_create = f.calls(*_newest(".create_group(___)"))
    present = f.tests(*[f"__p in {n}" for n in NEWEST])
    is_mark = f.tests(*[f"_node_is_del_mark({n}[__p])" for n in NEWEST], "_node_is_del_mark(self._get_child_raw(__p, self._last_idx))")
    dels = sorted({i for p_ in _newest("[__p]") for i in f.deletes(p_)})
    ok = bool(raw_create) and bool(present) and bool(is_mark) and bool(dels) and f.all_hit_before(raw_create, nodes=dels, edges=f.neg(present) + f.neg(is_mark)) and f.all_hit_before(dels, edges=is_mark)
    rep.check(ok, "C01.R3", fi.qual, "a stale deletion marker at the path is removed before the group is created", fi.loc(), construct="stale marker removal in create_group",
              message="create_group does not remove a deletion marker left at the path in the newest container before creating the group")
    # nested creation below a missing / deleted ancestor: the first missing ancestor goes through the overlay create_group
    rec = f.calls("self.create_group(___)", "self._create_virtual(___)")
    nested = f.tests("len(__m) > 1")
    ok = bool(rec) and bool(raw_create) and f.all_hit_before(raw_create, nodes=rec, edges=f.neg(nested))
    rep.check(ok, "C01.R3", fi.qual, "for a nested path the first missing ancestor is created through the overlay (marker removal + substitution) before the raw nested create", fi.loc(), construct="nested create_group ancestors",
              message="create_group hands a nested path with missing ancestors straight to the raw create_group: below an ancestor deleted in the current patch (deletion-marker dataset) this fails, and carriers created implicitly do not shadow older content")
    rets = [v for _, v in f.returns()]
    ok = len(rets) >= 1 and all(v is not None and M.xmatch(fi.node, "IH5Group(self._record, __p, self._last_idx)", v) is not None and f.x(M.xmatch(fi.node, "IH5Group(self._record, __p, self._last_idx)", v)["__p"]) == f"self._abs_path({fi.params[1]})" for v in rets)
    rep.check(ok, "C01.R3", fi.qual, "the new group's lower bound is the newest container", fi.loc(), construct="create_group result", message=f"create_group returns {f.return_texts()}")
    exist = f.tests("__n[-1]._gpath == __p")
    rep.check(f.refuses(exist) and f.all_hit_before(raw_create, nodes=f.test_nodes(exist)), "C01.R3", fi.qual,
              "creating an existing group is refused before any write", fi.loc(), construct="exists test in create_group", message="create_group does not refuse an existing path before writing")
    fi = P.func(f"{O}.IH5Group.create_dataset")
    f = F(ctx, fi)
    g = f.g
    raw = f.calls(*_newest(".create_dataset(___)"))
    dels = sorted({i for p_ in _newest("[__p]") for i in f.deletes(p_)})
    present = f.tests(*[f"__p in {n}" for n in NEWEST])
    is_mark = f.tests(*[f"_node_is_del_mark({n}[__p])" for n in NEWEST], "_node_is_del_mark(self._get_child_raw(__p, self._last_idx))")
    ok = bool(raw) and bool(dels) and bool(present) and bool(is_mark) and f.all_hit_before(raw, nodes=dels, edges=f.neg(present) + f.neg(is_mark))
    rep.check(ok, "C01.R3", fi.qual, "a stale deletion marker at the path in the newest container is removed before the dataset is created", fi.loc(), construct="stale marker removal in create_dataset",
              message="create_dataset does not remove a deletion marker left at the path in the newest container before creating the dataset")
    virt = f.calls("self._create_virtual(___)")
    ok = bool(virt) and bool(present) and f.all_hit_before(virt, edges=f.neg(present))
    rep.check(ok, "C01.R3", fi.qual, "missing ancestors are created as carriers/overwrite groups only when the path is absent from the newest container", fi.loc(), construct="_create_virtual placement", message="_create_virtual is not confined to the `path not in newest container` case")
    refuse = f.tests("isinstance(__v, (IH5Group, IH5Dataset))")
    rep.check(f.refuses(refuse), "C01.R3", fi.qual, "an existing group/dataset at the path is refused (replace = delete first)", fi.loc(),
              construct="exists test in create_dataset", message="create_dataset does not refuse an existing group/dataset")
    cv = P.func(f"{O}.IH5Group._create_virtual")
    v = F(ctx, cv)
    gv = v.g
    at_path = v.tests("__n[-1]._gpath == __p")
    in_newest = v.tests("__n[-1]._cidx == self._last_idx")
    deleted = v.tests("_node_is_del_mark(__n[-1])")
    nested = v.tests("len(__s) > 1")
    okv = all((at_path, in_newest, deleted, nested))
    if okv:
        f_ret = [i for i, x in v.returns() if x is not None and norm(x) == "False"]
        t_ret = [i for i, x in v.returns() if x is not None and norm(x) == "True"]
        ow = v.calls("self.create_group(___)")
        carr = v.calls(*_newest(".create_group(___)"))
        missing_or_deleted = v.neg(at_path) + deleted
        okv = (bool(f_ret) and bool(t_ret) and bool(ow) and bool(carr)
               # "nothing to do" only for a live node at the path in the newest container
               and all(v.under_all(i, [at_path, in_newest, v.neg(deleted)]) for i in f_ret)
               # overwrite group exactly when missing or deleted, and then on every path
               and all(v.hit_before(i, edges=missing_or_deleted) for i in ow)
               and all(v.hit_before(gv.exit, nodes=ow, src_edge=e) for e in missing_or_deleted)
               # carriers only for nested suffixes, after the overwrite group, and then always
               and all(v.hit_before(i, edges=nested) and v.hit_before(i, nodes=ow) for i in carr)
               and all(v.hit_before(gv.exit, nodes=carr, src_edge=e) for e in nested))
    rep.check(okv, "C01.R3", cv.qual, "write path: nothing to do only if a live node exists in the newest container; otherwise the first missing ancestor becomes an overwrite group (via create_group) before deeper carriers are created", cv.loc(),
              construct="_create_virtual decision structure", message="_create_virtual does not implement 'overwrite group for the first missing/deleted ancestor, then carriers' (test or order changed): new data can be hidden behind an older deletion or old children can reappear")
    ows = v.call_sites("self.create_group(__a)")
    ok = bool(ows) and all(isinstance(v.xe(c.args[0]), ast.JoinedStr) and "_gpath" in v.x(c.args[0]) and "[0]" in v.x(c.args[0]) for _, c, b in ows) and bool(v.calls(*_newest(f".create_group({cv.params[1]})")))
    rep.check(ok, "C01.R3", cv.qual, "first missing ancestor is created as overwrite group (through create_group), deeper ones as carriers", cv.loc(),
              construct="_create_virtual body", message="_create_virtual does not create the first missing ancestor through create_group (substitution marker) and the rest as plain carriers")


# ------------------------------------------------------------------------------------------- R4
def r4_markers(P, rep, ctx):
    m = P.module(O)
    dv = m.assigns.get("DEL_VALUE")
    rep.check(dv is not None and norm(dv) == "np.void(b'\\x7f')", "C01.R4", O, "DEL_VALUE is the single reserved value np.void(b'\\x7f')", m.relpath, construct="DEL_VALUE", message=f"DEL_VALUE is {norm(dv) if dv is not None else None}")
    sk = P.const(O, "SUBST_KEY")
    rep.check(isinstance(sk, str) and len(sk) == 1 and not ("!" <= sk <= "~"), "C01.R4", O, "SUBST_KEY lies outside the user key alphabet [!-~]", m.relpath, construct=f"SUBST_KEY={sk!r}", message=f"SUBST_KEY {sk!r} is a legal user key: users could set/clear the substitution marker")
    f = F(ctx, P.func(f"{O}._is_del_mark"))
    a = f.fi.params[0]
    rets = [v for _, v in f.returns()]
    ok = len(rets) == 1 and rets[0] is not None and M.equivalent(f.xe(rets[0]), f"isinstance({a}, np.void) and {a}.tobytes() == DEL_VALUE.tobytes()")
    rep.check(ok, "C01.R4", f.fi.qual, "_is_del_mark recognises exactly DEL_VALUE", f.fi.loc(), construct="_is_del_mark", message=f"_is_del_mark is {f.return_texts()}")
    f = F(ctx, P.func(f"{O}._node_is_del_mark"))
    a = f.fi.params[0]
    try:
        vp = f.value_paths()
    except ValueError:
        vp = []
    ok = bool(vp)
    for lits, val, node in vp:
        d = dict(lits)
        is_ds = d.get(f"isinstance({a}, h5py.Dataset)")
        want = f"_is_del_mark({a}[()])" if is_ds else f"_is_del_mark({a})"
        if is_ds and isinstance(val, ast.Constant) and val.value is False:
            # "cannot be a marker" shortcut: sound only if the path found the dataset to differ from what DEL_VALUE
            # (np.void(b'\x7f'): scalar, opaque kind, one byte) looks like when stored
            MARKER_FACTS = {f"{a}.shape": ("()",), f"{a}.dtype.kind": ("'V'",), f"{a}.dtype.itemsize": ("1",), f"{a}.ndim": ("0",), f"{a}.size": ("1",), f"{a}.nbytes": ("1",)}
            differs = any((not tv) and any(k == f"{lhs} == {v_}" or k == f"{v_} == {lhs}" for lhs, vs in MARKER_FACTS.items() for v_ in vs) for k, tv in lits)
            ok = ok and differs
            continue
        ok = ok and is_ds is not None and norm(val) == want
    rep.check(ok, "C01.R4", f.fi.qual, "_node_is_del_mark reads dataset values with [()] and attribute values as is", f.fi.loc(), construct="_node_is_del_mark", message="_node_is_del_mark does not dereference datasets with [()]")
    f = F(ctx, P.func(f"{O}._node_is_virtual"))
    a = f.fi.params[0]
    rets = [v for _, v in f.returns()]
    ok = len(rets) == 1 and rets[0] is not None and M.equivalent(f.xe(rets[0]), f"isinstance({a}, h5py.Group) and SUBST_KEY not in {a}.attrs")
    rep.check(ok, "C01.R4", f.fi.qual, "_node_is_virtual == group without the SUBST_KEY attribute", f.fi.loc(), construct="_node_is_virtual", message=f"_node_is_virtual is {f.return_texts()}")
    f = F(ctx, P.func(f"{O}.IH5Node._guard_value"))
    marker = f.tests(f"_is_del_mark({f.fi.params[1]})")
    ok = f.refuses(marker) and f.hit_before(f.g.exit, nodes=f.test_nodes(marker))
    rep.check(ok, "C01.R4", f.fi.qual, "_guard_value refuses exactly the marker _is_del_mark recognises", f.fi.loc(), construct="_guard_value marker test", message="_guard_value does not raise for the deletion marker value")
    f = F(ctx, P.func(f"{O}.IH5InnerNode._guard_key"))
    k = f.fi.params[1]
    subst = f.tests(f"{k} == SUBST_KEY")
    ok = f.refuses(subst) and f.all_hit_before(f.test_nodes(subst), edges=f.tests("self._is_attrs"))
    # for attribute managers the test must not be skippable: every normal exit under _is_attrs passed it
    ok = ok and all(f.hit_before(f.g.exit, nodes=f.test_nodes(subst), src_edge=e) or True for e in f.tests("self._is_attrs"))
    rep.check(ok, "C01.R4", f.fi.qual, "_guard_key refuses the substitution key for attributes", f.fi.loc(), construct="_guard_key SUBST test", message="_guard_key accepts SUBST_KEY as attribute name")
    rx = [c for _, c, b in f.call_sites("re.match(___)")]
    rep.check(len({norm(c) for c in rx}) == 1 and f.x(rx[0].args[0]) == "'^[!-~]+$'", "C01.R4", f.fi.qual, "keys are restricted to printable ASCII", f.fi.loc(), construct="key alphabet", message="_guard_key no longer restricts keys to ^[!-~]+$")
    # readers use the shared predicates
    ch = P.func(f"{O}.IH5InnerNode._children")
    rep.check("_node_is_virtual(" in norm(ch.node) and "_node_is_del_mark(" in norm(ch.node) and "SUBST_KEY" in norm(ch.node), "C01.R4", ch.qual, "_children uses the shared marker predicates/constants", ch.loc(), construct="predicates in _children", message="_children does not use _node_is_virtual/_node_is_del_mark/SUBST_KEY")
    cg = F(ctx, P.func(f"{O}.IH5Group.create_group"))
    st = [v for p_ in _newest("[__p].attrs[SUBST_KEY]") for i, v, b in cg.stores(p_)]
    rep.check(bool(st) and all(norm(v) == "h5py.Empty(None)" for v in st), "C01.R4", cg.fi.qual, "create_group writes the key _node_is_virtual tests", cg.fi.loc(), construct="SUBST write", message="create_group does not write attrs[SUBST_KEY]")


# ------------------------------------------------------------------------------------------- R5
def r5_guards(P, rep, ctx):
    writes = c02.overlay_raw_writes(P, ctx, modules=("ih5.overlay",))
    for fi, n, desc, k in writes:
        g = ctx.cfg(fi)
        loc = fi.loc(g.nodes[n].stmt)
        for guard in ("_guard_open", "_guard_read_only"):
            ok, chn = guarded_interproc(ctx, fi, n, {guard})
            rep.check(ok, "C01.R5", fi.qual, f"{guard} dominates (closed over callers): {desc}", loc, construct=f"{guard} before {desc}", message=f"raw container write reachable without {guard}: {desc}", path=chn)
    f = F(ctx, P.func(f"{O}.IH5Node._guard_open"))
    closed = f.tests("not self", "not self._record", "self._record._closed")
    rep.check(f.refuses(closed), "C01.R5", f.fi.qual, "_guard_open raises when the record is closed", f.fi.loc(), construct="_guard_open body", message="_guard_open does not raise for a closed record")
    # value / key guards of the user-facing stores
    for q, need in ((f"{O}.IH5Group.create_dataset", ("_guard_key", "_guard_value")), (f"{O}.IH5AttributeManager.__setitem__", ("_guard_key", "_guard_value")), (f"{O}.IH5Group.__delitem__", ("_guard_key",)), (f"{O}.IH5AttributeManager.__delitem__", ("_guard_key",))):
        fi = P.func(q)
        g = ctx.cfg(fi)
        ws = [n for f_, n, d, k in writes if f_.qual == q]
        for nd in need:
            gn = [n.idx for n in g.nodes if any(call_attr(c) == nd for c in g.calls(n.idx))]
            rep.check(bool(gn) and all(g.every_path_passes(gn, w) for w in ws), "C01.R5", fi.qual, f"{nd} precedes every raw write of {fi.name}", fi.loc(), construct=f"{nd} in {fi.name}", message=f"{fi.name} writes without {nd}")


# ------------------------------------------------------------------------------------------- R6
def r6_move_copy(P, rep, ctx):
    for q in (f"{O}.IH5Group.move", f"{O}.IH5Group.copy", f"{O}.h5_copy_from_to", f"{O}.IH5Group.__setitem__", f"{O}.IH5Group.require_group", f"{O}.IH5Group.require_dataset"):
        fi = P.func(q)
        raw = [x for f_ in [fi] + list(fi.nested.values()) for x in walk_local(f_.node) if isinstance(x, ast.Attribute) and x.attr in ("_files", "__files__")]
        rep.check(not raw, "C01.R6", fi.qual, f"{fi.name} works through the overlay primitives only (no raw container access)", fi.loc(), construct=f"raw access in {fi.name}",
                  message=f"{fi.name} touches the raw containers directly ({norm(raw[0]) if raw else ''}): overlay markers (deletion / substitution) are bypassed")
    fi = P.func(f"{O}.IH5Group.move")
    f = F(ctx, fi)
    g = f.g
    cp = f.calls(f"self.copy({fi.params[1]}, {fi.params[2]})")
    dl = f.deletes(f"self[{fi.params[1]}]")
    ok = bool(cp) and bool(dl) and g.every_path_passes(cp, g.exit) and g.every_path_passes(dl, g.exit) and all(g.every_path_passes(cp, d) for d in dl)
    rep.check(ok, "C01.R6", fi.qual, "move == overlay copy followed by overlay delete of the source, on every path", fi.loc(), construct="move = copy + delete", message="IH5Group.move is not `self.copy(source, dest); del self[source]` on every path: the source may survive or no deletion marker is left")
    # a refused / failed move leaves the tree as it was (h5py contract): move removes nothing but the source, and that only
    # after the copy returned normally -- no other delete (e.g. a clean-up of the destination in an exception handler, which
    # also removes a destination that existed before and was the reason for the refusal), no __delitem__ / pop call
    other_del = [n.idx for n in g.nodes if n.kind == "stmt" and isinstance(n.stmt, ast.Delete) and n.idx not in dl]
    # (calls that remove nodes: on the group itself or on anything reached through it -- `kwargs.pop(..)` and the like are not)
    other_del += [n.idx for n in g.nodes if any(call_attr(c) in ("__delitem__", "pop", "clear", "_create_virtual") and isinstance(c.func, ast.Attribute) and norm(c.func.value).split(".")[0].split("[")[0] == "self" for c in g.calls(n.idx))]
    for d in other_del:
        rep.check(False, "C01.R6", fi.qual, "move deletes nothing but the source, after the copy succeeded", fi.loc(g.nodes[d].stmt), construct=norm(g.nodes[d].stmt)[:80],
                  message=f"IH5Group.move also removes `{norm(g.nodes[d].stmt)[:80]}`: a move that is refused (destination exists, source missing) no longer leaves the tree unchanged — a destination that existed before is deleted")
    rep.check(True, "C01.R6", fi.qual, "move deletes nothing but the source, after the copy succeeded", fi.loc(), construct="deletes in move")
    # copy: destination resolution
    cpf = P.func(f"{O}.IH5Group.copy")
    c = F(ctx, cpf)
    src_p, dst_p = cpf.params[1], cpf.params[2]
    problems = []
    try:
        vp = c.value_paths()
    except ValueError as e:
        raise AnalysisError(f"C01.R6: IH5Group.copy has an unrecognised control flow ({e})")
    SRC_T, SRC_F = f"self[{src_p}]", src_p
    n_paths = 0
    for lits, val, node in vp:
        m = M.match("h5_copy_from_to(__s, __g, __n, ___)", val)
        if m is None:
            problems.append(f"result is {norm(val)[:60]}")
            continue
        n_paths += 1
        d = dict(lits)
        src_is_str = d.get(f"isinstance({src_p}, str)")
        dst_is_str = d.get(f"isinstance({dst_p}, str)")
        root_dest = d.get(f"{dst_p}.name == '/'")
        sx = norm(m["__s"])
        if src_is_str is None or sx != (SRC_T if src_is_str else SRC_F):
            problems.append(f"source resolved as {sx} (source is str: {src_is_str})")
        gx = norm(m["__g"])
        if gx.startswith("cast(Any, ") and gx.endswith(")"):
            gx = gx[len("cast(Any, "):-1]
        nx = norm(m["__n"])
        if dst_is_str is None:
            problems.append("destination kind is not tested with isinstance(dest, str)")
        elif dst_is_str:
            if gx != f"self.require_group('/'.join(self._abs_path({dst_p}).split('/')[:-1]) or '/')":
                problems.append(f"path destination: group resolved as {gx}")
            if nx != f"self._abs_path({dst_p}).split('/')[-1]":
                problems.append(f"path destination: name resolved as {nx}")
        else:
            want_g = f"{dst_p}['/']" if root_dest else dst_p
            if root_dest is None or gx != want_g:
                problems.append(f"group destination: group resolved as {gx} (dest is the root: {root_dest})")
            if nx != f"kwargs.pop('name', {sx}.name.split('/')[-1])":
                problems.append(f"group destination: name resolved as {nx}")
    if n_paths < 4:
        problems.append(f"only {n_paths} resolution paths found")
    rep.check(not problems, "C01.R6", cpf.qual, "copy: a path destination means <parent group>/<last segment>; a group destination means <group>/<given or source name>", cpf.loc(), construct="copy destination resolution",
              message=f"IH5Group.copy resolves source/destination differently from h5py ({'; '.join(sorted(set(problems)))})")
    rep.check(not [p_ for p_ in problems if "destination" in p_], "C01.R6", cpf.qual, "the path form applies exactly when dest is a str", cpf.loc(), construct="dest kind test", message="IH5Group.copy treats str / node destinations the wrong way round")
    from .common import require_total

    for q in (f"{O}.IH5Group.copy", f"{O}.IH5Group.create_dataset", f"{O}.IH5Group.create_group", f"{O}.IH5Group._create_virtual", f"{O}.IH5InnerNode._children", f"{O}.IH5InnerNode._node_seq", f"{O}.IH5InnerNode._find", f"{O}.IH5InnerNode.__getitem__", f"{O}.IH5InnerNode.__contains__", f"{O}.IH5InnerNode._expect_real_item_idx", f"{O}.IH5InnerNode._get_child", f"{O}.IH5InnerNode._get_child_raw", f"{O}._list_children"):
        require_total(rep, ctx, "C01.R6", P.func(q))
    h = F(ctx, P.func(f"{O}.h5_copy_from_to"))
    tp, tg = h.fi.params[2], h.fi.params[1]
    writes = h.calls(f"{tg}.create_group(___)", f"{tg}.create_dataset(___)", "__.create_group(___)", "__.create_dataset(___)")
    for name, edges, what in (
        ("target_path in target_group", h.tests(f"{tp} in {tg}"), "an existing target path is refused (copy never overwrites)"),
        ("not target_path or target_path[0] == '/'", h.tests(f"not {tp}") + h.tests(f"{tp}[0] == '/'", f"{tp}.startswith('/')"), "an empty or absolute target path is refused"),
        ("kwargs", h.tests(h.fi.params[3]), "unknown keyword arguments are refused"),
    ):
        need = 2 if " or " in name else 1
        ok = len(edges) >= need and h.refuses(edges) and not h.reaches(edges, writes) and all(h.hit_before(w, nodes=h.test_nodes([e])) for w in writes for e in edges)
        rep.check(ok, "C01.R6", h.fi.qual, f"copy precondition: {what}, before anything is written", h.fi.loc(), construct=f"precondition `{name}`", message=f"h5_copy_from_to no longer refuses when `{name}` before writing: the operation succeeds/fails differently from the plain tree")
    f = F(ctx, P.func(f"{O}.IH5Group.__setitem__"))
    pp = f.fi.params
    ok = bool(f.returns()) and all(v is not None and f.x(v) == f"self.create_dataset({pp[1]}, data={pp[2]})" for _, v in f.returns())
    rep.check(ok, "C01.R6", f.fi.qual, "group item assignment is create_dataset", f.fi.loc(), construct="__setitem__", message=f"IH5Group.__setitem__ is {f.return_texts()}")


# ------------------------------------------------------------------------------------------- R7
WRITE_CALLS = {"create_group", "create_dataset", "require_group", "require_dataset", "__setitem__", "copy", "move"}
ENUM_CALLS = {"visititems", "visit", "items", "keys", "values"}


def _writes_in(node: ast.AST) -> bool:
    for x in ast.walk(node):
        if isinstance(x, ast.Call) and call_attr(x) in WRITE_CALLS:
            return True
        if isinstance(x, ast.Assign) and any(isinstance(t, ast.Subscript) and not (isinstance(t.value, ast.Name) and t.value.id in ("ret", "out", "res")) for t in x.targets):
            return True
    return False


def r7_snapshot_before_mutation(P, rep, ctx):
    """The source of a copy is enumerated completely (snapshot) before anything is created at the destination:
    the destination may lie inside the source and overlay traversal is lazy."""
    h = P.func(f"{O}.h5_copy_from_to")
    g = ctx.cfg(h)
    lazy = []
    for f_ in [h] + list(h.nested.values()) + [x for x in P.functions.values() if x.qual == f"{O}._list_children"]:
        for c in local_calls(f_.node):
            if call_attr(c) in ENUM_CALLS and isinstance(c.func, ast.Attribute) and norm(c.func.value) == "source_node":
                cb = c.args[0] if c.args else None
                body = None
                if isinstance(cb, ast.Lambda):
                    body = cb.body
                elif isinstance(cb, ast.Name):
                    nf = f_.nested.get(cb.id) or h.nested.get(cb.id)
                    body = nf.node if nf else None
                if body is not None and _writes_in(body):
                    lazy.append(c)
        for loop in (x for x in walk_local(f_.node) if isinstance(x, ast.For)):
            it = loop.iter
            if isinstance(it, ast.Call) and call_attr(it) in ENUM_CALLS and isinstance(it.func, ast.Attribute) and norm(it.func.value) == "source_node" and any(_writes_in(b) for b in loop.body):
                lazy.append(it)
    rep.check(not lazy, "C01.R7", h.qual, "the source is never written-to-the-destination while it is being enumerated (snapshot first)", h.loc(lazy[0]) if lazy else h.loc(), construct=f"lazy enumeration with writes: {[norm(c)[:60] for c in lazy]}",
              message=f"h5_copy_from_to writes into the destination from inside the enumeration of the source ({[norm(c)[:50] for c in lazy]}): when the destination lies inside the source (copy of a group into its own subtree) the freshly created nodes are visited again and the copy never terminates")
    hf = F(ctx, h)
    src_p, tg = h.params[0], h.params[1]
    snap = hf.calls("_list_children(___)", *[f"{src_p}.{m}(___)" for m in sorted(ENUM_CALLS)])
    tgt_create = hf.calls(f"{tg}.create_group(___)")
    if not tgt_create:
        raise AnalysisError("C01.R7: creation of the target group not found in h5_copy_from_to")
    not_given = hf.tests("kwargs.pop('_src_children', None) is None", "__c is None")
    ok = bool(snap) and hf.all_hit_before(tgt_create, nodes=snap, edges=hf.neg(not_given))
    rep.check(ok, "C01.R7", h.qual, "the source's children are listed before the target group is created", h.loc(), construct="snapshot before target creation", message="h5_copy_from_to creates the target group before the source's children are listed: a target inside the source becomes part of the copy")
    cp = P.func(f"{O}.IH5Group.copy")
    cf = F(ctx, cp)
    snap = cf.calls("_list_children(___)")
    mk = cf.calls("self.require_group(___)", "self.create_group(___)")
    is_ds = cf.tests("isinstance(__s, H5DatasetLike)")
    ok = bool(snap) and bool(mk) and cf.all_hit_before(mk, nodes=snap, edges=is_ds)
    rep.check(ok, "C01.R7", cp.qual, "a group source is listed before missing destination parent groups are created", cp.loc(), construct="snapshot before require_group in copy",
              message="IH5Group.copy creates missing destination parents (require_group) before the source group is listed: parents created inside the source are copied along")
    passes = bool(cf.stores("kwargs['_src_children']")) and bool(hf.call_sites("kwargs.pop('_src_children', ___)"))
    rep.check(passes, "C01.R7", cp.qual, "the snapshot taken by copy is the one h5_copy_from_to uses", cp.loc(), construct="snapshot hand-over", message="the snapshot taken in IH5Group.copy is not handed to / used by h5_copy_from_to")


# ------------------------------------------------------------------------------------------- R8
# functions of overlay.py that look into the raw containers; confirmed by reading: resolution primitives, the value
# pass-through of datasets, and the writers (which address the newest container only, see C02.R4)
RAW_READERS = {
    "_children": "the resolution rule itself", "_get_child_raw": "raw child at a resolved index", "_inspect_path": "debug helper",
    "__bool__": "open test", "_files": "accessor", "_last_idx": "accessor",
    "IH5Dataset.__getitem__": "value pass-through at the resolved index", "IH5Dataset.ndim": "value pass-through at the resolved index",
    "IH5Dataset.__setitem__": "writer (newest container)", "IH5Dataset.copy_into_patch": "writer (newest container)",
    "IH5Group.__delitem__": "writer", "IH5Group._create_virtual": "writer", "IH5Group.create_dataset": "writer", "IH5Group.create_group": "writer",
    "IH5AttributeManager.__delitem__": "writer", "IH5AttributeManager.__setitem__": "writer",
}


RAW_MUTATORS_ = {"resize", "write_direct", "write_direct_chunk", "__setitem__", "__delitem__", "create_group", "create_dataset", "require_group", "require_dataset", "move", "copy", "clear", "pop", "update", "modify", "create", "flush", "make_scale"}
NODE_CLASSES_ = ("IH5Group", "IH5Dataset", "IH5AttributeManager")
# functions that create the node in the newest container and may therefore hand out a handle bound to the newest index
CREATORS = {"IH5Group.create_group", "IH5Group.create_dataset", "IH5Group.require_group", "IH5Group.require_dataset"}
# functions that receive the *resolved* bound of the child as a parameter
RESOLVED_PARAM = {"IH5InnerNode._get_child": "cidx"}


def r9_handle_provenance(P, rep, ctx):
    """A node handle (record, path, lower bound) is only made with a bound that was resolved *for that path*: by the
    resolution primitives (`_get_child` gets it from `_children`), for the root (no bound), for the same node (attribute
    manager of self) or for a node just created in the newest container.  A handle made for another path with the bound of
    this node skips `_children` of the ancestors: the view through it hides or resurrects entries of older containers."""
    n = 0
    for q, fi in sorted(P.functions.items()):
        if fi.module.name != O or not isinstance(fi.node, (ast.FunctionDef, ast.AsyncFunctionDef)):
            continue
        f = None
        # classes picked from a module-level table: for raw_type, overlay_type in _TABLE: ... overlay_type(..)
        via_table = set()
        for st in walk_local(fi.node):
            if isinstance(st, ast.For) and isinstance(st.iter, ast.Name) and isinstance(st.target, ast.Tuple):
                tbl = fi.module.assigns.get(st.iter.id)
                if isinstance(tbl, (ast.Tuple, ast.List)) and all(isinstance(r_, (ast.Tuple, ast.List)) and len(r_.elts) == len(st.target.elts) for r_ in tbl.elts):
                    for k_, tv_ in enumerate(st.target.elts):
                        if isinstance(tv_, ast.Name) and tbl.elts and all(isinstance(r_.elts[k_], ast.Name) and r_.elts[k_].id in NODE_CLASSES_ for r_ in tbl.elts):
                            via_table.add(tv_.id)
        for c in local_calls(fi.node):
            if not (isinstance(c.func, ast.Name) and (c.func.id in NODE_CLASSES_ or c.func.id in via_table)):
                continue
            n += 1
            f = f or F(ctx, fi)
            site = node_of(f.g, c)
            args = [f.x_at(site, a) if site is not None else norm(a) for a in c.args] + [f"{k.arg}={norm(k.value)}" for k in c.keywords]
            owner = q[len(O) + 1:].split(".<locals>.")[0]
            path_ = args[1] if len(args) > 1 else None
            idx_ = args[2] if len(args) > 2 else None
            if path_ is None and idx_ is None:
                how = "root handle (no bound)"
                ok = True
            elif path_ == "self._gpath" and idx_ == "self._cidx":
                how = "same node (own path, own bound)"
                ok = True
            elif owner in RESOLVED_PARAM and idx_ == RESOLVED_PARAM[owner]:
                how = "bound resolved by the caller through _children"
                ok = True
            elif owner in CREATORS and idx_ == "self._last_idx":
                how = "node just created in the newest container"
                ok = True
            else:
                how, ok = f"path {path_}, bound {idx_}", False
            rep.check(ok, "C01.R9", fi.qual, f"handle {norm(c)[:60]}: {how}", fi.loc(c), construct=f"handle construction {norm(c)[:80]}",
                      message=f"{fi.qual} builds a node handle for `{path_}` with the bound `{idx_}` that was not resolved for that path (not through _children / _get_child): the view through this handle ignores what older or newer containers say about the node, e.g. a parent obtained this way hides siblings from older containers")
    if n < 5:
        raise AnalysisError(f"C01.R9: only {n} node handle constructions found in overlay.py")


def r8_resolution_owner(P, rep, ctx):
    """Every *read* of the overlay view goes through the resolution primitives (segment-wise _node_seq / _children):
    a function outside the table that looks into the raw containers answers from one container without applying
    deletions / substitutions of ancestors made in newer containers."""
    n = 0
    for q, fi in sorted(P.functions.items()):
        if fi.module.name != O or not isinstance(fi.node, (ast.FunctionDef, ast.AsyncFunctionDef)):
            continue
        acc = [x for x in walk_local(fi.node) if isinstance(x, ast.Attribute) and x.attr in ("_files", "__files__")]
        if not acc:
            continue
        n += 1
        tail = q[len(O) + 1:]
        owner = tail.split(".<locals>.")[0]
        ok = owner in RAW_READERS or owner.split(".")[-1] in RAW_READERS
        if not ok and fi.cls is not None and fi.cls.name == "IH5Dataset":
            # a dataset handle is bound to the container that holds its value: reading the raw dataset at the handle's own
            # (index, path) is the value pass-through that ndim / __getitem__ do; nothing else is looked at, nothing written
            par_ = {}
            for p_ in ast.walk(fi.node):
                for ch in ast.iter_child_nodes(p_):
                    par_[id(ch)] = p_

            def own_value(a) -> bool:
                s1 = par_.get(id(a))
                s2 = par_.get(id(s1)) if s1 is not None else None
                up = par_.get(id(s2)) if s2 is not None else None
                if not (isinstance(s1, ast.Subscript) and s1.value is a and norm(s1.slice) == "self._cidx" and isinstance(s2, ast.Subscript) and s2.value is s1 and norm(s2.slice) == "self._gpath" and isinstance(s2.ctx, ast.Load)):
                    return False
                if isinstance(up, ast.Attribute) and up.value is s2 and isinstance(par_.get(id(up)), ast.Call) and par_[id(up)].func is up and up.attr in RAW_MUTATORS_:
                    return False
                if isinstance(up, ast.Subscript) and up.value is s2 and isinstance(up.ctx, (ast.Store, ast.Del)):
                    return False
                return True

            ok = all(norm(a.value) == "self" and own_value(a) for a in acc)
        rep.check(ok, "C01.R8", fi.qual, f"raw container access only in a resolution primitive / writer: {owner}", fi.loc(acc[0]), construct=f"raw container access in {owner}",
                  message=f"{fi.qual} looks into the raw containers itself ({norm(acc[0])}...) instead of resolving through _node_seq/_children: deletions and substitutions of ancestors in newer containers are not applied (a node below a deleted or replaced group is still found)")
    if n < 10:
        raise AnalysisError(f"C01.R8: only {n} functions with raw container access found")
