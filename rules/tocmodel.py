"""Shared rules over the TOC classes of container/interface.py (used by C06 and C20)."""
from __future__ import annotations

import ast
from typing import List

from mdsa.astutil import call_attr, call_recv, local_calls, norm, store_targets
from mdsa.cfg import walk_local
from mdsa.loader import AnalysisError

from mdsa import match as M

from .common import Ctx, local_defs, node_of
from .sem import F

I = "container.interface"


def loop_locals_used_after(fi) -> List[tuple]:
    """(name, use node, loop) for variables that are bound only inside a for-loop (its target or assignments in its
    body) and read after the loop at the same nesting level — the statement was probably meant to be inside."""
    out = []

    def scan(body):
        for i, st in enumerate(body):
            if isinstance(st, (ast.For, ast.AsyncFor)):
                bound = {x.id for x in ast.walk(st.target) if isinstance(x, ast.Name)}
                for b in st.body:
                    for x in ast.walk(b):
                        if isinstance(x, (ast.Assign, ast.AnnAssign)):
                            tg = x.targets if isinstance(x, ast.Assign) else [x.target]
                            for t in tg:
                                bound |= {n.id for n in ast.walk(t) if isinstance(n, ast.Name)}
                # names also bound before/outside the loop are fine
                outside = set()
                for other in ast.walk(fi.node):
                    if other is st:
                        continue
                    inside = any(other is y for b in st.body for y in ast.walk(b))
                    if isinstance(other, (ast.Assign, ast.AnnAssign)) and not inside:
                        tg = other.targets if isinstance(other, ast.Assign) else [other.target]
                        for t in tg:
                            outside |= {n.id for n in ast.walk(t) if isinstance(n, ast.Name)}
                    elif isinstance(other, (ast.For, ast.AsyncFor, ast.comprehension)) and not inside:
                        outside |= {n.id for n in ast.walk(other.target) if isinstance(n, ast.Name)}
                    elif isinstance(other, ast.NamedExpr) and not inside:
                        outside.add(other.target.id)
                outside |= set(fi.params)
                only_loop = bound - outside
                for later in body[i + 1:]:
                    for x in ast.walk(later):
                        if isinstance(x, ast.Name) and isinstance(x.ctx, ast.Load) and x.id in only_loop:
                            out.append((x.id, later, st))
                            break
            for sub in ("body", "orelse", "finalbody"):
                if hasattr(st, sub) and isinstance(getattr(st, sub), list):
                    scan(getattr(st, sub))
            if isinstance(st, ast.Try):
                for h in st.handlers:
                    scan(h.body)

    scan(fi.node.body)
    return out


def _always(f, nodes) -> bool:
    return bool(nodes) and f.hit_before(f.g.exit, nodes=nodes)


def r_links_register(P, rep, ctx, rule):
    fi = P.func(f"{I}.TOCLinks.register")
    f = F(ctx, fi)
    o = fi.params[1]
    reg = f.calls(f"self._toc_schemas._register({o}.schema)")
    LP = f"f'{{self._link_path_for({o}.schema)}}/{{{o}.uuid}}'"
    wrs = [(i, v, b) for i, v, b in f.stores("self._raw[__p]")]
    wr = [i for i, v, b in wrs]
    mems = [(i, v, b) for i, v, b in f.stores(f"self._toc_path[{o}.uuid]")]
    mem = [i for i, v, b in mems]
    ok = bool(reg) and bool(wr) and f.all_hit_before(wr, nodes=reg) and _always(f, wr) and _always(f, mem)
    rep.check(ok, rule, fi.qual, "schema (and provider) description is registered before the link is written; link is written and indexed on every exit", fi.loc(), construct="register order",
              message="TOCLinks.register does not call _toc_schemas._register(obj.schema) before writing the link / does not write and index the link on every path")
    tp = sorted({f.x(b["__p"]) for i, v, b in wrs} | {f.x(v) for i, v, b in mems})
    rep.check(tp == [LP], rule, fi.qual, "link path = <links>/<schema ep name>/<uuid>", fi.loc(), construct=f"toc_path = {tp}", message=f"TOC link path is built as {tp}")
    rep.check(bool(wrs) and all(f.x(v) in (f"str({o}.node.name)", f"{o}.node.name") for i, v, b in wrs), rule, fi.qual, "the link stores the path of the metadata object", fi.loc(), construct="link target", message="the TOC link does not store str(obj.node.name)")


def r_schema_register(P, rep, ctx, rule):
    fi = P.func(f"{I}.TOCSchemas._register")
    f = F(ctx, fi)
    g = f.g
    sr = fi.params[1]
    CLS = f"schemas.get({sr}.name, {sr}.version)"
    PAR = f"schemas.parent_path({sr}.name, {sr}.version)"
    known = f.tests(f"{sr} in self._schemas")
    writes = [i for i, v, b in f.stores("self._raw[__p]")]
    rep.check(bool(known) and not f.reaches(known, writes) and f.all_hit_before(writes, nodes=f.test_nodes(known)), rule, fi.qual, "an already described schema is left alone", fi.loc(), construct="known schema shortcut", message="_register does not return early for an already registered schema")
    lookups = [f.x(c) for _, c, b in f.call_sites("schemas.get(___)")]
    rep.check(bool(lookups) and set(lookups) == {CLS}, rule, fi.qual, "the class described is the one installed for exactly (name, version)", fi.loc(), construct="schema class lookup",
              message="_register does not look the schema class up with the exact (name, version) of the stored object (e.g. takes the latest installed version)")
    js = [(i, v, b) for i, v, b in f.stores("self._raw[__p]") if f.x(b["__p"]) == f"self._jsonschema_path_for({sr})"]
    rep.check(bool(js) and all(f.x(v) == f"{CLS}.schema_json().encode('utf-8')" for i, v, b in js) and _always_unless(f, [i for i, v, b in js], known), rule, fi.qual,
              "the JSON Schema of that class is stored under the schema's own path", fi.loc(), construct="jsonschema store", message="_register does not store schema_cls.schema_json() at _jsonschema_path_for(schema_ref)")
    cp = [(i, v, b) for i, v, b in f.stores("self._raw[__p]") if f.x(b["__p"]) == f"f'{{self._schema_path_for({sr})}}/compat'"]
    rep.check(bool(cp) and all(PAR in f.x(v) for i, v, b in cp) and _always_unless(f, [i for i, v, b in cp], known), rule, fi.qual,
              "the parent chain of the same (name, version) is stored", fi.loc(), construct="compat store", message="_register does not store schemas.parent_path(name, version) of the same pair under <schema>/compat")
    whole = bool(cp)
    for i, v, b in cp:
        xv = f.xe(v)
        # the serialised value uses the whole chain: no slice / index of it, every element serialised with .dict()
        uses = [x for x in ast.walk(xv) if M.match(PAR, x) is not None]
        sliced = [x for x in ast.walk(xv) if isinstance(x, ast.Subscript) and M.match(PAR, x.value) is not None]
        whole = whole and bool(uses) and not sliced and ".dict()" in norm(xv)
    rep.check(whole, rule, fi.qual, "the persisted parent chain is the complete chain the in-memory tables receive", fi.loc(), construct="persisted parents = whole chain",
              message="the persisted `compat` chain is not built from the whole `parents` list that the in-memory tables get: a reopened container reports a shorter parent chain than the plugin system")
    add = f.calls(f"self._schemas.add({sr})")
    upc = [i for i, c, b in f.call_sites(f"self._update_parents_children({sr}, __p)") if f.x(b["__p"]) == PAR]
    rep.check(_always_unless(f, add, known) and _always_unless(f, upc, known), rule, fi.qual, "in-memory tables are updated", fi.loc(), construct="table update", message="_register does not update _schemas / parents / children")
    PROV = f"self._pkgs._providers"
    none_stored = f.tests(f"not {PROV}.get({sr}, [])", f"not {PROV}.get({sr})", f"not len({PROV}.get({sr}, []))", f"{sr} not in {PROV}", f"not {PROV}.get({sr}, set())")
    regps = f.call_sites("self._pkgs._register(__k, __i)")
    regp = [i for i, c, b in regps]
    ok = bool(none_stored) and bool(regp) and f.all_hit_before(regp, edges=none_stored) and all(f.hit_before(g.exit, nodes=regp, src_edge=e) for e in none_stored)
    rep.check(ok, rule, fi.qual, "a providing package is stored when no stored package provides the schema", fi.loc(), construct="provider registration",
              message="_register never stores the providing package's metadata")
    INFO = f"schemas.provider({CLS}.Plugin.ref())"
    ok = bool(regps) and all(f.x(b["__i"]) == INFO and f.x(b["__k"]) == f"(str({INFO}.name), {INFO}.version)" for i, c, b in regps)
    rep.check(ok, rule, fi.qual, "the stored package info is what the plugin system reports as provider of that schema", fi.loc(), construct="provider source", message="_register does not store schemas.provider(<schema ref>) as PluginPkgMeta under (name, version)")
    # provider test vs. cleanup of empty provider sets (two cooperating sites)
    emptiness = bool(f.tests(f"not {PROV}.get({sr}, [])", f"not {PROV}.get({sr})", f"not len({PROV}.get({sr}, []))", f"not {PROV}.get({sr}, set())"))
    unfi = P.func(f"{I}.TOCPackages._unregister")
    un = F(ctx, unfi)
    dele = un.deletes("self._providers[__s]") + un.calls("self._providers.pop(___)")
    emp = un.tests("not self._providers[__s]", "not len(self._providers[__s])")
    deletes_empty = bool(dele) and bool(emp) and un.all_hit_before(dele, edges=emp) and all(not un.reaches([e], [un.g.exit]) or un.hit_before(un.g.exit, nodes=dele, src_edge=e) for e in emp)
    rep.check(emptiness or deletes_empty, rule, fi.qual, "'no stored provider' is decided by emptiness, or emptied provider sets are deleted on package removal", fi.loc(), construct="provider test vs. cleanup",
              message="_register tests `schema_ref not in _providers` while TOCPackages._unregister leaves empty provider sets behind: after a package was cleaned up, re-using one of its schemas stores no providing package")
    loops = [n for n in g.nodes if n.kind == "for" and f.x(n.stmt.iter) == f"{PROV}[{sr}]" and isinstance(n.stmt.target, ast.Name)]
    ok = len(loops) == 1
    if ok:
        pk = loops[0].stmt.target.id
        used = f.calls(f"self._used[{pk}].add({sr})")
        ok = bool(used) and f.hit_before(loops[0].idx, nodes=used, src_edge=(loops[0].idx, "iter")) and _always_unless(f, [loops[0].idx], known)
    rep.check(ok, rule, fi.qual, "the schema is counted as user of its providing package(s)", fi.loc(), construct="_used update", message="_register does not count the schema in _used of its providers")


def _always_unless(f, nodes, skip_edges) -> bool:
    """nodes lie on every path to the normal exit, except paths that took one of skip_edges"""
    return bool(nodes) and f.hit_before(f.g.exit, nodes=nodes, edges=skip_edges)


def r_loader_agreement(P, rep, ctx, rule):
    """writer paths / loader paths are built from the same helpers; every table a mutator maintains is also
    populated by the loader, per entry."""
    ts = P.cls(f"{I}.TOCSchemas")
    tp = P.cls(f"{I}.TOCPackages")
    tl = P.cls(f"{I}.TOCLinks")
    # per-class: tables written by mutators vs. tables written by __init__
    for c, tables in ((ts, ["_schemas", "_parents", "_children", "_used"]), (tp, ["_pkginfos", "_providers"]), (tl, ["_toc_path"])):
        init = c.methods["__init__"]
        helper_writes = {}
        for name, f in c.methods.items():
            for st in walk_local(f.node):
                if isinstance(st, ast.stmt):
                    for k, t in store_targets(st):
                        for tb in tables:
                            if norm(t).startswith(f"self.{tb}[") or norm(t) == f"self.{tb}":
                                helper_writes.setdefault(tb, set()).add(name)
                if isinstance(st, ast.Call) and call_attr(st) in ("add", "append", "update", "setdefault"):
                    for tb in tables:
                        if norm(st.func.value).startswith(f"self.{tb}"):
                            helper_writes.setdefault(tb, set()).add(name)
        # the loader populates a table directly or through a helper it calls
        called = {call_attr(x) for x in local_calls(init.node) if norm(call_recv(x) or ast.Name(id="")) == "self"} | {"__init__"}
        for tb in tables:
            writers = helper_writes.get(tb, set())
            populated_per_entry = False
            for loop in (x for x in walk_local(init.node) if isinstance(x, ast.For)):
                inner = {call_attr(x) for x in ast.walk(loop) if isinstance(x, ast.Call) and isinstance(x.func, ast.Attribute) and norm(x.func.value) == "self"}
                direct = any(norm(t).startswith(f"self.{tb}") for s in ast.walk(loop) if isinstance(s, ast.stmt) for k, t in store_targets(s)) or any(isinstance(x, ast.Call) and call_attr(x) in ("add", "append", "update") and norm(x.func.value).startswith(f"self.{tb}") for x in ast.walk(loop))
                if direct or (inner & writers):
                    populated_per_entry = True
            rep.check(populated_per_entry, rule, init.qual, f"table {tb} (maintained by {sorted(writers - {'__init__'})}) is rebuilt per stored entry when the container is opened", init.loc(), construct=f"loader populates {tb}",
                      message=f"{c.name}.__init__ does not rebuild {tb} for every stored entry: the reloaded index differs from the incrementally maintained one")
        for nm, later, loop in loop_locals_used_after(init):
            rep.fail(rule, init.qual, f"{nm} used after its loop: {norm(later)[:80]}", f"`{norm(later)[:80]}` uses `{nm}`, which is bound per entry inside the loop `for {norm(loop.target)} in {norm(loop.iter)}`, after that loop: only the last entry is processed (per-entry bookkeeping is lost on reopen)", init.loc(later))
    # the per-package usage table is rebuilt completely: an (empty) entry for every stored package, and every stored schema
    # counted under each of its providers (the incremental _register / _unregister keep exactly this)
    ti0 = F(ctx, ts.methods["__init__"])
    g0 = ti0.g
    pk_loops = [n for n in g0.nodes if n.kind == "for" and isinstance(n.stmt.target, ast.Name) and ti0.x(n.stmt.iter) in ("self._pkgs.keys()", "self._pkgs", "toc_packages.keys()", "toc_packages")]
    init_ok = False
    for n in pk_loops:
        sts = [i for i, v, b in ti0.stores(f"self._used[{n.stmt.target.id}]") if norm(v) in ("set()", "set([])")]
        init_ok = init_ok or (bool(sts) and ti0.hit_before(n.idx, nodes=sts, src_edge=(n.idx, "iter")) and ti0.hit_before(g0.exit, nodes=[n.idx]))
    comp_init = [i for i, v, b in ti0.stores("self._used") if isinstance(v, ast.DictComp) and norm(v.value) in ("set()",) and ti0.x(v.generators[0].iter) in ("self._pkgs.keys()", "self._pkgs")]
    rep.check(init_ok or bool(comp_init), rule, ts.methods["__init__"].qual, "every stored package gets its (empty) usage entry when the container is opened", ts.methods["__init__"].loc(), construct="loader initialises _used per package",
              message="TOCSchemas.__init__ does not create a usage entry for every stored package: after reopening, registering / unregistering a schema of that package fails or the package record is never removed")
    prov_loops = [n for n in g0.nodes if n.kind == "for" and isinstance(n.stmt.target, ast.Name) and M.match("self._pkgs._providers[__s]", ti0.xe_at(n.idx, n.stmt.iter)) is not None]
    add_ok = False
    for n in prov_loops:
        sref = M.match("self._pkgs._providers[__s]", ti0.xe_at(n.idx, n.stmt.iter))["__s"]
        adds = ti0.calls(f"self._used[{n.stmt.target.id}].add({norm(sref)})")
        add_ok = add_ok or (bool(adds) and ti0.hit_before(n.idx, nodes=adds, src_edge=(n.idx, "iter")))
    rep.check(add_ok, rule, ts.methods["__init__"].qual, "every stored schema is counted under each of its providing packages when the container is opened", ts.methods["__init__"].loc(), construct="loader counts _used per provider",
              message="TOCSchemas.__init__ does not count each stored schema under its providing packages: after reopening, deleting one object drops the package record other stored schemas still need")

    # path helpers agree between writer and loader
    def ret_of(fn):
        ff = F(ctx, fn)
        return sorted(ff.x(v) for _, v in ff.returns() if v is not None), ff

    ti = F(ctx, ts.methods["__init__"])
    stored = ti.tests("M.METADOR_SCHEMAS_PATH in self._raw")
    loops = [n for n in ti.g.nodes if n.kind == "for" and ti.x(n.stmt.iter) in ("self._raw.require_group(M.METADOR_SCHEMAS_PATH).items()", "self._raw[M.METADOR_SCHEMAS_PATH].items()") and isinstance(n.stmt.target, ast.Tuple)]
    ok = bool(stored) and len(loops) == 1
    if ok:
        nm, nd = [norm(e) for e in loops[0].stmt.target.elts]
        body = " ".join(ti.x(st) if isinstance(st, ast.expr) else norm(ti.xstmt(st)) for st in loops[0].stmt.body)
        ok = f"{nd}['compat']" in body and f"_schema_ref_for({nm})" in body and ti.hit_before(loops[0].idx, edges=stored)
    rep.check(ok, rule, ts.methods["__init__"].qual, "loader reads <schemas>/<ep name>/compat, the path the writer uses", ts.methods["__init__"].loc(),
              construct="schemas loader paths", message="TOCSchemas loader does not read the `compat` dataset below METADOR_SCHEMAS_PATH/<ep name> that _register writes")
    r1, f1 = ret_of(ts.methods["_schema_path_for"])
    r2, f2 = ret_of(ts.methods["_jsonschema_path_for"])
    a1 = ts.methods["_schema_path_for"].params[-1]
    a2 = ts.methods["_jsonschema_path_for"].params[-1]
    rep.check(r1 in ([f"f'{{M.METADOR_SCHEMAS_PATH}}/{{to_ep_name({a1}.name, {a1}.version)}}'"], [f"f'{{M.METADOR_SCHEMAS_PATH}}/{{_ep_name_for({a1})}}'"]) and r2 == [f"f'{{cls._schema_path_for({a2})}}/jsonschema.json'"], rule, ts.qual,
              "schema paths are derived from one helper (ep name below METADOR_SCHEMAS_PATH)", ts.module.relpath, construct="schema path helpers", message="schema path helpers changed shape")
    gi = ts.methods["__getitem__"]
    gf = F(ctx, gi)
    loads = gf.call_sites("self._load_json(__n)")
    okg = bool(loads) and all(gf.x(b["__n"]) in (f"cast(H5DatasetLike, self._raw[self._jsonschema_path_for({gi.params[1]})])", f"self._raw[self._jsonschema_path_for({gi.params[1]})]") for i, c, b in loads)
    rep.check(okg, rule, gi.qual, "reader of the embedded JSON Schema uses the writer's path helper", gi.loc(), construct="jsonschema reader", message="TOCSchemas.__getitem__ does not read from _jsonschema_path_for(schema_ref)")
    pi = F(ctx, tp.methods["__init__"])
    stored = pi.tests("M.METADOR_PACKAGES_PATH in self._raw")
    loops = [n for n in pi.g.nodes if n.kind == "for" and pi.x(n.stmt.iter) in ("self._raw.require_group(M.METADOR_PACKAGES_PATH).items()", "self._raw[M.METADOR_PACKAGES_PATH].items()") and isinstance(n.stmt.target, ast.Tuple)]
    ok = bool(stored) and len(loops) == 1
    if ok:
        nm, nd = [norm(e) for e in loops[0].stmt.target.elts]
        body = " ".join(norm(pi.xstmt(st)) for st in loops[0].stmt.body)
        ok = f"from_ep_name(EPName({nm}))" in body and "PluginPkgMeta.parse_raw(" in body and pi.hit_before(loops[0].idx, edges=stored)
    rep.check(ok, rule, tp.methods["__init__"].qual, "package loader parses <packages>/<ep name> as written", tp.methods["__init__"].loc(), construct="packages loader", message="TOCPackages loader does not parse the package datasets the writer stores")
    r3, f3 = ret_of(tp.methods["_pkginfo_path_for"])
    pp = tp.methods["_pkginfo_path_for"].params
    rg = F(ctx, tp.methods["_register"])
    rgp = tp.methods["_register"].params
    wr = [(i, v, b) for i, v, b in rg.stores("self._raw[__p]")]
    okw = r3 == [f"f'{{M.METADOR_PACKAGES_PATH}}/{{to_ep_name({pp[-2]}, {pp[-1]})}}'"] and bool(wr) and all(rg.x(b["__p"]) == f"self._pkginfo_path_for(*{rgp[1]})" and rg.x(v) == f"bytes({rgp[2]})" for i, v, b in wr)
    rep.check(okw, rule, tp.qual, "package writer stores bytes(info) at the helper path", tp.module.relpath, construct="packages writer", message="TOCPackages._register does not store bytes(info) at _pkginfo_path_for(*pkg)")
    li = F(ctx, tl.methods["__init__"])
    stored = li.tests("M.METADOR_LINKS_PATH in self._raw")
    idx = [(i, v, b) for i, v, b in li.stores("self._toc_path[UUID(__u)]")]
    okl = bool(stored) and bool(idx)
    for i, v, b in idx:
        # the store sits in a loop over the (uuid, node) items of every schema link group below METADOR_LINKS_PATH
        un_, ln_ = norm(b["__u"]), None
        inner = [n for n in li.g.nodes if n.kind == "for" and isinstance(n.stmt.target, ast.Tuple) and len(n.stmt.target.elts) == 2 and norm(n.stmt.target.elts[0]) == un_]
        okl = okl and len(inner) == 1 and li.x(v) == f"{norm(inner[0].stmt.target.elts[1])}.name" and li.hit_before(i, edges=stored)
        if okl:
            grp = inner[0].stmt.iter
            outer = [n for n in li.g.nodes if n.kind == "for" and isinstance(n.stmt.target, ast.Name) and li.x(grp) == f"{n.stmt.target.id}.items()" and li.x(n.stmt.iter) in ("self._raw.require_group(M.METADOR_LINKS_PATH).values()", "self._raw[M.METADOR_LINKS_PATH].values()")]
            okl = len(outer) == 1
    rep.check(okl, rule, tl.methods["__init__"].qual, "link loader indexes every <links>/<schema>/<uuid> node", tl.methods["__init__"].loc(), construct="links loader", message="TOCLinks loader does not index uuid -> link path for every stored link")
    r4, f4 = ret_of(tl.methods["_link_path_for"])
    a4 = tl.methods["_link_path_for"].params[-1]
    rep.check(r4 == [f"f'{{M.METADOR_LINKS_PATH}}/{{_ep_name_for({a4})}}'"], rule, tl.qual, "link paths are derived from one helper", tl.module.relpath, construct="link path helper", message="_link_path_for changed shape")
