"""Shared rules over the TOC classes of container/interface.py (used by C06 and C20)."""
from __future__ import annotations

import ast
from typing import List

from mdsa.astutil import call_attr, call_recv, local_calls, norm, store_targets
from mdsa.cfg import walk_local
from mdsa.loader import AnalysisError

from .common import Ctx, local_defs, node_of

I = "container.interface"


def loop_locals_used_after(fi) -> List[tuple]:
    """(name, use node, loop) for variables that are bound only inside a for-loop (its target or assignments in its
    body) and read after the loop at the same nesting level — the statement was probably meant to be inside."""
    out = []

    def scan(body):
        for i, st in enumerate(body):
            if isinstance(st, (ast.For, ast.AsyncFor)):
                bound = {x.id for x in ast.walk(st.target) if isinstance(x, ast.Name)}
                for b in st.body:
                    for x in ast.walk(b):
                        if isinstance(x, (ast.Assign, ast.AnnAssign)):
                            tg = x.targets if isinstance(x, ast.Assign) else [x.target]
                            for t in tg:
                                bound |= {n.id for n in ast.walk(t) if isinstance(n, ast.Name)}
                # names also bound before/outside the loop are fine
                outside = set()
                for other in ast.walk(fi.node):
                    if other is st:
                        continue
                    inside = any(other is y for b in st.body for y in ast.walk(b))
                    if isinstance(other, (ast.Assign, ast.AnnAssign)) and not inside:
                        tg = other.targets if isinstance(other, ast.Assign) else [other.target]
                        for t in tg:
                            outside |= {n.id for n in ast.walk(t) if isinstance(n, ast.Name)}
                    elif isinstance(other, (ast.For, ast.AsyncFor, ast.comprehension)) and not inside:
                        outside |= {n.id for n in ast.walk(other.target) if isinstance(n, ast.Name)}
                    elif isinstance(other, ast.NamedExpr) and not inside:
                        outside.add(other.target.id)
                outside |= set(fi.params)
                only_loop = bound - outside
                for later in body[i + 1:]:
                    for x in ast.walk(later):
                        if isinstance(x, ast.Name) and isinstance(x.ctx, ast.Load) and x.id in only_loop:
                            out.append((x.id, later, st))
                            break
            for sub in ("body", "orelse", "finalbody"):
                if hasattr(st, sub) and isinstance(getattr(st, sub), list):
                    scan(getattr(st, sub))
            if isinstance(st, ast.Try):
                for h in st.handlers:
                    scan(h.body)

    scan(fi.node.body)
    return out


def r_links_register(P, rep, ctx, rule):
    fi = P.func(f"{I}.TOCLinks.register")
    g = ctx.cfg(fi)
    reg = [n.idx for n in g.nodes if any(norm(c.func) == "self._toc_schemas._register" and c.args and norm(c.args[0]) == "obj.schema" for c in g.calls(n.idx))]
    wr = [n.idx for n in g.nodes if n.kind == "stmt" and isinstance(n.stmt, ast.Assign) and any(norm(t) == "self._raw[toc_path]" for t in n.stmt.targets)]
    mem = [n.idx for n in g.nodes if n.kind == "stmt" and isinstance(n.stmt, ast.Assign) and any(norm(t) == "self._toc_path[obj.uuid]" for t in n.stmt.targets)]
    ok = bool(reg) and bool(wr) and all(g.every_path_passes(reg, w) for w in wr) and g.every_path_passes(wr, g.exit) and g.every_path_passes(mem, g.exit) and bool(mem)
    rep.check(ok, rule, fi.qual, "schema (and provider) description is registered before the link is written; link is written and indexed on every exit", fi.loc(), construct="register order",
              message="TOCLinks.register does not call _toc_schemas._register(obj.schema) before writing the link / does not write and index the link on every path")
    d = local_defs(fi)
    tp = [norm(v) for k, v in d.get("toc_path", []) if v is not None]
    rep.check(tp == ["f'{self._link_path_for(obj.schema)}/{obj.uuid}'"], rule, fi.qual, "link path = <links>/<schema ep name>/<uuid>", fi.loc(), construct=f"toc_path = {tp}", message=f"TOC link path is built as {tp}")
    rep.check(all(norm(g.nodes[w].stmt.value) == "str(obj.node.name)" for w in wr), rule, fi.qual, "the link stores the path of the metadata object", fi.loc(), construct="link target", message="the TOC link does not store str(obj.node.name)")


def r_schema_register(P, rep, ctx, rule):
    fi = P.func(f"{I}.TOCSchemas._register")
    g = ctx.cfg(fi)
    t = norm(fi.node)
    known = [x for x in g.nodes if x.kind == "test" and norm(x.exprs[0]) == "schema_ref in self._schemas"]
    rep.check(bool(known) and all(any(b == g.exit or isinstance(g.nodes[b].stmt, ast.Return) for b, l in g.succ[x.idx] if l == "T") for x in known), rule, fi.qual, "an already described schema is left alone", fi.loc(), construct="known schema shortcut", message="_register does not return early for an already registered schema")
    rep.check("schema_cls = schemas.get(schema_ref.name, schema_ref.version)" in t, rule, fi.qual, "the class described is the one installed for exactly (name, version)", fi.loc(), construct="schema class lookup",
              message="_register does not look the schema class up with the exact (name, version) of the stored object (e.g. takes the latest installed version)")
    rep.check("jsonschema_dat = schema_cls.schema_json().encode('utf-8')" in t and "self._raw[jsonschema_path] = jsonschema_dat" in t and "jsonschema_path = self._jsonschema_path_for(schema_ref)" in t, rule, fi.qual,
              "the JSON Schema of that class is stored under the schema's own path", fi.loc(), construct="jsonschema store", message="_register does not store schema_cls.schema_json() at _jsonschema_path_for(schema_ref)")
    rep.check("parents = schemas.parent_path(schema_ref.name, schema_ref.version)" in t and "self._raw[compat_path] = parents_dat" in t and "compat_path = f'{self._schema_path_for(schema_ref)}/compat'" in t, rule, fi.qual,
              "the parent chain of the same (name, version) is stored", fi.loc(), construct="compat store", message="_register does not store schemas.parent_path(name, version) of the same pair under <schema>/compat")
    pd = [v for k, v in local_defs(fi).get("parents_dat", []) if v is not None]
    whole = len(pd) == 1 and any(isinstance(x, ast.Name) and x.id == "parents" for x in ast.walk(pd[0])) and not any(isinstance(x, ast.Subscript) and isinstance(x.value, ast.Name) and x.value.id == "parents" for x in ast.walk(pd[0])) and "x.dict()" in norm(pd[0])
    rep.check(whole, rule, fi.qual, "the persisted parent chain is the complete chain the in-memory tables receive", fi.loc(), construct=f"parents_dat = {[norm(p) for p in pd]}",
              message=f"the persisted `compat` chain is built from {[norm(p) for p in pd]}, not from the whole `parents` list that the in-memory tables get: a reopened container reports a shorter parent chain than the plugin system")
    rep.check("self._schemas.add(schema_ref)" in t and "self._update_parents_children(schema_ref, parents)" in t, rule, fi.qual, "in-memory tables are updated", fi.loc(), construct="table update", message="_register does not update _schemas / parents / children")
    tests = [x for x in g.nodes if x.kind == "test" and "self._pkgs._providers" in norm(x.exprs[0])]
    regp = [n.idx for n in g.nodes if any(norm(c.func) == "self._pkgs._register" for c in g.calls(n.idx))]
    accepted = ("not self._pkgs._providers.get(schema_ref, [])", "not self._pkgs._providers.get(schema_ref)", "len(self._pkgs._providers.get(schema_ref, [])) == 0", "schema_ref not in self._pkgs._providers")
    tests = [x for x in tests if norm(x.exprs[0]) in accepted]
    rep.check(bool(tests) and bool(regp) and all(any(g.edge_dominates(x.idx, "T", r) for x in tests) for r in regp) and all(g.every_path_passes(regp, g.exit, src=x.idx, src_label="T") for x in tests), rule, fi.qual, "a providing package is stored when no stored package provides the schema", fi.loc(), construct="provider registration",
              message="_register never stores the providing package's metadata")
    rep.check("env_pkg_info: PluginPkgMeta = schemas.provider(schema_cls.Plugin.ref())" in t and "pkg_name_ver = (str(env_pkg_info.name), env_pkg_info.version)" in t and "self._pkgs._register(pkg_name_ver, env_pkg_info)" in t, rule, fi.qual,
              "the stored package info is what the plugin system reports as provider of that schema", fi.loc(), construct="provider source", message="_register does not store schemas.provider(<schema ref>) as PluginPkgMeta under (name, version)")
    # provider test vs. cleanup of empty provider sets (two cooperating sites)
    emptiness = any(norm(x.exprs[0]) in ("not self._pkgs._providers.get(schema_ref, [])", "not self._pkgs._providers.get(schema_ref)", "len(self._pkgs._providers.get(schema_ref, [])) == 0") for x in tests)
    un = P.func(f"{I}.TOCPackages._unregister")
    ut = norm(un.node)
    deletes_empty = "if not providers: del self._providers[schema_ref]" in ut.replace("\n", " ") or ("del self._providers[schema_ref]" in ut and "if not providers" in ut)
    rep.check(emptiness or deletes_empty, rule, fi.qual, "'no stored provider' is decided by emptiness, or emptied provider sets are deleted on package removal", fi.loc(), construct="provider test vs. cleanup",
              message="_register tests `schema_ref not in _providers` while TOCPackages._unregister leaves empty provider sets behind: after a package was cleaned up, re-using one of its schemas stores no providing package")
    used = [n.idx for n in g.nodes if n.kind == "stmt" and "self._used[pkg].add(schema_ref)" in norm(n.stmt)]
    rep.check(bool(used), rule, fi.qual, "the schema is counted as user of its providing package(s)", fi.loc(), construct="_used update", message="_register does not count the schema in _used of its providers")


def r_loader_agreement(P, rep, ctx, rule):
    """writer paths / loader paths are built from the same helpers; every table a mutator maintains is also
    populated by the loader, per entry."""
    ts = P.cls(f"{I}.TOCSchemas")
    tp = P.cls(f"{I}.TOCPackages")
    tl = P.cls(f"{I}.TOCLinks")
    # per-class: tables written by mutators vs. tables written by __init__
    for c, tables in ((ts, ["_schemas", "_parents", "_children", "_used"]), (tp, ["_pkginfos", "_providers"]), (tl, ["_toc_path"])):
        init = c.methods["__init__"]
        helper_writes = {}
        for name, f in c.methods.items():
            for st in walk_local(f.node):
                if isinstance(st, ast.stmt):
                    for k, t in store_targets(st):
                        for tb in tables:
                            if norm(t).startswith(f"self.{tb}[") or norm(t) == f"self.{tb}":
                                helper_writes.setdefault(tb, set()).add(name)
                if isinstance(st, ast.Call) and call_attr(st) in ("add", "append", "update", "setdefault"):
                    for tb in tables:
                        if norm(st.func.value).startswith(f"self.{tb}"):
                            helper_writes.setdefault(tb, set()).add(name)
        # the loader populates a table directly or through a helper it calls
        called = {call_attr(x) for x in local_calls(init.node) if norm(call_recv(x) or ast.Name(id="")) == "self"} | {"__init__"}
        for tb in tables:
            writers = helper_writes.get(tb, set())
            populated_per_entry = False
            for loop in (x for x in walk_local(init.node) if isinstance(x, ast.For)):
                inner = {call_attr(x) for x in ast.walk(loop) if isinstance(x, ast.Call) and isinstance(x.func, ast.Attribute) and norm(x.func.value) == "self"}
                direct = any(norm(t).startswith(f"self.{tb}") for s in ast.walk(loop) if isinstance(s, ast.stmt) for k, t in store_targets(s)) or any(isinstance(x, ast.Call) and call_attr(x) in ("add", "append", "update") and norm(x.func.value).startswith(f"self.{tb}") for x in ast.walk(loop))
                if direct or (inner & writers):
                    populated_per_entry = True
            rep.check(populated_per_entry, rule, init.qual, f"table {tb} (maintained by {sorted(writers - {'__init__'})}) is rebuilt per stored entry when the container is opened", init.loc(), construct=f"loader populates {tb}",
                      message=f"{c.name}.__init__ does not rebuild {tb} for every stored entry: the reloaded index differs from the incrementally maintained one")
        for nm, later, loop in loop_locals_used_after(init):
            rep.fail(rule, init.qual, f"{nm} used after its loop: {norm(later)[:80]}", f"`{norm(later)[:80]}` uses `{nm}`, which is bound per entry inside the loop `for {norm(loop.target)} in {norm(loop.iter)}`, after that loop: only the last entry is processed (per-entry bookkeeping is lost on reopen)", init.loc(later))
    # path helpers agree between writer and loader
    t = norm(ts.methods["__init__"].node)
    rep.check("node['compat']" in t and "M.METADOR_SCHEMAS_PATH in self._raw" in t and "_schema_ref_for(name)" in t, rule, ts.methods["__init__"].qual, "loader reads <schemas>/<ep name>/compat, the path the writer uses", ts.methods["__init__"].loc(),
              construct="schemas loader paths", message="TOCSchemas loader does not read the `compat` dataset below METADOR_SCHEMAS_PATH/<ep name> that _register writes")
    rep.check("return f'{M.METADOR_SCHEMAS_PATH}/{to_ep_name(s_ref.name, s_ref.version)}'" in norm(ts.methods["_schema_path_for"].node) and "return f'{cls._schema_path_for(s_ref)}/jsonschema.json'" in norm(ts.methods["_jsonschema_path_for"].node), rule, ts.qual,
              "schema paths are derived from one helper (ep name below METADOR_SCHEMAS_PATH)", ts.module.relpath, construct="schema path helpers", message="schema path helpers changed shape")
    gi = ts.methods["__getitem__"]
    rep.check("node_path = self._jsonschema_path_for(schema_ref)" in norm(gi.node) and "self._load_json(cast(H5DatasetLike, self._raw[node_path]))" in norm(gi.node), rule, gi.qual, "reader of the embedded JSON Schema uses the writer's path helper", gi.loc(), construct="jsonschema reader", message="TOCSchemas.__getitem__ does not read from _jsonschema_path_for(schema_ref)")
    t = norm(tp.methods["__init__"].node)
    rep.check("M.METADOR_PACKAGES_PATH in self._raw" in t and "from_ep_name(EPName(name))" in t and "PluginPkgMeta.parse_raw(" in t, rule, tp.methods["__init__"].qual, "package loader parses <packages>/<ep name> as written", tp.methods["__init__"].loc(), construct="packages loader", message="TOCPackages loader does not parse the package datasets the writer stores")
    rep.check("return f'{M.METADOR_PACKAGES_PATH}/{to_ep_name(pkg_name, pkg_version)}'" in norm(tp.methods["_pkginfo_path_for"].node) and "self._raw[pkg_path] = bytes(info)" in norm(tp.methods["_register"].node), rule, tp.qual, "package writer stores bytes(info) at the helper path", tp.module.relpath, construct="packages writer", message="TOCPackages._register does not store bytes(info) at _pkginfo_path_for(*pkg)")
    t = norm(tl.methods["__init__"].node)
    rep.check("M.METADOR_LINKS_PATH in self._raw" in t and "self._toc_path[UUID(uuid)] = link_node.name" in t, rule, tl.methods["__init__"].qual, "link loader indexes every <links>/<schema>/<uuid> node", tl.methods["__init__"].loc(), construct="links loader", message="TOCLinks loader does not index uuid -> link path for every stored link")
    rep.check("return f'{M.METADOR_LINKS_PATH}/{_ep_name_for(schema_ref)}'" in norm(tl.methods["_link_path_for"].node), rule, tl.qual, "link paths are derived from one helper", tl.module.relpath, construct="link path helper", message="_link_path_for changed shape")
