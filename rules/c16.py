"""C16 — Plugin references order, match and resolve by semantic version.

Decided almost entirely: totality of the comparison methods, a lexicographic-shape theorem for the order
(for total component orders the lexicographic composition over the fields that == and hash use is a total order
consistent with ==/hash — for all references, not small ranges), the normal form of `supports`, registry key agreement,
sorted registration, unambiguity of the name codec for all strings (regular-language emptiness) and marking /
rejection of version-less handles.  Trusted: functools.total_ordering, list.sort.
"""
from __future__ import annotations

import ast
from typing import List, Optional, Set, Tuple

from mdsa import regexlang as RL
from mdsa.astutil import call_attr, call_recv, local_calls, norm, store_targets
from mdsa.cfg import walk_local
from mdsa.loader import AnalysisError

from mdsa import match as MM

from .sem import F
from .common import Ctx, local_defs, node_of

EXPLANATION = (
    "R1 TOTAL: every path of PluginRef.__eq__/__ge__/__hash__/supports ends in an explicit `return <expr>` (thorough: every rich "
    "comparison and every `-> bool` function of the package). R2: __eq__ is a conjunction of == over the field tuple F, __hash__ "
    "hashes the same fields, __ge__ is the lexicographic composition over F in the order (group, name, version) ending in True, "
    "and @total_ordering derives the rest: a total order consistent with ==/hash for all values. R3: `supports` is normalised to a "
    "conjunction of atoms and compared with {group ==, name ==, version[0] ==, self.version[1] >= other.version[1]}. R4: every "
    "initialise-if-absent idiom tests the key it initialises. R5: every function appending to a _VERSIONS list sorts it before "
    "returning; versions() preserves order, resolve() takes the last element, and resolve/versions consult no state that the "
    "writers of _VERSIONS do not update. R6: to_ep_name/from_ep_name use the same separator, the name is returned untransformed, "
    "and L(QUAL_NAME) ∩ Σ*__Σ* = L(SEMVER) ∩ Σ*__Σ* = ∅ (product-automaton emptiness), so the split point is unique. "
    "R7: get() marks version-less results on every such path, the plugin metaclass raises for marked bases before creating the class."
)
NOT_DECIDED = "nothing beyond the trusted third-party pieces (functools.total_ordering, list.sort, str/int-tuple comparison)"

PR = "schema.plugins.PluginRef"
PG = "plugin.interface.PluginGroup"
FIELDS = ["group", "name", "version"]


def run(P, rep, tier):
    rep.explanation = EXPLANATION
    rep.not_decided = NOT_DECIDED
    rep.assumptions = ["functools.total_ordering derives <, <=, > from __ge__ and __eq__", "list.sort sorts ascending by __lt__", "str and tuple-of-int comparisons are total orders"]
    ctx = Ctx(P)
    rep.attempt(r1_total, P, rep, ctx, tier)
    rep.attempt(r2_lexicographic, P, rep, ctx)
    rep.attempt(r3_supports, P, rep, ctx)
    rep.attempt(r4_key_agreement, P, rep, ctx, tier)
    rep.attempt(r5_sorted_registration, P, rep, ctx)
    rep.attempt(r6_codec, P, rep, ctx)
    rep.attempt(r7_versionless, P, rep, ctx)
    rep.attempt(r8_group_lookup_key, P, rep, ctx)
    rep.attempt(r10_extra_comparisons, P, rep, ctx)
    from .common import r_raw_argument_after_normalisation

    rep.attempt(r_raw_argument_after_normalisation, P, rep, ctx, "C16.R9", {"plugin.interface", "plugins", "plugin.types", "schema.pg"})
    rep.floor("C16.R1", 4)
    rep.floor("C16.R4", 2)
    rep.floor("C16.R5", 5)
    rep.floor("C16.R6", 7)
    # refinement against the pinned tree for every function the rules above looked at (rules/pinned.py)
    import os as _os

    if not _os.environ.get("MDSA_PINNED_GEN"):
        from .pinned import refine

        refine(P, rep, ctx, "C16")


# ------------------------------------------------------------------------------------------- R1
def explicit_returns(ctx, fi) -> Tuple[bool, List[str]]:
    g = ctx.cfg(fi)
    bad = []
    for p in g.pred.get(g.exit, []):
        n = g.nodes[p]
        if isinstance(n.stmt, ast.Return) and n.kind == "stmt":
            if n.stmt.value is None or (isinstance(n.stmt.value, ast.Constant) and n.stmt.value.value is None):
                bad.append(f"L{n.lineno}: bare/None return")
        else:
            bad.append(f"falls off the end after L{n.lineno}: {n.text()[:60]}")
    return (not bad, bad)


def r1_total(P, rep, ctx, tier):
    c = P.cls(PR)
    for m in ("__eq__", "__ge__", "__hash__", "supports"):
        fi = c.methods.get(m)
        if fi is None:
            rep.fail("C16.R1", PR, f"{m} missing", f"PluginRef.{m} is not defined", c.module.relpath)
            continue
        ok, bad = explicit_returns(ctx, fi)
        rep.check(ok, "C16.R1", fi.qual, f"{m} returns an explicit value on every path", fi.loc(), construct=f"{m} fall-through",
                  message=f"PluginRef.{m} can end without an explicit value ({'; '.join(bad)}): the result is None (falsy)", path=bad)
    if tier == "thorough":
        cmp_names = {"__eq__", "__ne__", "__lt__", "__le__", "__gt__", "__ge__", "__hash__", "__contains__", "__bool__"}
        for fi in P.functions.values():
            if fi.qual.startswith(PR + "."):
                continue
            rets_bool = isinstance(fi.node, ast.FunctionDef) and fi.node.returns is not None and norm(fi.node.returns) == "bool"
            if not (fi.name in cmp_names or rets_bool):
                continue
            if fi.module.name == "util.types" or not fi.node.body or all(isinstance(b, (ast.Expr, ast.Pass)) for b in fi.node.body):
                continue  # protocol stubs / docstring-only bodies
            ok, bad = explicit_returns(ctx, fi)
            rep.check(ok, "C16.R1w", fi.qual, "predicate returns an explicit value on every path (whole package)", fi.loc(), construct=f"{fi.name} fall-through",
                      message=f"{fi.qual} can end without an explicit value ({'; '.join(bad)})", path=bad)


# ------------------------------------------------------------------------------------------- R2
def _field_of(e: ast.AST, who: str) -> Optional[str]:
    """self.f / other.f -> f"""
    if isinstance(e, ast.Attribute) and isinstance(e.value, ast.Name) and e.value.id == who:
        return e.attr
    return None


def eq_fields(fi, ctx=None, P=None):
    """Fields whose equality decides __eq__, however it is spelled (one conjunction, early returns, tuple comparison),
    path by path.  A leading type guard that lets every plugin reference through (isinstance(other, <PluginRef or an
    ancestor>) -> NotImplemented / False otherwise) does not restrict equality; a guard on type(self) does.
    Returns (fields | None, problem | None)."""
    other = fi.params[1]
    if ctx is None:
        return None, "no context"
    f = F(ctx, fi)
    try:
        paths = f.value_paths()
    except ValueError as e:
        return None, f"unrecognised control flow ({e})"
    anc = {"PluginRef", "MetadataSchema", "BaseModel", "object"}
    if P is not None:
        try:
            anc |= {q.rsplit(".", 1)[-1] for q in P.mro(PR)}
        except Exception:
            pass

    def field_eqs(e):
        """[(field)] for a conjunction of self.f == other.f / tuple comparison, None if something else"""
        out = []
        for p_ in MM.conjuncts(e):
            if isinstance(p_, ast.Compare) and len(p_.ops) == 1 and isinstance(p_.ops[0], ast.Eq):
                if isinstance(p_.left, ast.Tuple) and isinstance(p_.comparators[0], ast.Tuple):
                    ls = [_field_of(x, "self") or _field_of(x, other) for x in p_.left.elts]
                    rs = [_field_of(x, other) or _field_of(x, "self") for x in p_.comparators[0].elts]
                    if None in ls or ls != rs:
                        return None
                    out += ls
                    continue
                a_ = _field_of(p_.left, "self") or _field_of(p_.left, other)
                b_ = _field_of(p_.comparators[0], other) or _field_of(p_.comparators[0], "self")
                if a_ is None or a_ != b_ or norm(p_.left) == norm(p_.comparators[0]):
                    return None
                out.append(a_)
            else:
                return None
        return out

    true_sets = []
    for lits, val, n_ in paths:
        eq_true, eq_false, restricted = [], [], None
        for k, tv in lits:
            e = MM.pat(k)
            fe = field_eqs(e)
            if fe is not None and len(fe) >= 1:
                (eq_true if tv else eq_false).extend(fe)
                continue
            m = MM.match(f"isinstance({other}, __t)", e)
            if m is not None:
                ts = m["__t"].elts if isinstance(m["__t"], ast.Tuple) else [m["__t"]]
                if all(norm(t).rsplit(".", 1)[-1] in anc for t in ts):
                    if tv:
                        continue
                    restricted = "foreign"  # not a plugin reference at all
                    continue
                if not tv:
                    return None, f"equality is restricted by the type guard `{k}`: references of sibling PluginRef subclasses with equal fields compare unequal although they hash and order as equal"
                continue
            if "type(" in k or "__class__" in k:
                return None, f"equality is restricted by the type test `{k}`: references of sibling PluginRef subclasses with equal fields compare unequal although they hash and order as equal"
            return None, f"condition on something other than field equality: {k}"
        is_false = (isinstance(val, ast.Constant) and val.value is False) or norm(val) == "NotImplemented"
        if restricted == "foreign":
            if not is_false:
                return None, f"a non-reference operand gives {norm(val)}"
            continue
        if eq_false:
            if not is_false:
                return None, f"references that differ in {eq_false} give {norm(val)}"
            continue
        if isinstance(val, ast.Constant) and val.value is True:
            true_sets.append(sorted(set(eq_true)))
            continue
        fe = field_eqs(val)
        if fe is None:
            return None, f"result is not a conjunction of field equalities: {norm(val)}"
        true_sets.append(sorted(set(eq_true) | set(fe)))
    if not true_sets:
        return None, "no path answers True"
    if any(t != true_sets[0] for t in true_sets):
        return None, f"different paths compare different field sets: {true_sets}"
    return true_sets[0], None


def ge_lex_fields(ctx, fi) -> Tuple[Optional[List[str]], str]:
    """Recognise the lexicographic order, however it is spelled: a tuple comparison, or a decision structure in
    which the first field that differs decides with >= / > and equal references give True."""
    other = fi.params[1]
    f = F(ctx, fi)
    try:
        paths = f.value_paths()
    except ValueError as e:
        return None, f"unrecognised control flow ({e})"
    if len(paths) == 1 and not paths[0][0] and isinstance(paths[0][1], ast.Compare):
        cmpn = paths[0][1]
        if len(cmpn.ops) == 1 and isinstance(cmpn.ops[0], ast.GtE) and isinstance(cmpn.left, ast.Tuple) and isinstance(cmpn.comparators[0], ast.Tuple):
            ls = [_field_of(e, "self") for e in cmpn.left.elts]
            rs = [_field_of(e, other) for e in cmpn.comparators[0].elts]
            if None not in ls and ls == rs:
                return ls, "tuple"
        return None, "unrecognised single return"

    def eq_field(key: str) -> Optional[str]:
        m = MM.match(f"self.__f == {other}.__g", MM.pat(key)) if False else None
        e = MM.pat(key)
        if isinstance(e, ast.Compare) and len(e.ops) == 1 and isinstance(e.ops[0], ast.Eq):
            a, b = _field_of(e.left, "self"), _field_of(e.comparators[0], other)
            if a is None:
                a, b = _field_of(e.comparators[0], "self"), _field_of(e.left, other)
            return a if a is not None and a == b else None
        return None

    fields: List[str] = []
    final_true = False
    by_len = sorted(paths, key=lambda p_: len(p_[0]))
    deciding = {}
    for lits, val, node in paths:
        fs = [(eq_field(k), tv) for k, tv in lits]
        if any(fld is None for fld, tv in fs):
            return None, f"condition on something other than field equality: {[k for k, tv in lits]}"
        neq = [fld for fld, tv in fs if not tv]
        eqs = [fld for fld, tv in fs if tv]
        if len(neq) == 0:
            if not (isinstance(val, ast.Constant) and val.value is True):
                return [fld for fld, tv in fs], f"equal references give {norm(val)} instead of True"
            final_true = True
            all_eq = eqs
            continue
        if len(neq) != 1 or fs[-1][0] != neq[0]:
            return None, f"path with several differing fields: {lits}"
        d = neq[0]
        if not (isinstance(val, ast.Compare) and len(val.ops) == 1 and _field_of(val.left, "self") == d and _field_of(val.comparators[0], other) == d):
            return None, f"decision for field {d} compares something else: {norm(val)}"
        if not isinstance(val.ops[0], (ast.GtE, ast.Gt)):
            return [], f"field {d} decides with {type(val.ops[0]).__name__} instead of >= : {norm(val)}"
        deciding[d] = eqs
    # order: field d is decided after exactly the fields before it were found equal
    order = sorted(deciding, key=lambda d: len(deciding[d]))
    for i_, d in enumerate(order):
        if deciding[d] != order[:i_]:
            return None, f"field {d} is decided after {deciding[d]} (not a lexicographic chain)"
    if not final_true:
        return order, "no final `return True` for equal references"
    return order, "chain"


def r2_lexicographic(P, rep, ctx):
    c = P.cls(PR)
    decos = [norm(d) for d in c.node.decorator_list]
    rep.check("total_ordering" in decos or "functools.total_ordering" in decos, "C16.R2", PR, "PluginRef is decorated with functools.total_ordering", c.module.relpath + f":{c.node.lineno}",
              construct="@total_ordering", message="PluginRef lost @total_ordering: <, <=, > are not derived from __ge__/__eq__")
    eq = c.methods.get("__eq__")
    hs = c.methods.get("__hash__")
    ge = c.methods.get("__ge__")
    if not (eq and hs and ge):
        return
    ef, eq_problem = eq_fields(eq, ctx, P)
    if ef is None and eq_problem and "restricted" in eq_problem:
        rep.fail("C16.R2", eq.qual, "__eq__ type restriction", f"PluginRef.__eq__: {eq_problem}", eq.loc())
        ef = list(FIELDS)
    if ef is None:
        raise AnalysisError(f"C16.R2: __eq__ has an unrecognised shape ({eq_problem}): {norm(eq.node)[:200]}")
    rep.check(sorted(ef) == sorted(FIELDS), "C16.R2", eq.qual, f"__eq__ is the conjunction of == over {FIELDS}", eq.loc(), construct=f"__eq__ fields {ef}",
              message=f"__eq__ compares fields {ef}, the reference is identified by {FIELDS}")
    # hash over the same fields
    hff = F(ctx, hs)
    state = sorted({x.attr for x in walk_local(hs.node) if isinstance(x, ast.Attribute) and isinstance(x.value, ast.Name) and x.value.id == "self" and x.attr not in FIELDS})
    stores = [st for st in walk_local(hs.node) if isinstance(st, ast.stmt) for k_, t_ in store_targets(st) if norm(t_).startswith("self.")]
    rep.check(not state and not stores, "C16.R2", hs.qual, "__hash__ is computed from the identifying fields on every call (no cached state)", hs.loc(), construct="__hash__ state",
              message=f"__hash__ reads / caches other instance state ({state}): a reference derived with copy(update=...) keeps the stale hash of its origin although it compares equal to a fresh reference")
    hf = None
    for _, v in hff.returns():
        x = hff.xe(v) if v is not None else None
        if isinstance(x, ast.Call) and norm(x.func) == "hash" and len(x.args) == 1 and isinstance(x.args[0], ast.Tuple):
            hf = [_field_of(e, "self") for e in x.args[0].elts]
    if hf is None or None in hf:
        if state or stores:
            return  # reported above
        raise AnalysisError(f"C16.R2: __hash__ has an unrecognised shape: {norm(hs.node)[:200]}")
    rep.check(sorted(hf) == sorted(ef), "C16.R2", hs.qual, "__hash__ hashes exactly the fields __eq__ compares", hs.loc(), construct=f"__hash__ fields {hf}",
              message=f"__hash__ uses fields {hf} but __eq__ compares {ef}: equal objects / hash consistency broken")
    # the order is decided on the fields themselves: a comparison of *transformed* fields (string form, lower case, hash ..)
    # is a different order (as strings "0.10.0" < "0.9.0")
    other_p = ge.params[1]
    transformed = []
    for x in walk_local(ge.node):
        if isinstance(x, ast.Compare) and len(x.ops) == 1 and isinstance(x.ops[0], (ast.GtE, ast.Gt, ast.LtE, ast.Lt)):
            for side in (x.left, x.comparators[0]):
                parts_ = side.elts if isinstance(side, ast.Tuple) else [side]
                for p_ in parts_:
                    if _field_of(p_, "self") is None and _field_of(p_, other_p) is None and any(_field_of(y, "self") or _field_of(y, other_p) for y in ast.walk(p_)):
                        transformed.append(norm(x))
    for t in sorted(set(transformed)):
        rep.fail("C16.R2", ge.qual, f"order on a transformed field: {t[:80]}", f"PluginRef.__ge__ decides the order on a transformed value ({t[:100]}) instead of the field itself: e.g. versions compared as strings order 0.10.0 before 0.9.0, so the newest registered version is not last and resolve() misses it", ge.loc())
    gf, how = ge_lex_fields(ctx, ge)
    if gf is None and transformed:
        return
    if gf is None:
        raise AnalysisError(f"C16.R2: __ge__ has an unrecognised shape ({how})")
    rep.check(gf == FIELDS and how in ("chain", "tuple"), "C16.R2", ge.qual, "__ge__ is the lexicographic order over (group, name, version), True for equal references", ge.loc(),
              construct=f"__ge__ order {gf} ({how})", message=f"__ge__ is not the lexicographic composition over {FIELDS} ending in True: fields {gf}, {how}")


# ------------------------------------------------------------------------------------------- R3
MIRROR = {ast.Lt: ast.Gt, ast.Gt: ast.Lt, ast.LtE: ast.GtE, ast.GtE: ast.LtE, ast.Eq: ast.Eq, ast.NotEq: ast.NotEq}
NEGATE = {ast.Lt: ast.GtE, ast.GtE: ast.Lt, ast.Gt: ast.LtE, ast.LtE: ast.Gt, ast.Eq: ast.NotEq, ast.NotEq: ast.Eq}
SYM = {ast.Lt: "<", ast.Gt: ">", ast.LtE: "<=", ast.GtE: ">=", ast.Eq: "==", ast.NotEq: "!="}


def atom(e: ast.AST, other: str, negate: bool) -> Optional[str]:
    if isinstance(e, ast.UnaryOp) and isinstance(e.op, ast.Not):
        return atom(e.operand, other, not negate)
    if not (isinstance(e, ast.Compare) and len(e.ops) == 1 and type(e.ops[0]) in SYM):
        return None
    op = type(e.ops[0])
    l, r = e.left, e.comparators[0]
    if norm(l).startswith(other + ".") and norm(r).startswith("self."):
        l, r, op = r, l, MIRROR[op]
    if negate:
        op = NEGATE[op]
    lt, rt = norm(l), norm(r)
    if not lt.startswith("self.") or not rt.startswith(other + "."):
        return None
    rt = "other." + rt[len(other) + 1:]
    return f"{lt} {SYM[op]} {rt}"


def conj_atoms(ctx, fi) -> Optional[Set[str]]:
    """The function as a conjunction of comparison atoms between self.<field> and other.<field>: it returns True on
    exactly one combination of its tests (every other path returns False); None if it is not of that shape."""
    other = fi.params[1]
    f = F(ctx, fi)
    try:
        paths = f.value_paths()
    except ValueError:
        return None
    atoms: Set[str] = set()
    true_paths = []
    for lits, val, node in paths:
        if isinstance(val, ast.Constant) and val.value is False:
            continue
        true_paths.append((lits, val))
    if len(true_paths) != 1:
        return None
    lits, val = true_paths[0]
    for k, tv in lits:
        a = atom(MM.pat(k), other, not tv)
        if a is None:
            return None
        atoms.add(a)
    if isinstance(val, ast.Constant) and val.value is True:
        return atoms
    for cj in MM.conjuncts(val):
        a = atom(cj, other, False)
        if a is None:
            return None
        atoms.add(a)
    # every False path must contradict one of the atoms (no extra refusals)
    return atoms


def r3_supports(P, rep, ctx):
    fi = P.func(f"{PR}.supports")
    atoms = conj_atoms(ctx, fi)
    if atoms is None:
        raise AnalysisError(f"C16.R3: supports has an unrecognised shape: {norm(fi.node)[:300]}")
    want = {"self.group == other.group", "self.name == other.name", "self.version[0] == other.version[0]", "self.version[1] >= other.version[1]"}
    rep.check(atoms == want, "C16.R3", fi.qual, "supports == (group, name, major agree) and (own minor >= other's minor)", fi.loc(),
              construct=f"supports atoms {sorted(atoms)}", message=f"supports is not the documented compatibility relation: missing {sorted(want - atoms)}, unexpected {sorted(atoms - want)}")


# ------------------------------------------------------------------------------------------- R4
def init_if_absent_sites(ctx, fi):
    """(test key text, init key text, container text, node) for `if K not in D: D[K2] = <fresh>` (any spelling of the test),
    keys compared after local expansion; `D.setdefault(K, <fresh>)` counts as an agreeing site."""
    f = F(ctx, fi)
    out = []
    for i, v, b in f.stores("__d[__k]"):
        fresh = isinstance(v, (ast.List, ast.Dict, ast.Set)) or (isinstance(v, ast.Call) and norm(v.func) in ("set", "list", "dict") and not v.args)
        if not fresh:
            continue
        D = f.x_at(i, b["__d"])
        k2 = f.x_at(i, b["__k"])
        absent = [(t, lab) for t, lab in f.tests(f"__k not in {norm(b['__d'])}") + f.tests(f"__k not in {D}") if f.hit_before(i, edges=[(t, lab)])]
        for t, lab in absent[:1]:
            m = MM.match("__k in __d", f.g.nodes[t].exprs[0]) or MM.match("__k in __d", f.xe_at(t, f.g.nodes[t].exprs[0]))
            k1 = f.x_at(t, m["__k"]) if m else "?"
            out.append((k1, k2, D, f.g.nodes[i].stmt))
    for i, c, b in f.call_sites("__d.setdefault(__k, __v)"):
        v = b["__v"]
        if isinstance(v, (ast.List, ast.Dict, ast.Set)) or (isinstance(v, ast.Call) and norm(v.func) in ("set", "list", "dict") and not v.args):
            k = f.x_at(i, b["__k"])
            out.append((k, k, f.x_at(i, b["__d"]), c))
    return out


def r4_key_agreement(P, rep, ctx, tier):
    mods = None if tier == "thorough" else ("plugin.interface", "plugin.util", "container.interface")
    for fi in P.functions.values():
        if mods is not None and fi.module.name not in mods:
            continue
        if not isinstance(fi.node, (ast.FunctionDef, ast.AsyncFunctionDef)):
            continue
        for k1, k2, D, st in init_if_absent_sites(ctx, fi):
            rep.check(k1 == k2, "C16.R4", fi.qual, f"initialise-if-absent on {D}: tested key == initialised key ({k1})", fi.loc(st), construct=f"initialise-if-absent on {D}",
                      message=f"`if {k1} not in {D}` initialises {D}[{k2}]: the entry is re-initialised on every call (earlier registrations are lost)")


# ------------------------------------------------------------------------------------------- R5
def r5_sorted_registration(P, rep, ctx):
    n_app = 0
    for fi in P.functions.values():
        if not isinstance(fi.node, (ast.FunctionDef, ast.AsyncFunctionDef)) or "_VERSIONS" not in norm(fi.node):
            continue
        f = F(ctx, fi)
        g = f.g
        for meth in ("append", "insert", "extend"):
            for i, c, b in f.call_sites(f"__l.{meth}(___)"):
                lst = f.x_at(i, c.func.value)
                if "_VERSIONS[" not in lst and "_VERSIONS.setdefault(" not in lst:
                    continue
                n_app += 1
                sorts = [j for j, c2, b2 in f.call_sites("__l.sort(___)") if f.x_at(j, c2.func.value) == lst]
                sorts += [j for j, v, b2 in f.stores("__t") if isinstance(v, ast.Call) and norm(v.func) == "sorted" and f.x_at(j, g.nodes[j].stmt.targets[0] if isinstance(g.nodes[j].stmt, ast.Assign) else g.nodes[j].stmt.target) == lst]
                ok = bool(sorts) and f.hit_before(g.exit, nodes=sorts, src=i)
                rep.check(ok, "C16.R5", fi.qual, f"after {norm(c)[:50]} the list is sorted on every path to the exit", fi.loc(c), construct=f"sort after append to {lst}",
                          message=f"{fi.qual} appends to {lst} without sorting it: resolve() (last element) no longer returns the newest version")
        for c in local_calls(fi.node):
            if call_attr(c) == "insort" and "_VERSIONS[" in f.x(c):
                n_app += 1
                rep.ok("C16.R5", fi.qual, "ordered insertion via bisect.insort", fi.loc(c))
    if n_app < 2:
        raise AnalysisError(f"C16.R5: only {n_app} registration sites found (expected _add_ep and register_in_group)")
    # registration only ever adds: nothing drops a name's version list (only __init__ resets the registry)
    for fi in P.functions.values():
        if not isinstance(fi.node, (ast.FunctionDef, ast.AsyncFunctionDef)) or "_VERSIONS" not in norm(fi.node) or fi.name in ("__init__", "__post_init__"):
            continue
        drops = [c for c in local_calls(fi.node) if isinstance(c.func, ast.Attribute) and c.func.attr in ("pop", "clear", "popitem", "remove") and "_VERSIONS" in norm(c.func.value)]
        drops += [st for st in walk_local(fi.node) if isinstance(st, ast.Delete) and any("_VERSIONS" in norm(t) for t in st.targets)]
        drops += [st for st in walk_local(fi.node) if isinstance(st, ast.Assign) and any(norm(t).endswith("._VERSIONS") for t in st.targets)]
        for d_ in drops:
            rep.fail("C16.R5", fi.qual, f"registry entry dropped: {norm(d_)[:70]}", f"{fi.qual} removes registered versions ({norm(d_)[:70]}): other versions of the plugin are forgotten and resolve()/versions() answer from an incomplete list", fi.loc(d_))
    # versions(): order preserving; plugin-side direction of supports
    fi = P.func(f"{PG}.versions")
    vf_ = F(ctx, fi)
    pn, pver = fi.params[1], fi.params[2]
    REG = (f"list(self._VERSIONS.get({pn}) or [])", f"list(self._VERSIONS.get({pn}, []))", f"self._VERSIONS.get({pn}, [])[:]")
    REQ = f"self.PluginRef(name={pn}, version={pver})"
    ok = bool(vf_.returns())
    for i_, r in vf_.returns():
        x = vf_.xe_at(i_, r) if r is not None else None
        if x is not None and norm(x) in REG:
            continue
        lf = vf_.list_filter(r) if r is not None else None
        if lf is None and x is not None:
            lf = vf_.list_filter(x)
        ok = ok and lf is not None and lf["src"] in REG and MM.equivalent(lf["kept"], f"{lf['var']}.supports({REQ})", fi.node)
    rep.check(ok, "C16.R5", fi.qual, "versions() filters the registered list order-preservingly with available.supports(requested)", fi.loc(), construct="versions() result",
              message="versions() does not return the registered versions in order, filtered by `<available>.supports(requested)`")
    fi = P.func(f"{PG}.resolve")
    rf_ = F(ctx, fi)
    VERS = f"self.versions({fi.params[1]}, {fi.params[2]})"
    # path-sensitive: the newest element when the list is non-empty, None otherwise (statement or expression form)
    try:
        rpaths = rf_.value_paths()
    except ValueError as e:
        raise AnalysisError(f"C16.R5: resolve(): {e}")
    picks = []
    okp = bool(rpaths)
    for lits, v, n_ in rpaths:
        nonempty = [tv for k, tv in lits if k in (VERS, f"len({VERS})", f"bool({VERS})")]
        t = norm(v)
        picks.append(t)
        if nonempty == [True]:
            okp = okp and t == f"{VERS}[-1]"
        elif nonempty == [False]:
            okp = okp and t == "None"
        else:
            okp = False
    rep.check(okp, "C16.R5", fi.qual,
              "resolve() returns the last (newest) compatible version of versions()", fi.loc(), construct="resolve picks the last",
              message=f"resolve() does not return the last element of versions(p_name, version): {picks}")
    # resolve / versions consult only the registry (or state every registry writer also updates)
    writers = [fn for fn in P.functions.values() if isinstance(fn.node, (ast.FunctionDef, ast.AsyncFunctionDef)) and "_VERSIONS" in norm(fn.node) and any("_VERSIONS[" in F(ctx, fn).x_at(i, c.func.value) for m_ in ("append", "insert", "extend") for i, c, b in F(ctx, fn).call_sites(f"__l.{m_}(___)"))]
    for q, allowed in ((f"{PG}.resolve", {"versions"}), (f"{PG}.versions", {"_VERSIONS", "PluginRef"})):
        fi = P.func(q)
        reads = {x.attr for x in walk_local(fi.node) if isinstance(x, ast.Attribute) and isinstance(x.value, ast.Name) and x.value.id == "self"}
        extra = reads - allowed
        for fld in sorted(extra):
            ok = all(any(fld in norm(t) for st in walk_local(w.node) if isinstance(st, ast.stmt) for _, t in store_targets(st)) or any(fld in norm(c.func) and call_attr(c) in ("clear", "pop") for c in local_calls(w.node)) for w in writers)
            rep.check(ok, "C16.R5", fi.qual, f"extra state {fld} read by {fi.name} is updated by every writer of _VERSIONS", fi.loc(), construct=f"{fi.name} reads self.{fld}",
                      message=f"{fi.name}() consults self.{fld}, which {[w.qual for w in writers]} do not all update/clear: stale answers after a registration")
        if not extra:
            rep.ok("C16.R5", fi.qual, f"{fi.name} reads only {sorted(reads)}", fi.loc())
    from .common import require_total

    for q in (f"{PG}.versions", f"{PG}.resolve", f"{PG}.provider", f"{PG}.__contains__", f"{PG}._get_unsafe", "plugin.types.to_ep_name", "plugin.types.from_ep_name", "plugin.types.to_semver_str", "plugin.types.from_semver_str", "plugin.metaclass.PluginMetaclassMixin.__new__", "plugin.metaclass.MarkerMixin._mark_class", "plugin.metaclass.UndefVersion._mark_class", "plugin.metaclass.MarkerMixin._is_marked", f"{PR}.supports", f"{PR}.__eq__", f"{PR}.__hash__"):
        require_total(rep, ctx, "C16.R5", P.func(q))
    mr = P.func("plugin.util.register_in_group").nested.get("manual_register")
    if mr is None:
        raise AnalysisError("register_in_group.manual_register not found")
    require_total(rep, ctx, "C16.R5", mr)
    mf_ = F(ctx, mr)
    pl = mr.params[0]
    EPN = f"to_ep_name({pl}.Plugin.name, {pl}.Plugin.version)"
    REF = f"pgroup.PluginRef(name={pl}.Plugin.name, version={pl}.Plugin.version)"
    ep_st = [i_ for i_, v, b in mf_.stores("pgroup._ENTRY_POINTS[__k]") if mf_.x_at(i_, b["__k"]) == EPN]
    ld_st = [i_ for i_, v, b in mf_.stores("pgroup._LOADED_PLUGINS[__k]") if mf_.x_at(i_, b["__k"]) == REF and norm(v) == pl]
    lp = [i_ for i_, c, b in mf_.call_sites(f"pgroup._load_plugin(__e, {pl})") if mf_.x_at(i_, b["__e"]) == EPN]
    for ns, what, cons in ((ep_st, "the entry point name is recorded", "pgroup._ENTRY_POINTS[ep_name] = None"), (ld_st, "the class is recorded as loaded plugin", "pgroup._LOADED_PLUGINS[pg_ref] = plugin"), (lp, "the plugin is checked and initialised", "pgroup._load_plugin(ep_name, plugin)")):
        rep.check(bool(ns) and mf_.hit_before(mf_.g.exit, nodes=ns), "C16.R5", mr.qual, f"manual registration: {what}", mr.loc(), construct=cons, message=f"register_in_group no longer does `{cons}` on every path")
    ae = P.func(f"{PG}._add_ep")
    af_ = F(ctx, ae)
    ns = [i_ for i_, v, b in af_.stores("self._ENTRY_POINTS[__k]") if norm(v) == ae.params[2] and af_.x_at(i_, b["__k"]) in (f"EPName({ae.params[1]})",) or (norm(v) == ae.params[2] and isinstance(b["__k"], ast.Name))]
    rep.check(bool(ns) and af_.hit_before(af_.g.exit, nodes=ns), "C16.R5", ae.qual, "every added entry point is recorded under its entry point name", ae.loc(), construct="_ENTRY_POINTS store", message="_add_ep does not record the entry point")
    vfi = P.func(f"{PG}.versions")
    vf = F(ctx, vfi)
    nover = vf.tests(f"{vfi.params[2]} is None")
    REG2 = (f"list(self._VERSIONS.get({vfi.params[1]}) or [])", f"list(self._VERSIONS.get({vfi.params[1]}, []))")
    plain = [i_ for i_, r in vf.returns() if r is not None and vf.x_at(i_, r) in REG2]
    rep.check(bool(nover) and bool(plain) and vf.all_hit_before(plain, edges=nover) and all(vf.hit_before(vf.g.exit, nodes=plain, src_edge=e) for e in nover), "C16.R5", vfi.qual, "without a requested version every registered version is returned, with one only the compatible ones", vfi.loc(), construct="version filter condition", message="versions() returns the unfiltered list although a version was requested (or filters without one)")
    rep.check(okp, "C16.R5", f"{PG}.resolve", "resolve returns the newest compatible version when there is one, else None", P.func(f"{PG}.resolve").loc(), construct="resolve condition", message="resolve() returns the last element on the wrong branch")
    fi = P.func(f"{PG}.keys")
    kf = F(ctx, fi)
    loops = [n for n in kf.g.nodes if n.kind == "for" and kf.x(n.stmt.iter) == "self._VERSIONS.values()" and isinstance(n.stmt.target, ast.Name)]
    ok = len(loops) == 1 and any(isinstance(x, ast.YieldFrom) and norm(x.value) == loops[0].stmt.target.id for b_ in loops[0].stmt.body for x in ast.walk(b_)) and not any(isinstance(x, (ast.If, ast.Break, ast.Continue)) for b_ in loops[0].stmt.body for x in ast.walk(b_))
    rep.check(ok, "C16.R5", fi.qual, "keys() lists every registered version (yield from each list)", fi.loc(), construct="keys()", message="keys() does not iterate all version lists")


# ------------------------------------------------------------------------------------------- R6
def r6_codec(P, rep, ctx):
    T = "plugin.types"
    sep = P.const(T, "EP_NAME_VER_SEP")
    qual = P.const(T, "QUAL_NAME")
    semver = P.const(T, "SEMVER_STR_REGEX")
    epre = P.const(T, "EP_NAME_REGEX")
    m = P.module(T)
    rep.check(epre == f"{qual}{sep}{semver}", "C16.R6", T, "EP_NAME_REGEX == QUAL_NAME + separator + SEMVER", m.relpath, construct="EP_NAME_REGEX", message="EP_NAME_REGEX is not QUAL_NAME + EP_NAME_VER_SEP + SEMVER_STR_REGEX")
    for nm, pat in (("QUAL_NAME", qual), ("SEMVER_STR_REGEX", semver)):
        try:
            a, b = RL.full_language(pat), RL.containing(sep)
            w = RL.intersection_witness(a, b)
            states = RL.product_states_explored(a, b)
        except RL.UnsupportedRegex as e:
            raise AnalysisError(f"C16.R6: regex {nm} not supported by the NFA builder: {e}")
        rep.check(w is None, "C16.R6", T, f"no string of L({nm}) contains the separator {sep!r} (product automaton: {states} states explored, intersection empty)", m.relpath,
                  construct=f"L({nm}) ∩ Σ*{sep}Σ*", message=f"valid {nm} {w!r} contains the separator {sep!r}: from_ep_name cannot split entry point names unambiguously")
    # every name / version that is valid by the documented grammar still is: the codec is total on the names plugins already
    # carry ("begins with a letter, ends with a letter or digit, lowercase letters, digits, single _ or - inside; segments
    # joined by '.'"; version = three dot-separated numbers)
    DOC = {"QUAL_NAME": r"[a-z][a-z0-9]([_-]?[a-z0-9])*([.][a-z][a-z0-9]([_-]?[a-z0-9])*)*", "SEMVER_STR_REGEX": r"[0-9]+\.[0-9]+\.[0-9]+"}
    for nm, pat in (("QUAL_NAME", qual), ("SEMVER_STR_REGEX", semver)):
        try:
            w = RL.difference_witness(RL.full_language(DOC[nm]), RL.full_language(pat))
        except RL.UnsupportedRegex as e:
            raise AnalysisError(f"C16.R6: regex {nm} not supported by the NFA builder: {e}")
        rep.check(w is None, "C16.R6", T, f"L({nm}) contains every string of the documented grammar (subset construction, difference empty)", m.relpath, construct=f"L(documented {nm}) \\ L({nm})",
                  message=f"{w!r} is a valid {nm} by the documented grammar but is no longer matched by {nm}: plugins carrying such a name cannot be registered / their entry point names do not convert back")
    # also: a valid name cannot end / a version cannot start such that the separator straddles the boundary ambiguously:
    # L(QUAL_NAME)·sep·L(SEMVER) has a unique split iff no name·sep·ver string has another decomposition
    try:
        a = RL.full_language(f"(?:{qual}){sep_re(sep)}(?:{semver})")
        # another split would need the separator to occur twice (overlapping allowed) in a valid entry point name
        twice = RL.full_language(f"(?:.|\\n)*{sep_re(sep)}(?:.|\\n)*{sep_re(sep)}(?:.|\\n)*")
        overlap = RL.full_language(f"(?:.|\\n)*{sep_re(sep + sep[-1:])}(?:.|\\n)*") if len(set(sep)) == 1 else None
        w = RL.intersection_witness(a, twice) or (RL.intersection_witness(a, overlap) if overlap else None)
    except RL.UnsupportedRegex as e:
        raise AnalysisError(f"C16.R6: {e}")
    rep.check(w is None, "C16.R6", T, "in every valid entry point name the separator occurs exactly once (unique split point)", m.relpath, construct="unique split",
              message=f"entry point name {w!r} has more than one possible split point")
    # writer / reader use the same separator constant, nothing is transformed
    to = P.func(f"{T}.to_ep_name")
    js = [x for x in walk_local(to.node) if isinstance(x, ast.JoinedStr)]
    ok = len(js) == 1 and [norm(v.value) if isinstance(v, ast.FormattedValue) else v.value for v in js[0].values] == [to.params[0], "EP_NAME_VER_SEP", f"to_semver_str({to.params[1]})"]
    rep.check(ok, "C16.R6", to.qual, "to_ep_name == name + EP_NAME_VER_SEP + to_semver_str(version)", to.loc(), construct="to_ep_name format", message="to_ep_name does not build `{name}{EP_NAME_VER_SEP}{to_semver_str(version)}`")
    fr = P.func(f"{T}.from_ep_name")
    splits = [st for st in walk_local(fr.node) if isinstance(st, ast.Assign) and isinstance(st.value, ast.Call) and call_attr(st.value) == "split"]
    two = False
    unpack_st = splits[0] if len(splits) == 1 else None
    if len(splits) == 1:
        tg0 = splits[0].targets[0]
        two = isinstance(tg0, ast.Tuple) and len(tg0.elts) == 2
        if isinstance(tg0, ast.Name):
            # `parts = ep_name.split(SEP)` (bound once) ... `name, ver = parts`: the same two-way unpacking through a local
            stores = [x for x in walk_local(fr.node) if isinstance(x, ast.Name) and isinstance(x.ctx, ast.Store) and x.id == tg0.id]
            unp = [st for st in walk_local(fr.node) if isinstance(st, ast.Assign) and isinstance(st.value, ast.Name) and st.value.id == tg0.id]
            unpack_st = unp[0] if len(unp) == 1 else None
            two = len(stores) == 1 and len(unp) == 1 and isinstance(unp[0].targets[0], ast.Tuple) and len(unp[0].targets[0].elts) == 2 and not any(isinstance(e, ast.Starred) for e in unp[0].targets[0].elts)
    ok = len(splits) == 1 and len(splits[0].value.args) == 1 and norm(splits[0].value.args[0]) == "EP_NAME_VER_SEP" and two
    rep.check(ok, "C16.R6", fr.qual, "from_ep_name splits on EP_NAME_VER_SEP into exactly two parts", fr.loc(), construct="from_ep_name split", message="from_ep_name does not split on the same separator constant into exactly (name, version)")
    if ok:
        nvar, vvar = [e.id for e in unpack_st.targets[0].elts]
        rets = [x.value for x in walk_local(fr.node) if isinstance(x, ast.Return)]
        ok2 = len(rets) == 1 and isinstance(rets[0], ast.Tuple) and len(rets[0].elts) == 2 and norm(rets[0].elts[0]) == nvar and norm(rets[0].elts[1]) in (f"from_semver_str(SemVerStr({vvar}))", f"from_semver_str({vvar})")
        rebinds = [st for st in walk_local(fr.node) if isinstance(st, (ast.Assign, ast.AugAssign)) and st not in splits and st is not unpack_st and any(isinstance(t, ast.Name) and t.id in (nvar, vvar) for _, t in store_targets(st))]
        rep.check(ok2 and not rebinds, "C16.R6", fr.qual, "from_ep_name returns the name part unchanged and the parsed version part", fr.loc(), construct="from_ep_name result",
                  message=f"from_ep_name transforms the decoded name or version: returns {[norm(r) for r in rets]}{' after ' + norm(rebinds[0]) if rebinds else ''}")
    ts = P.func(f"{T}.to_semver_str")
    fs = P.func(f"{T}.from_semver_str")
    rep.check("'.'.join(map(str, ver))" in norm(ts.node), "C16.R6", ts.qual, "to_semver_str joins the components with '.'", ts.loc(), construct="to_semver_str", message="to_semver_str is not '.'.join(map(str, ver))")
    rep.check("tuple(map(int, ver.split('.')))" in norm(fs.node), "C16.R6", fs.qual, "from_semver_str splits on '.' and converts to int", fs.loc(), construct="from_semver_str", message="from_semver_str is not tuple(map(int, ver.split('.')))")
    a = RL.full_language(semver)
    rep.check(a.accepts("1.2.3") and not a.accepts("1.2") and not a.accepts("1.2.3.4") and not a.accepts("1..3"), "C16.R6", T, "SEMVER_STR_REGEX is exactly three '.'-separated digit groups (automaton membership)", m.relpath,
              construct="SEMVER_STR_REGEX", message="SEMVER_STR_REGEX accepts other than three dot-separated digit groups")


def sep_re(s: str) -> str:
    return "".join("\\" + ch if not ch.isalnum() and ch != "_" else ch for ch in s)


# ------------------------------------------------------------------------------------------- R7
def r10_extra_comparisons(P, rep, ctx):
    """The order of plugin references is DEFINED by __eq__ and __ge__ (the other comparisons are derived by
    functools.total_ordering).  A further hand-written comparison (__lt__, __le__, __gt__) is a second definition of the same
    order and must be the same lexicographic chain: for each of group, name, version in this order `if self.k != other.k:
    return self.k <op> other.k`, then the constant for equal references."""
    cls = P.cls("schema.plugins.PluginRef")
    n = 0
    for nm, op, eq in (("__lt__", ast.Lt, False), ("__gt__", ast.Gt, False), ("__le__", ast.LtE, True)):
        mfi = cls.methods.get(nm)
        if mfi is None:
            continue
        n += 1
        body = [st for st in mfi.node.body if not (isinstance(st, ast.Expr) and isinstance(st.value, ast.Constant))]
        o = mfi.params[1]
        ok = len(body) == 4
        if ok:
            for key, st in zip(("group", "name", "version"), body[:3]):
                ok = ok and isinstance(st, ast.If) and not st.orelse and norm(st.test) in (f"self.{key} != {o}.{key}", f"{o}.{key} != self.{key}") and len(st.body) == 1 and isinstance(st.body[0], ast.Return) \
                    and isinstance(st.body[0].value, ast.Compare) and len(st.body[0].value.ops) == 1 and isinstance(st.body[0].value.ops[0], op) and norm(st.body[0].value.left) == f"self.{key}" and norm(st.body[0].value.comparators[0]) == f"{o}.{key}"
            ok = ok and isinstance(body[3], ast.Return) and isinstance(body[3].value, ast.Constant) and body[3].value.value is eq
        rep.check(ok, "C16.R10", mfi.qual, f"hand-written {nm} is the lexicographic chain over (group, name, version)", mfi.loc(), construct=f"PluginRef.{nm}",
                  message=f"PluginRef.{nm} is a second, hand-written definition of the order and is not the chain `if self.k != other.k: return self.k {'<' if op is ast.Lt else '>' if op is ast.Gt else '<='} other.k` over group, name, version: it can disagree with __ge__ / __eq__ (both a < b and b < a, or neither), so sorting and 'newest compatible version' are no longer well defined")
    if n == 0:
        rep.ok("C16.R10", cls.qual, "no hand-written comparison besides __eq__ / __ge__ (total_ordering derives the rest)", f"{cls.module.relpath}:{cls.node.lineno}")


def r8_group_lookup_key(P, rep, ctx):
    """`plugingroups.get(name, version)` resolves the request to the newest compatible registered group class and then
    looks the *instance* up under that class's own reference.  The key is the resolved plugin's reference, never one built
    from the requested version: a compatible request with a lower minor version has no entry of its own."""
    fi = P.func("plugins.PGPluginGroup.get")
    f = F(ctx, fi)
    n = 0
    for i, c, b in f.call_sites("self._self_groups.get(__k)") + f.call_sites("self._self_groups[__k]"):
        k = f.xe_at(i, b["__k"])
        n += 1
        ok = isinstance(k, ast.Call) and isinstance(k.func, ast.Attribute) and k.func.attr == "ref" and norm(k.func.value).endswith(".Plugin") and not k.args and not any(kw.arg in ("version", "name", None) for kw in k.keywords)
        rep.check(ok, "C16.R8", fi.qual, "the group instance is looked up under the resolved plugin's own reference", fi.loc(c), construct=f"group key {norm(k)[:70]}",
                  message=f"PGPluginGroup.get looks the group up under `{norm(k)[:90]}`: a reference carrying the *requested* name / version instead of the resolved plugin's own `Plugin.ref()` misses the registered instance for every compatible but not identical request (get returns None where resolve finds a plugin)")
    rep.check(n >= 1, "C16.R8", fi.qual, "group lookup site found", fi.loc(), construct="_self_groups lookup", message="PGPluginGroup.get no longer looks instances up in _self_groups: rule has nothing to check")


def r7_versionless(P, rep, ctx):
    fi = P.func(f"{PG}.get")
    f = F(ctx, fi)
    g = f.g
    from .c07 import unpack_names

    names = unpack_names(f, f"plugin_args({fi.params[1]}, {fi.params[2]})")
    if names is None:
        raise AnalysisError("C16.R7: `name, version = plugin_args(key, version)` not found in PluginGroup.get")
    ver = names[1]
    nover = f.tests(f"{ver} is None")
    marks = f.calls("UndefVersion._mark_class(___)")
    pa = [n.idx for n in g.nodes if n.kind == "stmt" and isinstance(n.stmt, ast.Assign) and MM.match(f"plugin_args({fi.params[1]}, {fi.params[2]})", n.stmt.value) is not None]
    ok = bool(nover) and bool(marks) and all(f.hit_before(g.exit, nodes=marks, src_edge=e) for e in nover)
    rep.check(ok, "C16.R7", fi.qual, "get() marks the class on every path on which no version was requested", fi.loc(), construct="_mark_class when version is None",
              message="PluginGroup.get can return an unmarked plugin class although no version was stated")
    # the `version` tested is the effective one (after plugin_args)
    rep.check(bool(pa) and f.all_hit_before(f.test_nodes(nover), nodes=pa), "C16.R7", fi.qual, "the tested version is the effective one computed by plugin_args", fi.loc(), construct="plugin_args before version test",
              message="get() tests the raw `version` argument, not the effective version from plugin_args")
    rets = [(i, v) for i, v in f.returns() if v is not None and not (isinstance(v, ast.Constant) and v.value is None)]
    # "not found" answers: inside the KeyError handler the caller's own default (a parameter) may be handed back
    handlers = [n.idx for n in g.nodes if n.kind == "except" and n.stmt is not None and n.stmt.type is not None and "KeyError" in norm(n.stmt.type)]
    rets = [(i, v) for i, v in rets if not (isinstance(v, ast.Name) and v.id in fi.params[3:] and handlers and f.hit_before(i, nodes=handlers))]
    marked_vars = set()
    for n in g.nodes:
        if n.kind == "stmt" and isinstance(n.stmt, ast.Assign) and isinstance(n.stmt.value, ast.Call) and norm(n.stmt.value.func) == "UndefVersion._mark_class":
            marked_vars |= {t.id for t in n.stmt.targets if isinstance(t, ast.Name)}
    okr = bool(rets) and all((isinstance(v, ast.Name) and v.id in marked_vars) or (MM.match("cast(__t, __v)", v) is not None and isinstance(MM.match("cast(__t, __v)", v)["__v"], ast.Name) and MM.match("cast(__t, __v)", v)["__v"].id in marked_vars) or MM.match("UndefVersion._mark_class(___)", v) is not None for i, v in rets)
    rep.check(okr, "C16.R7", fi.qual, "get() returns the (possibly marked) `ret`", fi.loc(), construct="get() return values", message=f"get() returns something other than the marked class: {[norm(v) for i, v in rets]}")
    fi = P.func("plugin.metaclass.PluginMetaclassMixin.__new__")
    f = F(ctx, fi)
    g = f.g
    sup = f.calls("super().__new__(___)")
    loops = [n for n in g.nodes if n.kind == "for" and f.x(n.stmt.iter) == fi.params[2] and isinstance(n.stmt.target, ast.Name)]
    ok = bool(sup) and len(loops) == 1
    if ok:
        bv = loops[0].stmt.target.id
        marked = f.tests(f"UndefVersion._is_marked({bv})")
        ok = bool(marked) and f.refuses(marked) and not f.reaches(marked, sup) and f.all_hit_before(sup, nodes=[loops[0].idx]) and f.hit_before(loops[0].idx, nodes=f.test_nodes(marked), src_edge=(loops[0].idx, "iter"))
    rep.check(ok, "C16.R7", fi.qual, "a marked (version-less) base raises TypeError before the class is created", fi.loc(), construct="marked-base check before super().__new__",
              message="PluginMetaclassMixin.__new__ can create a subclass of a plugin class obtained without a version")
    mk = P.func("plugin.metaclass.MarkerMixin._is_marked")
    mf = F(ctx, mk)
    cp = mk.params[1]
    rets = [v for _, v in mf.returns() if v is not None]
    rf = mf.result_formula()
    rep.check(rf is not None and MM.equivalent(rf, f"{cp} is not cls and issubclass({cp}, cls)"), "C16.R7", mk.qual, "_is_marked == proper subclass of the marker", mk.loc(), construct="_is_marked", message=f"_is_marked is {mf.return_texts()}")
