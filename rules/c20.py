"""C20 — Containers are self-describing about the schemas they use.

Decided: R1 description stored on first use (JSON Schema of exactly (name, version), parent chain of the same pair,
a providing package when none is stored) before the link is written; R2 a freshly opened container rebuilds the same
tables (loader/writer agreement, per entry); R3 accessors return what is stored (no computed-and-dropped lookups,
no fall-through); R4 the JSON Schema export lists constants and merges parser schema_info.
Not decided: every stored object validates against the embedded JSON Schema (runtime).
"""
from __future__ import annotations

import ast

from mdsa.astutil import call_attr, local_calls, norm
from mdsa.cfg import walk_local
from mdsa.loader import AnalysisError

from .c16 import explicit_returns
from .common import Ctx
from .tocmodel import I, r_links_register, r_loader_agreement, r_schema_register

EXPLANATION = (
    "R1 MUST/ORDER on TOCLinks.register and TOCSchemas._register (exact (name, version) lookups, stores, provider registration, and the "
    "agreement between the 'no stored provider' test and the cleanup of provider sets); R2 AGREE: for each TOC class every in-memory "
    "table a mutator maintains is rebuilt per stored entry by __init__, statements that use a per-entry variable after its loop are "
    "flagged, and reader/writer paths come from the same helpers; R3 TOTAL: every dict-like accessor of TOCSchemas/TOCPackages returns "
    "an explicit value on every normal path and contains no bare lookup expression whose value is dropped; R4: Config.schema_extra puts "
    "every constant under properties and under the constants key, ParserMixin.__modify_schema__ merges schema_info."
)
NOT_DECIDED = "stored objects validate against the embedded JSON Schema; embedded parent chain/provider equal the plugin system's report at run time"
ACCESSORS = {
    "TOCSchemas": ["__getitem__", "get", "keys", "values", "items", "provider", "parent_path", "versions", "children", "__len__", "__contains__", "__iter__", "packages"],
    "TOCPackages": ["__getitem__", "keys", "values", "items", "__len__", "__contains__", "__iter__"],
}


def run(P, rep, tier):
    rep.explanation = EXPLANATION
    rep.not_decided = NOT_DECIDED
    rep.assumptions = ["schemas.get / parent_path / provider of the plugin system are the 'plugin-side truth'"]
    ctx = Ctx(P)
    rep.attempt(r_links_register, P, rep, ctx, "C20.R1")
    rep.attempt(r_schema_register, P, rep, ctx, "C20.R1")
    rep.attempt(r_loader_agreement, P, rep, ctx, "C20.R2")
    rep.attempt(r3_accessors, P, rep, ctx)
    rep.attempt(r4_schema_export, P, rep, ctx)
    rep.floor("C20.R1", 12)
    rep.floor("C20.R2", 12)
    rep.floor("C20.R3", 18)
    rep.floor("C20.R4", 3)


def r3_accessors(P, rep, ctx):
    for cname, names in ACCESSORS.items():
        c = P.cls(f"{I}.{cname}")
        for m in names:
            fi = c.methods.get(m)
            if fi is None:
                rep.fail("C20.R3", c.qual, f"{m} missing", f"{cname}.{m} is not defined", c.module.relpath)
                continue
            ok, bad = explicit_returns(ctx, fi)
            # `get` may return None explicitly in its except branch
            if m == "get":
                g = ctx.cfg(fi)
                rets = [n for n in g.nodes if isinstance(n.stmt, ast.Return)]
                bad = [b for b in bad if "bare/None return" not in b]
                good = [n for n in rets if n.stmt.value is not None and norm(n.stmt.value) == f"self[{fi.params[1]}]"]
                try_ok = bool(good)
                ok = not bad and try_ok
                if not try_ok:
                    bad.append("no `return self[...]` on the success path")
            rep.check(ok, "C20.R3", fi.qual, f"{m} returns an explicit value on every path", fi.loc(), construct=f"{cname}.{m} result", message=f"{cname}.{m} does not return the looked-up value ({'; '.join(bad)})", path=bad)
            dropped = [st for st in walk_local(fi.node) if isinstance(st, ast.Expr) and isinstance(st.value, (ast.Subscript, ast.Attribute, ast.Name, ast.Compare, ast.BinOp))]
            rep.check(not dropped, "C20.R3", fi.qual, f"{m} contains no lookup whose value is dropped", fi.loc(), construct=f"{cname}.{m} dropped value", message=f"{cname}.{m} computes `{norm(dropped[0]) if dropped else ''}` and discards the value")
    gi = P.func(f"{I}.TOCSchemas.__getitem__")
    rep.check("json.loads(node[()].decode('utf-8'))" in norm(P.func(f"{I}.TOCSchemas._load_json").node), "C20.R3", gi.qual, "embedded JSON Schema is decoded as written (UTF-8 JSON)", gi.loc(), construct="_load_json", message="_load_json does not decode UTF-8 JSON")
    pv = P.func(f"{I}.TOCSchemas.provider")
    t = norm(pv.node)
    rep.check("next(iter(self._pkgs._providers.get(schema_ref, [])), None)" in t and "return self._pkgs[pkg_name_ver]" in t and "raise KeyError" in t, "C20.R3", pv.qual, "provider reports a stored package providing the schema (KeyError if none)", pv.loc(), construct="provider", message="TOCSchemas.provider does not return the stored package info of a provider")
    pp = P.func(f"{I}.TOCSchemas.parent_path")
    rep.check("return self._parents[s_ref]" in norm(pp.node) and "require_version=True" in norm(pp.node), "C20.R3", pp.qual, "parent_path reports the stored chain of exactly (name, version)", pp.loc(), construct="parent_path", message="TOCSchemas.parent_path does not return self._parents[<exact ref>]")


def r4_schema_export(P, rep, ctx):
    fi = P.func("schema.core.SchemaBase.Config.schema_extra")
    t = norm(fi.node)
    ok = "for cname, cval in model.__constants__.items()" in t and "schema['properties'][cname] = True" in t and "schema[KEY_SCHEMA_CONSTFLDS][cname] = cval" in t and "schema[KEY_SCHEMA_CONSTFLDS] = {}" in t
    rep.check(ok, "C20.R4", fi.qual, "every constant is listed under properties and stored under the constants key of the JSON Schema", fi.loc(), construct="schema_extra constants", message="schema_extra does not export every constant field (properties + $metador_constants)")
    gse = ctx.cfg(fi)
    ct = [x.idx for x in gse.nodes if x.kind == "test" and norm(x.exprs[0]) == "model.__constants__"]
    cl = [n.idx for n in gse.nodes if n.kind == "for" and norm(n.stmt.iter) == "model.__constants__.items()"]
    rep.check(bool(ct) and bool(cl) and all(gse.edge_dominates(x, "T", l) for x in ct for l in cl) and all(gse.every_path_passes(cl, gse.exit, src=x, src_label="T") for x in ct), "C20.R4", fi.qual, "constants are exported exactly when the schema has some", fi.loc(), construct="constants export condition", message="schema_extra exports constants on the wrong branch")
    rep.check("model = UndefVersion._unwrap(model) or model" in t, "C20.R4", fi.qual, "marked (version-less) classes export the schema of the real class", fi.loc(), construct="unwrap in schema_extra", message="schema_extra does not unwrap marked classes")
    ms = P.func("schema.parser.ParserMixin.__modify_schema__")
    t = norm(ms.node)
    rep.check("parser := get_parser(cls)" in t and "schema.update(**schema_info)" in t, "C20.R4", ms.qual, "custom parser types contribute their schema_info to the JSON Schema", ms.loc(), construct="__modify_schema__", message="ParserMixin.__modify_schema__ does not merge the parser's schema_info")
