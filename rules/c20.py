"""C20 — Containers are self-describing about the schemas they use.

Decided: R1 description stored on first use (JSON Schema of exactly (name, version), parent chain of the same pair,
a providing package when none is stored) before the link is written; R2 a freshly opened container rebuilds the same
tables (loader/writer agreement, per entry); R3 accessors return what is stored (no computed-and-dropped lookups,
no fall-through); R4 the JSON Schema export lists constants and merges parser schema_info.
Not decided: every stored object validates against the embedded JSON Schema (runtime).
"""
from __future__ import annotations

import ast

from mdsa.astutil import call_attr, local_calls, norm
from mdsa.cfg import walk_local
from mdsa.loader import AnalysisError

from .c16 import explicit_returns
from mdsa import match as MM

from .sem import F
from .common import Ctx
from .tocmodel import I, r_links_register, r_loader_agreement, r_schema_register

EXPLANATION = (
    "R1 MUST/ORDER on TOCLinks.register and TOCSchemas._register (exact (name, version) lookups, stores, provider registration, and the "
    "agreement between the 'no stored provider' test and the cleanup of provider sets); R2 AGREE: for each TOC class every in-memory "
    "table a mutator maintains is rebuilt per stored entry by __init__, statements that use a per-entry variable after its loop are "
    "flagged, and reader/writer paths come from the same helpers; R3 TOTAL: every dict-like accessor of TOCSchemas/TOCPackages returns "
    "an explicit value on every normal path and contains no bare lookup expression whose value is dropped; R4: Config.schema_extra puts "
    "every constant under properties and under the constants key, ParserMixin.__modify_schema__ merges schema_info."
)
NOT_DECIDED = "stored objects validate against the embedded JSON Schema; embedded parent chain/provider equal the plugin system's report at run time"
ACCESSORS = {
    "TOCSchemas": ["__getitem__", "get", "keys", "values", "items", "provider", "parent_path", "versions", "children", "__len__", "__contains__", "__iter__", "packages"],
    "TOCPackages": ["__getitem__", "keys", "values", "items", "__len__", "__contains__", "__iter__"],
}


def run(P, rep, tier):
    rep.explanation = EXPLANATION
    rep.not_decided = NOT_DECIDED
    rep.assumptions = ["schemas.get / parent_path / provider of the plugin system are the 'plugin-side truth'"]
    ctx = Ctx(P)
    rep.attempt(r_links_register, P, rep, ctx, "C20.R1")
    rep.attempt(r_schema_register, P, rep, ctx, "C20.R1")
    rep.attempt(r_loader_agreement, P, rep, ctx, "C20.R2")
    rep.attempt(r3_accessors, P, rep, ctx)
    rep.attempt(r4_schema_export, P, rep, ctx)
    # schema / package records of objects that still exist are kept: the un-linking flag of _destroy_meta reaches every nested object
    from . import c06

    rep.attempt(c06.r_unlink_threading, P, rep, ctx, "C20.R5")
    # the embedded parent chain is what _update_parents_children records (shared with C07.R6)
    from . import c07

    rep.attempt(c07.r6_children_index, P, rep, ctx)
    # package / schema records are removed exactly when unused: the emptiness tests look at the stored group itself
    # (cleanup rule of C06.R4)
    rep.attempt(c06.r4_cleanup, P, rep, ctx)
    # ... and are removed only for objects that go away: who may call TOCLinks.unregister (C06.R10)
    rep.attempt(c06.r10_unregister_callers, P, rep, ctx)
    # what is stored is the serialisation of the validated object (pairing rules of C06.R1): input that merely parses is not
    # what the embedded JSON Schema describes
    rep.attempt(c06.r1_pairing, P, rep, ctx)
    # only validated objects are stored (attach discipline of C07.R2), and copies are re-linked (C06.R2)
    rep.attempt(c07.r2_set_discipline, P, rep, ctx)
    rep.attempt(c06.r2_node_ops, P, rep, ctx)
    rep.floor("C20.R1", 12)
    rep.floor("C20.R2", 12)
    rep.floor("C20.R3", 18)
    rep.floor("C20.R4", 3)
    # refinement against the pinned tree for every function the rules above looked at (rules/pinned.py)
    import os as _os

    if not _os.environ.get("MDSA_PINNED_GEN"):
        from .pinned import refine

        refine(P, rep, ctx, "C20")


def r3_accessors(P, rep, ctx):
    for cname, names in ACCESSORS.items():
        c = P.cls(f"{I}.{cname}")
        for m in names:
            fi = c.methods.get(m)
            if fi is None:
                rep.fail("C20.R3", c.qual, f"{m} missing", f"{cname}.{m} is not defined", c.module.relpath)
                continue
            ok, bad = explicit_returns(ctx, fi)
            # `get` may return None explicitly in its except branch
            if m == "get":
                g = ctx.cfg(fi)
                rets = [n for n in g.nodes if isinstance(n.stmt, ast.Return)]
                bad = [b for b in bad if "bare/None return" not in b]
                good = [n for n in rets if n.stmt.value is not None and norm(n.stmt.value) == f"self[{fi.params[1]}]"]
                try_ok = bool(good)
                ok = not bad and try_ok
                if not try_ok:
                    bad.append("no `return self[...]` on the success path")
            rep.check(ok, "C20.R3", fi.qual, f"{m} returns an explicit value on every path", fi.loc(), construct=f"{cname}.{m} result", message=f"{cname}.{m} does not return the looked-up value ({'; '.join(bad)})", path=bad)
            dropped = [st for st in walk_local(fi.node) if isinstance(st, ast.Expr) and isinstance(st.value, (ast.Subscript, ast.Attribute, ast.Name, ast.Compare, ast.BinOp))]
            rep.check(not dropped, "C20.R3", fi.qual, f"{m} contains no lookup whose value is dropped", fi.loc(), construct=f"{cname}.{m} dropped value", message=f"{cname}.{m} computes `{norm(dropped[0]) if dropped else ''}` and discards the value")
    gi = P.func(f"{I}.TOCSchemas.__getitem__")
    lj = P.func(f"{I}.TOCSchemas._load_json")
    ljf = F(ctx, lj)
    nd = lj.params[-1]
    rets = [ljf.x(v) for _, v in ljf.returns() if v is not None]
    rep.check(bool(rets) and all(r in (f"json.loads({nd}[()].decode('utf-8'))", f"json.loads({nd}[()])") for r in rets), "C20.R3", gi.qual, "embedded JSON Schema is decoded as written (UTF-8 JSON)", gi.loc(), construct="_load_json", message="_load_json does not decode UTF-8 JSON")
    pvfi = P.func(f"{I}.TOCSchemas.provider")
    pv = F(ctx, pvfi)
    sr = pvfi.params[1]
    PK = f"next(iter(self._pkgs._providers.get({sr}, [])), None)"
    none = pv.tests(f"{PK} is None")
    rets = [(i, pv.x_at(i, v)) for i, v in pv.returns() if v is not None]
    ok = pv.refuses(none) and bool(rets) and all(t == f"self._pkgs[{PK}]" for i, t in rets) and all(pv.hit_before(i, edges=pv.neg(none)) for i, t in rets)
    rep.check(ok, "C20.R3", pvfi.qual, "provider reports a stored package providing the schema (KeyError if none)", pvfi.loc(), construct="provider", message="TOCSchemas.provider does not return the stored package info of a provider of the schema / does not raise KeyError when none is stored")
    ppfi = P.func(f"{I}.TOCSchemas.parent_path")
    pp = F(ctx, ppfi)
    from .c07 import unpack_names

    nv = unpack_names(pp, f"plugin_args({ppfi.params[1]}, {ppfi.params[2]}, require_version=True)")
    rets = [pp.x_at(i, v) for i, v in pp.returns() if v is not None]
    rep.check(nv is not None and bool(rets) and all(r == f"self._parents[schemas.PluginRef(name={nv[0]}, version={nv[1]})]" for r in rets), "C20.R3", ppfi.qual, "parent_path reports the stored chain of exactly (name, version)", ppfi.loc(), construct="parent_path", message="TOCSchemas.parent_path does not return self._parents[<exact ref>]")


def r4_schema_export(P, rep, ctx):
    fi = P.func("schema.core.SchemaBase.Config.schema_extra")
    f = F(ctx, fi)
    g = f.g
    sc, md = fi.params[0], fi.params[1]
    has_consts = f.tests(f"{md}.__constants__", f"len({md}.__constants__)")
    loops = [n for n in g.nodes if n.kind == "for" and f.x(n.stmt.iter) == f"{md}.__constants__.items()" and isinstance(n.stmt.target, ast.Tuple) and len(n.stmt.target.elts) == 2]
    ok = len(loops) == 1
    if ok:
        L = loops[0].idx
        cn, cvl = [norm(e) for e in loops[0].stmt.target.elts]
        props = [i for i, v, b in f.stores(f"{sc}['properties'][{cn}]") if norm(v) == "True"]
        consts = [i for i, v, b in f.stores(f"{sc}[KEY_SCHEMA_CONSTFLDS][{cn}]") if norm(v) == cvl]
        init = [i for i, v, b in f.stores(f"{sc}[KEY_SCHEMA_CONSTFLDS]") if norm(v) in ("{}", "dict()")]
        ok = bool(props) and bool(consts) and bool(init) and f.hit_before(L, nodes=props, src_edge=(L, "iter")) and f.hit_before(L, nodes=consts, src_edge=(L, "iter")) and f.hit_before(L, nodes=init)
    rep.check(ok, "C20.R4", fi.qual, "every constant is listed under properties and stored under the constants key of the JSON Schema", fi.loc(), construct="schema_extra constants", message="schema_extra does not export every constant field (properties + $metador_constants)")
    cl = [n.idx for n in loops]
    rep.check(bool(has_consts) and bool(cl) and f.all_hit_before(cl, edges=has_consts) and all(f.hit_before(g.exit, nodes=cl, src_edge=e) for e in has_consts), "C20.R4", fi.qual, "constants are exported exactly when the schema has some", fi.loc(), construct="constants export condition", message="schema_extra exports the constants under a different condition than `the schema has constants`")
    unw = [(i, v) for i, v, b in f.stores(md)]
    rep.check(bool(unw) and all(norm(v) in (f"UndefVersion._unwrap({md}) or {md}",) for i, v in unw) and f.all_hit_before(cl, nodes=[i for i, v in unw]), "C20.R4", fi.qual, "marked (version-less) classes export the schema of the real class", fi.loc(), construct="unwrap in schema_extra", message="schema_extra does not unwrap marked classes")
    msfi = P.func("schema.parser.ParserMixin.__modify_schema__")
    ms = F(ctx, msfi)
    ups = ms.call_sites(f"{msfi.params[1]}.update(**__i)")
    okm = bool(ups) and all(ms.x_at(i, b["__i"]) == "get_parser(cls).schema_info" for i, c, b in ups)
    has_p = ms.tests("get_parser(cls)")
    has_i = ms.tests("get_parser(cls).schema_info")
    upn = [i for i, c, b in ups]
    okm = okm and bool(has_p) and bool(has_i) and all(ms.hit_before(ms.g.exit, nodes=upn, edges=ms.neg(has_i), src_edge=e) for e in has_p)
    rep.check(okm, "C20.R4", msfi.qual, "custom parser types contribute their schema_info to the JSON Schema", msfi.loc(), construct="__modify_schema__", message="ParserMixin.__modify_schema__ does not merge the parser's schema_info")
